"""C20 — after a server crash, externalised sessions continue as if nothing happened.

Every generated history is run once uninterrupted and then once per crash point (crash between two
requests at EVERY position; torn state write at every stepping request x every truncation-length class).
"Crash" = the BptkServer object is discarded and a new one is built on the same scratch state directory.
Reference check (independent of the Lean model): every answer of the crashed run equals the answer of the
uninterrupted run unless the instance was never externalised / its file was torn; the constructor never
fails; every answer carries every requested equation.  Correspondence: the Lean model (Drive/C20) predicts
for every request of both runs the kind of answer, whether the two runs agree, and the state of the files."""
import copy, json, os, shutil
from common import *
from props import c19

# where the write of the (temporary) state file dies: before the first character, after 1, 1/3, 1/2, all but one
# character, or after everything was written and synced but before the rename
TORN_CLASSES = ["zero", "one", "third", "half", "last", "complete"]
CFG = {"replayIsComplete": True, "atomicWrite": False, "loadIsPerEntry": True, "replayOrderPreserved": True, "loadReadsCommitted": True,
       "saveOnEveryEnding": True, "savedEqualsLive": True}
SKIPPED = []                                              # variants whose crash point fell after the completed write (see torn_step)
NOT_INTERCEPTED = []                                      # torn variants whose state write the hooks did not reach (run tag, op index)
FL_MISMATCH = []                                          # (run tag, op index, text): state file vs live session after a stepping request     # probed per run (see probe)
ROWS = {}                                                 # wave 7: counts per row of the coverage table (notes/C20-report.md)
UNUSABLE_OK = [False]                                     # probed: a state file that parses but is not a session state is skipped at load
SEMANTIC_DAMAGE = ["state-null", "state-empty", "state-list", "missing-logs", "logs-wrong-type", "empty-object", "garbage"]


def row(name, n=1):
    ROWS[name] = ROWS.get(name, 0) + n


WRITE_OPS = []                                            # probed: the os-level operations of one state write, in order
EXTRA_CLASSES = []                                        # crash points after each of them but the last (`afterop1`, …)
TMP_STATS = {}                                            # cut class -> what lay next to the state file at the restart
STARTUPS = []                                             # (compress, listing pattern b/r, constructor outcome) per restart after damage
DAMAGE_STATS = {"variants": 0, "listing_positions": {}, "adjacent_pairs": 0, "compressed": 0, "plain": 0}


class ProcessDied(BaseException):
    """Raised from inside the adapter's file write: everything above it on the stack is the dying process."""


def cut_length(content, cls):
    inner = content.find('"state": "')
    return {"zero": 0, "envelope": max(1, min(inner, 5)), "inner": (inner + len(content)) // 2 if inner >= 0 else len(content) // 2,
            "one": 1, "third": len(content) // 3, "half": len(content) // 2, "last": len(content) - 1, "complete": len(content)}[cls]


class WriteCrash:
    """Harness-side hook: the next write of a state file stops after a prefix of the content (class `cls`) has reached the disk,
    and the process "dies" there (ProcessDied unwinds the request; the server object is discarded by the caller).  Two ways in,
    whichever the adapter uses: its module-level `open` is shadowed (a file opened for writing dies inside `write`), and its `os` is
    replaced by a proxy whose `replace` / `rename` onto a `.json` file cuts the source file to the prefix and dies before the
    rename (a writer that goes through tempfile / os.fdopen never calls the module's `open`; the disk state is the same: a torn or
    complete temporary file next to the untouched state file).  `fired` tells whether either was reached."""
    def __init__(self, cls):
        self.cls, self.fired, self.ops = cls, False, []
    def __enter__(self):
        import builtins
        import BPTK_Py.externalstateadapter.externalStateAdapter as esa
        hook = self
        def fake_open(file, mode="r", *a, **k):
            f = builtins.open(file, mode, *a, **k)
            if "w" not in mode or hook.fired or hook.cls.startswith("afterop") or hook.cls == "record":
                return f
            class W:
                def write(self, text):
                    f.write(text[:cut_length(text, hook.cls)]); f.flush(); f.close()
                    hook.fired = True
                    raise ProcessDied()
                def close(self): f.close()
                def flush(self): pass
                def fileno(self): return f.fileno()
                def __enter__(self): return self
                def __exit__(self, *a): f.close(); return False
            return W()
        class OsProxy:
            def __getattr__(self, name):
                return getattr(os, name)
            def _after(self, opname, target):
                """`afteropK`: the process dies right AFTER the K-th os-level operation of the write (= before the next one)"""
                hook.ops.append((opname, "committed" if str(target).endswith(".json") else "tmp"))
                if hook.cls.startswith("afterop") and len(hook.ops) == int(hook.cls[7:]) and not hook.fired:
                    hook.fired = True
                    raise ProcessDied()
            def fsync(self, fd):
                r = os.fsync(fd); self._after("fsync", "tmp"); return r
            def remove(self, path, *a, **k):
                r = os.remove(path, *a, **k); self._after("remove", path); return r
            def unlink(self, path, *a, **k):
                r = os.unlink(path, *a, **k); self._after("remove", path); return r
            def _die(self, src, dst):
                if hook.cls.startswith("afterop") or hook.cls == "record":
                    return
                if str(dst).endswith(".json") and not hook.fired:
                    content = builtins.open(src).read()
                    with builtins.open(src, "w") as g:
                        g.write(content[:cut_length(content, hook.cls)])
                    hook.fired = True
                    raise ProcessDied()
            def replace(self, src, dst, *a, **k):
                self._die(src, dst); r = os.replace(src, dst, *a, **k); self._after("rename", dst); return r
            def rename(self, src, dst, *a, **k):
                self._die(src, dst); r = os.rename(src, dst, *a, **k); self._after("rename", dst); return r
        self.had_os = "os" in esa.__dict__
        esa.open = fake_open
        esa.os = OsProxy()
        return self
    def __exit__(self, *a):
        import BPTK_Py.externalstateadapter.externalStateAdapter as esa
        if "open" in esa.__dict__:
            del esa.open
        if self.had_os:
            esa.os = os
        elif "os" in esa.__dict__:
            del esa.os
        return False


def settings_of(st):
    return None if st["k"] == "nobody" else st.get("settings", {})


def settings_token(st):
    s = settings_of(st)
    return "-" if not s else c19.hexs(s)


class Run:
    """One server process after the other on one state directory."""
    def __init__(self, spec, compress, path):
        self.spec, self.compress, self.path = spec, compress, path
        shutil.rmtree(path, ignore_errors=True)
        os.makedirs(path)
        self.srv = None
        self.dead = []
        self.ids = {}            # model id -> uuid
        self.ctor_error = None
        self.boot()

    def boot(self):
        try:
            self.srv = c19.Server(self.spec, self.compress, self.path)
        except Exception as e:           # the constructor must never fail (damage containment)
            self.ctor_error = repr(e)
            self.srv = None

    def listing(self):
        """the state directory as load_state will meet it: file name order of os.listdir, b = unreadable, r = readable"""
        from BPTK_Py import FileAdapter
        names = [fn for fn in os.listdir(self.path) if fn.endswith(".json")]
        def kind(fn):                                     # read by the harness itself, not through the adapter under test
            try:
                st = json.loads(json.loads(open(os.path.join(self.path, fn)).read())["data"]["state"])
            except Exception:
                return "b"
            ok = isinstance(st, dict) and isinstance(st.get("settings_log"), dict) and isinstance(st.get("results_log"), dict) \
                and "scenario_managers" in st
            return "r" if ok else "j"
        return names, "".join(kind(fn) for fn in names)

    def damage(self, mid, cls):
        """disk fault: the state file of the instance is cut to a prefix (class `cls`)"""
        fn = os.path.join(self.path, self.ids[mid] + ".json")
        if not os.path.exists(fn):
            return
        names, _ = self.listing()
        pos = names.index(self.ids[mid] + ".json")
        where = "first" if pos == 0 else "last" if pos == len(names) - 1 else "middle"
        DAMAGE_STATS["listing_positions"][where] = DAMAGE_STATS["listing_positions"].get(where, 0) + 1
        self.damaged_positions = getattr(self, "damaged_positions", []) + [pos]
        content = open(fn).read()
        if cls in SEMANTIC_DAMAGE:
            # the file still parses, but what it holds is not a session state (a disk fault does not have to be a truncation)
            env = json.loads(content)
            inner = json.loads(env["data"]["state"])
            if cls == "state-null":
                env["data"]["state"] = "null"
            elif cls == "state-empty":
                env["data"]["state"] = "{}"
            elif cls == "state-list":
                env["data"]["state"] = "[1, 2]"
            elif cls == "missing-logs":
                inner.pop("settings_log", None); env["data"]["state"] = json.dumps(inner)
            elif cls == "logs-wrong-type":
                inner["settings_log"] = 5; inner["results_log"] = "x"; env["data"]["state"] = json.dumps(inner)
            new = "{}" if cls == "empty-object" else "\x00\x01 not json" if cls == "garbage" else json.dumps(env)
            row("damage: " + cls)
            with open(fn, "w") as f:
                f.write(new)
            return
        row("damage: truncated (" + cls + ")")
        with open(fn, "w") as f:
            f.write(content[:cut_length(content, cls)])

    def crash(self):
        if self.srv is not None:
            self.dead.append(self.srv)
        self.srv = None
        pattern = self.listing()[1] if getattr(self, "damaged_positions", None) else None
        self.boot()
        if pattern is not None:
            ps = sorted(self.damaged_positions)
            DAMAGE_STATS["adjacent_pairs"] += int(any(b - a == 1 for a, b in zip(ps, ps[1:])))
            STARTUPS.append((self.compress, pattern, "raises" if self.srv is None else
                             "ok:" + ",".join(str(i) for i, ch in enumerate(pattern) if ch == "r")))
            self.damaged_positions = []

    def close(self):
        for s in self.dead + ([self.srv] if self.srv else []):
            s.close()
        shutil.rmtree(self.path, ignore_errors=True)

    def start(self, mid, inst):
        iid = json.loads(c19.post(self.srv.client, "/start-instance").data)["instance_uuid"]
        self.ids[mid] = iid
        self.srv.bptk(iid).begin_session(scenarios=inst["scs"], scenario_managers=inst["sms"], settings=copy.deepcopy(inst.get("settings", {})), agents=[], agent_states=[],
                                         agent_properties=[], agent_property_types=[], individual_agent_properties=[],
                                         equations=inst["eqs"], starttime=self.spec["start"], dt=self.spec["dt"])

    def step(self, mid, st):
        """-> (kind, body)"""
        iid = self.ids.get(mid, "no-such-instance")
        if st["k"] == "stream":
            return self.stream(iid, st)
        if st["k"] == "multi":                            # run-steps: several steps, ONE write at the end
            r = c19.post(self.srv.client, f"/{iid}/run-steps", {"settings": st.get("settings", {}), "numberSteps": st["n"]})
        else:
            body = None if st["k"] == "nobody" else {"settings": st.get("settings", {})}
            r = c19.post(self.srv.client, f"/{iid}/run-step", body)
        if r.status_code == 200:
            data = json.loads(r.data)
            if st["k"] == "multi":
                return ("ok", data)
            return ("stopped", data) if "msg" in data else ("ok", data)
        txt = r.data.decode(errors="replace")
        if "expecting a valid instance id" in txt:
            return ("invalid", None)
        return (f"http-{r.status_code}", txt[:200])

    def rebegin(self, mid, sess):
        """a further session on the SAME instance (other scenarios / equations / settings), with or without end-session before;
        neither request writes the state file"""
        iid = self.ids[mid]
        if sess.get("end"):
            c19.post(self.srv.client, f"/{iid}/end-session")
        c19.post(self.srv.client, f"/{iid}/begin-session", {"scenario_managers": sess["sms"], "scenarios": sess["scs"], "equations": sess["eqs"],
                                                           "settings": copy.deepcopy(sess.get("settings", {}))})

    def file_vs_live(self, mid):
        """after a stepping request: the logs in the state FILE (read by the harness, not through the adapter's loader) against the
        logs of the live session, entry by entry -> text of the first difference or None"""
        iid = self.ids.get(mid)
        b = self.srv.bptk(iid) if self.srv is not None and hasattr(self.srv, "bptk") else None
        if b is None or b.session_state is None:
            return None
        try:
            import jsonpickle
            from BPTK_Py.util import statecompression as sc
            env = jsonpickle.loads(open(os.path.join(self.path, iid + ".json")).read())
            state = jsonpickle.loads(env["data"]["state"])
            if self.compress:
                state["settings_log"] = sc.decompress_settings(state["settings_log"])
                state["results_log"] = sc.decompress_results(state["results_log"])
        except Exception as e:
            return f"state file unreadable: {e!r}"
        live = b.session_state
        for fld in ("scenario_managers", "scenarios", "equations", "settings", "step"):
            if state.get(fld) != live.get(fld):
                return f"{fld}: file {state.get(fld)!r}, live {live.get(fld)!r}"
        canon = lambda v: json.loads(json.dumps(v))
        order = None
        for fld in ("settings_log", "results_log"):
            f_ = {c19.tkey(k): canon(v) for k, v in state[fld].items()}
            l_ = {c19.tkey(k): canon(v) for k, v in live[fld].items()}
            if sorted(f_) != sorted(l_):
                return f"{fld}: steps in the file {list(f_)}, live {list(l_)}"
            if list(f_) != list(l_):                      # same entries, other dictionary order: not a failing input by itself
                order = f"ORDER-ONLY {fld}: steps in the file {list(f_)}, live {list(l_)} (same entries)"
            for k in l_:
                if c19.canon_settings(f_[k]) != c19.canon_settings(l_[k]):
                    return f"{fld}[{k}]: file {f_[k]}, live {l_[k]}"
        return order

    def stream(self, iid, st):
        """stream-steps: runs to the stop time (`close` None), or the client reads `close` results and hangs up (the response is
        closed: GeneratorExit in the server's generator), or a step fails (settings the runner cannot apply).  The instance is
        written when the stream ends -- however it ends.  -> ("ok", [results received])"""
        r = self.srv.client.post(f"/{iid}/stream-steps", data=json.dumps({"settings": st.get("settings", {})}), content_type="application/json",
                                 buffered=False)
        if r.status_code != 200:
            txt = r.get_data(as_text=True)
            r.close()
            return ("invalid", None) if "expecting a valid instance id" in txt else (f"http-{r.status_code}", txt[:200])
        got = []
        try:
            if st.get("close") is None:
                text = b"".join(r.response).decode()
                got = [x for x in json.loads(text)] if text.strip().endswith("]") else [json.loads(x) for x in text.lstrip("[").split("\n") if x.strip().startswith("{")]
            else:
                for chunk in r.response:
                    chunk = chunk.decode() if isinstance(chunk, bytes) else chunk
                    if chunk.startswith("{"):
                        got.append(json.loads(chunk))
                    if len(got) >= st["close"]:
                        break
        finally:
            r.close()                                     # the client is gone
        return ("ok", got)

    def torn_step(self, mid, st, cls):
        """run-step during which the process dies inside the state write (after a prefix of class `cls`)"""
        with WriteCrash(cls) as hook:
            try:
                self.step(mid, st)
            except ProcessDied:
                pass
        # (an `afteropK` point that falls after the rename onto the state file is after the COMPLETED write -- e.g. the first write of
        # an instance has fewer operations than the later ones: not a crash inside the write, the variant does not apply)
        self.commit_done = cls.startswith("afterop") and bool(hook.ops) and hook.ops[-1] == ("rename", "committed")
        return hook.fired

    def file_state(self, mid):
        iid = self.ids.get(mid)
        if iid is None or not os.path.exists(os.path.join(self.path, iid + ".json")):
            return "none"
        try:                                              # the committed state FILE (not what a loader makes of the directory)
            import jsonpickle
            env = jsonpickle.loads(open(os.path.join(self.path, iid + ".json")).read())
            state = jsonpickle.loads(env["data"]["state"])
            sl = state["settings_log"]
            n = len(sl["steps"]) if self.compress and isinstance(sl, dict) and "steps" in sl else len(sl)
            return f"ok:step={c19.T(state['step'])};n={n}"
        except Exception:
            return "torn"

    def tmp_state(self, mid):
        iid = self.ids.get(mid)
        others = [fn for fn in os.listdir(self.path) if fn.startswith(iid or "?") and not fn.endswith(".json")]   # whatever the temporary file is called
        return "none" if not others else "empty" if all(os.path.getsize(os.path.join(self.path, fn)) == 0 for fn in others) else "nonempty"

    def evict(self):
        """every instance leaves the memory of the running server (as a timeout does): the next request loads it lazily"""
        if self.srv is not None and hasattr(self.srv, "app"):
            for iid in list(self.srv.app._instance_manager._instances):
                self.srv.app._instance_manager._delete_instance(iid)


SERVER_SCRIPT = r'''
import sys, os, json, time, builtins
sys.path.insert(0, "/verif/harness")
from common import *
quiet_bptk_logging()
import logging
logging.getLogger("werkzeug").setLevel(logging.ERROR)
from props import c19
spec, compress, path, port, arm, marker = json.loads(sys.argv[1]), sys.argv[2] == "1", sys.argv[3], int(sys.argv[4]), sys.argv[5], sys.argv[6]
import BPTK_Py.externalstateadapter.externalStateAdapter as esa
def cut_length(content, cls):
    inner = content.find('"state": "')
    return {"zero": 0, "envelope": max(1, min(inner, 5)), "inner": (inner + len(content)) // 2 if inner >= 0 else len(content) // 2,
            "one": 1, "third": len(content) // 3, "half": len(content) // 2, "last": len(content) - 1, "complete": len(content)}[cls]
def slow_open(file, mode="r", *a, **k):            # harness-side hook: a write that is caught half way by kill -9
    f = builtins.open(file, mode, *a, **k)
    if "w" not in mode or not os.path.exists(arm):
        return f
    cls = builtins.open(arm).read().strip()
    class W:
        def write(self, text):
            f.write(text[:cut_length(text, cls)]); f.flush(); os.fsync(f.fileno())
            builtins.open(marker, "w").close()
            time.sleep(300)
        def close(self): f.close()
        def flush(self): pass
        def fileno(self): return f.fileno()
        def __enter__(self): return self
        def __exit__(self, *a): f.close(); return False
    return W()
class OsProxy:                                      # same for a writer that goes through tempfile / os.fdopen and renames
    def __getattr__(self, name):
        return getattr(os, name)
    def _die(self, src, dst):
        if str(dst).endswith(".json") and os.path.exists(arm):
            cls = builtins.open(arm).read().strip()
            content = builtins.open(src).read()
            with builtins.open(src, "w") as g:
                g.write(content[:cut_length(content, cls)]); g.flush(); os.fsync(g.fileno())
            builtins.open(marker, "w").close()
            time.sleep(300)
    def replace(self, src, dst, *a, **k):
        self._die(src, dst); return os.replace(src, dst, *a, **k)
    def rename(self, src, dst, *a, **k):
        self._die(src, dst); return os.rename(src, dst, *a, **k)
esa.open = slow_open
esa.os = OsProxy()
from BPTK_Py import FileAdapter
from BPTK_Py.server import BptkServer
import contextlib, io
app = BptkServer("c20p", c19.make_factory(spec["start"], spec["stop"], spec["dt"]), external_state_adapter=FileAdapter(compress, path))
app.logger.disabled = True
from werkzeug.serving import make_server
srv = make_server("127.0.0.1", port, app, threaded=False)
print("READY", flush=True)
srv.serve_forever()
'''


PROC_STATS = {"sigkill": 0, "killed_in_write": 0, "write_not_reached": 0, "variants": 0, "histories": 0}


class ProcRun(Run):
    """The same interface as `Run`, but the server is a real process (werkzeug on a local port) that is killed with
    SIGKILL -- between two requests, or while it is inside the write of a state file (the slow-write hook of the
    server script signals through a marker file that a prefix of the content is on disk)."""
    def __init__(self, spec, compress, path):
        self.proc = None
        self.script = path + "-server.py"
        os.makedirs(os.path.dirname(path), exist_ok=True)
        with open(self.script, "w") as f:
            f.write(SERVER_SCRIPT)
        self.arm, self.marker = path + "-arm", path + "-marker"
        Run.__init__(self, spec, compress, path)

    def boot(self):
        import socket, subprocess, select
        s = socket.socket(); s.bind(("127.0.0.1", 0)); self.port = s.getsockname()[1]; s.close()
        for fn in (self.arm, self.marker):
            if os.path.exists(fn):
                os.remove(fn)
        self.proc = subprocess.Popen(["/venv/bin/python", self.script, json.dumps(self.spec), "1" if self.compress else "0", self.path,
                                      str(self.port), self.arm, self.marker], stdout=subprocess.PIPE, stderr=subprocess.PIPE, text=True,
                                     cwd=os.path.dirname(self.path), env=dict(os.environ))
        t0 = time.time()
        line = ""
        while time.time() - t0 < 120:
            r, _, _ = select.select([self.proc.stdout], [], [], 1.0)
            if r:
                line = self.proc.stdout.readline()
                if "READY" in line or line == "":
                    break
            if self.proc.poll() is not None:
                break
        if "READY" in line:
            self.srv = self                       # "there is a server"
        else:
            self.kill()
            err = self.proc.stderr.read()[-600:] if self.proc.stderr else ""
            self.ctor_error = "server process did not come up: " + err
            self.srv = None

    def kill(self):
        import signal
        if self.proc is not None and self.proc.poll() is None:
            os.kill(self.proc.pid, signal.SIGKILL)
            self.proc.wait()

    def crash(self):
        PROC_STATS["sigkill"] += 1
        self.kill()
        self.boot()

    def close(self):
        self.kill()
        for fn in (self.script, self.arm, self.marker):
            if os.path.exists(fn):
                os.remove(fn)
        shutil.rmtree(self.path, ignore_errors=True)

    def http(self, url, body="nobody", timeout=60):
        import urllib.request, urllib.error
        data = b"" if body == "nobody" else json.dumps(body).encode()
        rq = urllib.request.Request(f"http://127.0.0.1:{self.port}{url}", data=data, method="POST")
        if body != "nobody":
            rq.add_header("Content-Type", "application/json")
        try:
            with urllib.request.urlopen(rq, timeout=timeout) as r:
                return r.status, r.read().decode()
        except urllib.error.HTTPError as e:
            return e.code, e.read().decode(errors="replace")

    def start(self, mid, inst):
        _, txt = self.http("/start-instance")
        iid = json.loads(txt)["instance_uuid"]
        self.ids[mid] = iid
        self.http(f"/{iid}/begin-session", {"scenario_managers": inst["sms"], "scenarios": inst["scs"], "equations": inst["eqs"],
                                            "settings": inst.get("settings", {})})

    def step(self, mid, st):
        iid = self.ids.get(mid, "no-such-instance")
        if st["k"] == "multi":
            code, txt = self.http(f"/{iid}/run-steps", {"settings": st.get("settings", {}), "numberSteps": st["n"]})
        else:
            code, txt = self.http(f"/{iid}/run-step", "nobody" if st["k"] == "nobody" else {"settings": st.get("settings", {})})
        if code == 200:
            data = json.loads(txt)
            if st["k"] == "multi":
                return ("ok", data)
            return ("stopped", data) if "msg" in data else ("ok", data)
        if "expecting a valid instance id" in txt:
            return ("invalid", None)
        return (f"http-{code}", txt[:200])

    def torn_step(self, mid, st, cls):
        import threading
        with open(self.arm, "w") as f:
            f.write(cls)
        res = {}
        def go():
            try:
                res["r"] = self.step(mid, st)
            except Exception as e:                 # the connection dies with the process
                res["e"] = repr(e)
        th = threading.Thread(target=go, daemon=True); th.start()
        t0 = time.time()
        while time.time() - t0 < 60 and not os.path.exists(self.marker) and th.is_alive():
            time.sleep(0.02)
        fired = os.path.exists(self.marker)
        PROC_STATS["killed_in_write" if fired else "write_not_reached"] += 1
        self.kill()                                # SIGKILL while the process sleeps inside write()
        th.join(10)
        return fired


def run_ops(hist, ops, base, tag, runner=None):
    """ops: list of ('start', mid) ('step', mid, st) ('crash',) ('torn', mid, st, cls).
    Returns per op (kind, body), per op file states of all instances, constructor error."""
    import contextlib, io
    run = None
    out, files = [], []
    with contextlib.redirect_stdout(io.StringIO()):
        try:
            run = (runner or Run)(hist["spec"], hist["compress"], os.path.join(base, "state-" + tag))
            for op in ops:
                if run.srv is None:
                    out.append(("ctor-failed", run.ctor_error)); files.append(None)
                    continue
                if op[0] == "start":
                    run.start(op[1], hist["instances"][op[1]]); out.append(("none", None))
                elif op[0] == "step":
                    out.append(run.step(op[1], op[2]))
                    if out[-1][0] in ("ok", "stopped") and runner is None:
                        d_ = run.file_vs_live(op[1])
                        if d_ is not None:
                            FL_MISMATCH.append((tag, len(out) - 1, d_))
                elif op[0] == "rebegin":
                    run.rebegin(op[1], hist["instances"][op[1]]["sessions"][op[2] - 1]); out.append(("none", None))
                elif op[0] == "crash":
                    run.crash(); out.append(("none", None))
                elif op[0] == "torn":
                    fired = run.torn_step(op[1], op[2], op[3])
                    if getattr(run, "commit_done", False):
                        SKIPPED.append(tag)
                    if not fired and run.srv is not None and run.ids.get(op[1]) in getattr(getattr(run.srv, "app", None), "_instance_manager", type("x", (), {"_instances": {}}))._instances:
                        NOT_INTERCEPTED.append((tag, len(out)))          # the request ran to its end: the write was not where the hooks are
                    if fired:
                        TMP_STATS[op[3] + ":tmp=" + run.tmp_state(op[1])] = TMP_STATS.get(op[3] + ":tmp=" + run.tmp_state(op[1]), 0) + 1
                    run.crash(); out.append(("none", None))
                elif op[0] == "damage":
                    run.damage(op[1], op[2]); out.append(("none", None))
                elif op[0] == "evict":
                    run.evict(); out.append(("none", None))
                files.append({mid: run.file_state(mid) for mid in run.ids} if run.srv is not None else None)
        finally:
            if run is not None:
                run.close()
    return out, files, (run.ctor_error if run else "harness")


def nsteps(op, counters, un_by_step):
    """number of single steps a stepping request takes (stream-steps: as many as the uninterrupted run's answer has results)"""
    st = op[2]
    if st["k"] == "multi":
        return st["n"]
    if st["k"] == "stream":
        body = (un_by_step or {}).get((op[1], counters.get(op[1], 0)), ("ok", []))[1]
        return len(body) if isinstance(body, list) else 0
    return 1


def model_lines(hist, ops, un_by_step=None):
    spec = hist["spec"]
    req = ["new", f"cfg {int(CFG['replayIsComplete'])} 1"]
    counters = {}
    cur = {m: m for m in range(len(hist["instances"]))}    # model instance of each real instance: a further session is a new one
    shown = dict(cur)                                     # whose file the state file of the real instance is: the new session's from its first step on
    def files():
        for mid in range(len(hist["instances"])):
            req.append(f"file {shown[mid]}")
    for op in ops:
        if op[0] == "step":
            shown[op[1]] = cur[op[1]]
        if op[0] == "rebegin":
            cur[op[1]] = op[1] + 100 * op[2]
            req.append(f"start {cur[op[1]]} {c19.T(spec['start'])} {c19.T(spec['dt'])} {c19.T(spec['stop'])} {cur[op[1]]}")
        elif op[0] == "start":
            req.append(f"start {op[1]} {c19.T(spec['start'])} {c19.T(spec['dt'])} {c19.T(spec['stop'])} {op[1]}")
        elif op[0] == "step":
            n = nsteps(op, counters, un_by_step)
            counters[op[1]] = counters.get(op[1], 0) + 1
            for j in range(n):                            # n steps of the model; the files are compared after the last one
                req.append(f"step {cur[op[1]]} {settings_token(op[2])}")
                if j + 1 < n:
                    files()
            if n == 0:
                req.append(f"file {cur[op[1]]}")           # (a request that took no step: placeholder for its reply)
        elif op[0] == "crash":
            req.append("crash")
        elif op[0] == "damage":
            req.append(f"damage {cur[op[1]]}")
        elif op[0] == "evict":
            req.append("crash")                           # for the model: every instance comes from its file again
        else:
            req.append(f"torn {cur[op[1]]} {settings_token(op[2])}")
        files()
    return req


def base_ops(hist):
    """the requests of all instances in one sequence: `order` (a list of instance numbers, one per step, any
    interleaving) when given, else round-robin; an instance is started right before its first step or, with
    `late_start` false, all instances first"""
    if any(i.get("sessions") for i in hist["instances"]):
        # several sessions one after the other on an instance: its requests in sequence (start, steps, begin again, steps, ...)
        ops = [("start", m) for m in range(len(hist["instances"]))]
        for m, i in enumerate(hist["instances"]):
            ops += [("step", m, st) for st in i["steps"]]
            for sidx, sess in enumerate(i.get("sessions", []), 1):
                ops.append(("rebegin", m, sidx))
                ops += [("step", m, st) for st in sess["steps"]]
        return ops
    pending = [list(i["steps"]) for i in hist["instances"]]
    order = hist.get("order")
    if order is None:
        order = []
        rest = [len(p) for p in pending]
        while any(rest):
            for m in range(len(rest)):
                if rest[m]:
                    order.append(m); rest[m] -= 1
    ops, started = [], set()
    if not hist.get("late_start"):
        ops = [("start", m) for m in range(len(hist["instances"]))]
        started = set(range(len(hist["instances"])))
    for m in order:
        if m not in started:
            ops.append(("start", m)); started.add(m)
        if pending[m]:
            ops.append(("step", m, pending[m].pop(0)))
    return ops


def unstepped_session(ops, k):
    """True if at position k some instance has begun a further session and not stepped it yet: the new session is not
    externalised before its first step (begin-session writes nothing) -- a crash there brings the OLD session back, by design"""
    last = {}
    for op in ops[:k]:
        if op[0] in ("rebegin", "step"):
            last[op[1]] = op[0]
    # (also: an instance that is lost by the crash because it was never stepped cannot begin a further session afterwards)
    later = {op[1] for op in ops[k:] if op[0] == "rebegin"}
    return any(v == "rebegin" for v in last.values()) or any(m not in last for m in later)


def variants(hist):
    """crash between any two requests (every position k), crash inside the state write of every stepping request (every
    truncation class), and -- `multi` -- crashes at several positions of one run.  With an atomic state write the
    request that died is retried by the client after the restart (it was never answered)."""
    ops = base_ops(hist)
    out = []
    if hist.get("crash", True):
        for k in hist.get("crash_points", range(len(ops) + 1)):
            if k <= len(ops) and not unstepped_session(ops, k):
                out.append((f"crash@{k}", ops[:k] + [("crash",)] + ops[k:]))
    if hist.get("damage"):
        # disk faults: once every instance is externalised, the state file of EACH instance alone and of EVERY pair of
        # instances (hence first / middle / last and every adjacent pair of the directory listing, whatever its order)
        # is cut, then the server restarts and the session goes on
        import itertools
        n = len(hist["instances"])
        seen, k0 = set(), None
        for k, op in enumerate(ops):
            if op[0] == "step":
                seen.add(op[1])
            if len(seen) == n:
                k0 = k + 1
                break
        if k0 is not None:
            sets = [(m,) for m in range(n)] + list(itertools.combinations(range(n), 2))
            for j, ms in enumerate(sets):
                pool = ["inner", "zero", "last"] + (SEMANTIC_DAMAGE if UNUSABLE_OK[0] else [])
                for k in sorted({k0, len(ops)}):
                    cls = pool[(2 * j + k + (3 if hist["compress"] else 0)) % len(pool)]
                    out.append((f"damage@{k}:{'+'.join(map(str, ms))}:{cls}",
                                ops[:k] + [("damage", m, cls) for m in ms] + [("crash",)] + ops[k:]))
    if hist.get("torn", True):
        # the write of every stepping request dies at every cut of the temporary file; the server restarts (start-up load, or
        # `lazy`: the instances are loaded by the next request that names them); the client retries the request that was never
        # answered: everything continues from the last COMPLETED write
        for k, op in enumerate(ops):
            if op[0] == "step" and not unstepped_session(ops, k):
                allc = TORN_CLASSES + EXTRA_CLASSES
                classes = allc if hist.get("torn") == "all" else sorted({allc[(k + j) % len(allc)] for j in (0, 2, 5)} | set(EXTRA_CLASSES[1:]))
                for cls in classes:
                    for lazy in ((False, True) if hist.get("torn") == "all" else (False,)):
                        out.append((f"torn@{k}:{cls}" + (":lazy" if lazy else ""),
                                    ops[:k] + [("torn", op[1], op[2], cls)] + ([("evict",)] if lazy else []) + [op] + ops[k + 1:]))
    for ks in hist.get("multi", []):
        vops = list(ops)
        for k in sorted(set(ks), reverse=True):
            vops = vops[:k] + [("crash",)] + vops[k:]
        out.append(("crash@" + "+".join(map(str, sorted(set(ks)))), vops))
    return ops, out


def requested(hist, mid, sidx=0):
    inst = hist["instances"][mid] if sidx == 0 else hist["instances"][mid]["sessions"][sidx - 1]
    return {(sm, sc, eq) for sm in inst["sms"] for sc in c19.MANAGERS[sm] if sc in inst["scs"] for eq in inst["eqs"]}


def present(body):
    return {(sm, sc, eq) for sm, a in body.items() for sc, b in a.items() for eq in b}


def check_variant(hist, name, ops, un_by_step, base, model_out, runner=None):
    """-> list of (key, text).  un_by_step: answers of the uninterrupted run per (mid, n-th step of mid)."""
    del NOT_INTERCEPTED[:]
    del SKIPPED[:]
    got, files, ctor = run_ops(hist, ops, base, "c", runner)
    if SKIPPED:
        del SKIPPED[:]
        return []
    if NOT_INTERCEPTED:
        # not a statement about the code: this variant could not be run (reported without an input, key `correspondence…`)
        del NOT_INTERCEPTED[:]
        return [("correspondence-write-not-intercepted", f"{name}: the state write of the stepping request was not reached by the harness hooks "
                 "(module-level open / os.replace / os.rename of the adapter): crash-in-write variants cannot be run on this tree")]
    viol = []
    counters, lost, externalised = {}, set(), set()
    exp_lines, real_lines = [], []
    mi = 2                                            # index into model_out (after "new", "cfg")
    torn_mids = set()
    corr = []
    sess_of = {}
    tag_fl = [x for x in FL_MISMATCH if x[0] == "c"]
    del FL_MISMATCH[:]
    tag_fl.sort(key=lambda x: x[2].startswith("ORDER-ONLY"))
    fl_v = [("correspondence-log-order" if tag_fl[0][2].startswith("ORDER-ONLY") else "saved-differs-from-live",
             f"{name}: after op {tag_fl[0][1]} {ops[tag_fl[0][1]][:2]} the state file does not hold the live session: {tag_fl[0][2]}")] if tag_fl else []
    for oi, op in enumerate(ops):
        if op[0] == "rebegin":
            sess_of[op[1]] = op[2]
        kind, body = got[oi]
        ngroups = max(1, nsteps(op, counters, un_by_step)) if op[0] == "step" and op[2]["k"] in ("multi", "stream") else 1
        nexec = nsteps(op, counters, un_by_step) if op[0] == "step" else 1
        m_replies = []
        for _ in range(ngroups):
            m_replies.append(model_out[mi]); mi += 1
            m_files = model_out[mi:mi + len(hist["instances"])]; mi += len(hist["instances"])
        m_reply = m_replies[0]
        if kind == "ctor-failed":
            viol.append(("constructor-fails-on-damaged-file", f"{name}: BptkServer.__init__ raised {body}"))
            break
        if op[0] == "step":
            mid = op[1]
            n = counters.get(mid, 0); counters[mid] = n + 1
            u_kind, u_body = un_by_step[(mid, n)]
            same = (kind == u_kind and body == u_body)
            real_lines.append((kind, u_kind, same))
            if nexec > 0:
                c_tok, u_tok = m_reply.split(";")
                c_tok, u_tok = c_tok[2:], u_tok[2:]
            if nexec == 0:                                # a stream whose first step failed: no step in the model, answered 200 with []
                exp_lines.append((kind if kind == "invalid" else "ok", "ok", kind != "invalid"))
                if kind == "invalid":                     # (the model has no request to refuse here: the reference check below decides)
                    exp_lines[-1] = real_lines[-1]
            elif op[2]["k"] in ("multi", "stream"):       # answered 200 with a list: kinds ok/stopped of the single steps do not show
                alleq = all(r_.split(";")[0][2:] == r_.split(";")[1][2:] for r_ in m_replies)
                mk = lambda t: "ok" if t.split(":")[0] in ("ok", "stopped") else t.split(":")[0]
                exp_lines.append((mk(c_tok), mk(u_tok), alleq))
            else:
                exp_lines.append((c_tok.split(":")[0], u_tok.split(":")[0], c_tok == u_tok))
            if kind.startswith("http-"):
                viol.append((f"run-step-{kind}-after-restart", f"{name}: op {oi} {body}"))
            elif kind == "invalid" and mid not in lost:
                viol.append(("externalised-instance-lost", f"{name}: op {oi}: instance {mid} had been externalised and its file was not damaged, "
                                                          f"but the request is refused" +
                                                          (" (a write of this instance died earlier: the committed state file of the last completed "
                                                           "write is intact, a temporary file may lie next to it)" if mid in torn_mids else "")))
            elif kind in ("ok", "stopped") and not same:
                viol.append(("continuation-differs", f"{name}: op {oi}: instance {mid} step {n} answers {body}, uninterrupted run answers {u_body}"))
            for one in (body if isinstance(body, list) else [body]) if kind == "ok" else []:
                if "msg" not in one and present(one) != requested(hist, mid, sess_of.get(mid, 0)):
                    viol.append(("equation-missing", f"{name}: op {oi}: result lacks {sorted(requested(hist, mid, sess_of.get(mid, 0)) - present(one))}"))
            if kind in ("ok", "stopped"):
                externalised.add(mid)
        elif op[0] == "evict":
            pass
        elif op[0] == "torn":                             # (the atomic write is the behaviour of the tree; `atomicWrite` is still probed)
            torn_mids.add(op[1])
            # the previous state file is intact: the request is lost as a whole (and retried), no instance is
            lost |= {m for m in range(len(hist["instances"])) if m not in externalised and any(o[0] == "start" and o[1] == m for o in ops[:oi])}
        elif op[0] == "damage":
            if op[1] in externalised:
                lost.add(op[1]); externalised.discard(op[1])
        elif op[0] == "crash":
            lost |= {m for m in range(len(hist["instances"])) if m not in externalised and any(o[0] == "start" and o[1] == m for o in ops[:oi])}
        # files: model vs real
        if files[oi] is not None:
            real_f = [files[oi].get(m, "none") for m in range(len(hist["instances"]))]
            if real_f != m_files and not viol and not corr:
                # (kept aside: the run goes on, a reference violation further on is the finding with the failing input)
                corr.append(("correspondence-files", f"{name}: after op {oi} {op[:2]} files are {real_f}, model says {m_files}"))
        if viol:
            break
    if not viol and fl_v:
        viol = fl_v
    if not viol and corr:
        viol = corr
    if not viol and exp_lines != real_lines and CFG["replayIsComplete"] and CFG["replayOrderPreserved"]:
        i = next(i for i, (a, b) in enumerate(zip(exp_lines, real_lines)) if a != b)
        viol.append(("correspondence-answers", f"{name}: step request #{i}: (crashed kind, uninterrupted kind, equal) real {real_lines[i]} model {exp_lines[i]}"))
    return viol


def run_history(hist, base, only=None, runner=None, pick=None):
    """-> (number of variants run, violations [(key, text, variant name)]).  `runner=ProcRun`: the crashed runs are real
    processes killed with SIGKILL (the uninterrupted run stays in process); `pick`: a filter on variant names."""
    ops, vs = variants(hist)
    if pick is not None:
        vs = [v for v in vs if pick(v[0])]
    del FL_MISMATCH[:]
    un, _, _ = run_ops(hist, ops, base, "u")
    un_by_step, counters = {}, {}
    viol = [("correspondence-log-order" if t.startswith("ORDER-ONLY") else "saved-differs-from-live",
             f"uninterrupted run: after op {oi} {ops[oi][:2]} the state file does not hold the live session: {t}", "uninterrupted")
            for tg, oi, t in sorted(FL_MISMATCH, key=lambda x: x[2].startswith("ORDER-ONLY")) if tg == "u"][:1]
    del FL_MISMATCH[:]
    for op, (kind, body) in zip(ops, un):
        if op[0] == "step":
            n = counters.get(op[1], 0); counters[op[1]] = n + 1
            un_by_step[(op[1], n)] = (kind, body)
            if kind.startswith("http-"):
                viol.append((f"run-step-{kind}", f"uninterrupted run: {body}", "uninterrupted"))
    if any(k not in ("saved-differs-from-live", "correspondence-log-order") for k, _, _ in viol):
        return 0, viol
    if only is not None:
        vs = [v for v in vs if v[0] == only]
    if not vs:
        return 0, viol
    req, spans = [], []
    for name, vops in vs:
        q = model_lines(hist, vops, un_by_step)
        spans.append((len(req), len(req) + len(q)))
        req += q
    model = drive("C20", req)
    for (name, vops), (a, b) in zip(vs, spans):
        v = check_variant(hist, name, vops, un_by_step, base, model[a:b], runner)
        viol += [(k, t, name + ("/process" if runner is not None else "")) for k, t in v]
    return len(vs), viol


# ------------------------------------------------------------------ generation
def gen_history(rng, nmax):
    if rng.chance(1, 4):
        start, dt = rng.choice(c19.STARTS10), rng.choice(c19.DTS10)
    else:
        start, dt = rng.choice(c19.STARTS), rng.choice(c19.DTS)
    ninst = rng.choice([1, 1, 2, 3])
    horizon = rng.choice([3, 12, 12, 12])
    spec = {"start": start, "dt": dt, "stop": round(start + dt * horizon, 6)}
    insts, budget = [], nmax
    for m in range(ninst):
        sms = rng.choice([["smA"], ["smA", "smB"]])
        scs = rng.choice([["a"], ["a", "b"]])
        eqs = rng.choice([["s"], ["s", "c"], ["s", "f", "c", "g"]])
        n = rng.range(1, max(1, budget - (ninst - m - 1)))
        budget -= n
        steps = []
        for _ in range(n):
            r = rng.below(12)
            if r < 5:
                steps.append({"k": "set", "settings": c19.settings_for(rng, sms, scs, rng.chance(1, 3))})
            elif r < 8:
                steps.append({"k": "empty"})
            elif r < 10:
                steps.append({"k": "nobody"})
            else:                                          # run-steps: several steps, one write
                steps.append({"k": "multi", "n": rng.range(2, 3), "settings": c19.settings_for(rng, sms, scs, False) if rng.chance(1, 2) else {}})
        insts.append({"sms": sms, "scs": scs, "eqs": eqs, "steps": steps})
        if rng.chance(1, 3):                               # settings given with begin-session: in force from the first step on, also after a restart
            insts[-1]["settings"] = {sms[0]: {([x for x in c19.MANAGERS[sms[0]] if x in scs] or c19.MANAGERS[sms[0]][:1])[0]: {"constants": {"c": rng.choice([3.0, 0.0, -2.5])}}}}
    hist = {"spec": spec, "compress": rng.chance(1, 2), "instances": insts}
    if ninst > 1 and rng.chance(2, 3):                   # any interleaving of the instances' requests, late starts
        hist["order"] = gen_order(rng, hist)
        hist["late_start"] = rng.chance(1, 2)
    nops = len(base_ops(hist))
    hist["multi"] = [[rng.below(nops + 1) for _ in range(rng.range(2, 3))] for _ in range(2)]   # several crashes in one run
    return hist


def gen_order(rng, hist):
    """a random interleaving of the instances' steps"""
    bag = [m for m, i in enumerate(hist["instances"]) for _ in i["steps"]]
    out = []
    while bag:
        out.append(bag.pop(rng.below(len(bag))))
    return out


C5 = {"k": "set", "settings": {"smA": {"a": {"constants": {"c": 5.0}}}}}
K3 = {"k": "set", "settings": {"smA": {"a": {"constants": {"k": 3.0}}}}}


def late_settings_histories(quick):
    """Steps WITHOUT settings first, settings later: with the crash points exhaustive, every history has the crash
    points "after un-logged-settings steps, before the first settings" (the incomplete-replay defect shows only there).
    All sequences over {settings, {}} up to length L for one instance (crash points only), and two-instance versions."""
    import itertools
    L = 3 if quick else 5
    out = []
    for n in range(2, L + 1):
        for seq in itertools.product((0, 1), repeat=n):
            if 1 not in seq or seq[0] == 1 and n > 2:
                continue                                   # at least one settings step; leading quiet step (or the 2-step ones)
            steps = [copy.deepcopy(C5 if x else {"k": "empty"}) for x in seq]
            out.append({"spec": {"start": 1.0, "dt": 0.5, "stop": 10.0}, "compress": n % 2 == 0, "torn": False,
                        "instances": [{"sms": ["smA"], "scs": ["a"], "eqs": ["s", "c", "g"], "steps": steps}]})
    out.append({"spec": {"start": 0.0, "dt": 0.25, "stop": 10.0}, "compress": False, "torn": False, "late_start": True,
                "order": [0, 0, 1, 0, 1, 1, 0],
                "instances": [{"sms": ["smA"], "scs": ["a"], "eqs": ["s", "g"], "steps": [{"k": "nobody"}, {"k": "empty"}, copy.deepcopy(K3), copy.deepcopy(C5)]},
                              {"sms": ["smA"], "scs": ["a", "b"], "eqs": ["s"], "steps": [{"k": "empty"}, {"k": "empty"}, copy.deepcopy(C5)]}]})
    return out


def damage_histories(quick):
    """3 (and 4) externalised instances, both adapter modes; see `variants` for the damage sets"""
    out = []
    for n in ([3] if quick else [3, 4]):
        for compress in (True, False):
            insts = []
            for m in range(n):
                insts.append({"sms": ["smA"], "scs": [["a"], ["a", "b"], ["b"], ["a"]][m], "eqs": [["s", "c"], ["s"], ["g", "s"], ["c"]][m],
                              "steps": [copy.deepcopy([C5, {"k": "empty"}, K3, {"k": "nobody"}][m]), {"k": "empty"}, copy.deepcopy(C5)][:2 + (m % 2)]})
            out.append({"spec": {"start": 1.0, "dt": 0.5, "stop": 10.0}, "compress": compress, "torn": False, "crash": False, "damage": True,
                        "instances": insts})
    return out


def boundary_histories(quick):
    """Sessions whose step labels cross a boundary where the order of the labels as TEXT differs from their order as numbers
    (9.0 -> 10.0, 9.5 -> 10.0, -2.0 -> -1.0, 99.0 -> 100.0, 0.0 .. 11.0), settings at several early steps, crash points
    exhaustive (hence also after the boundary), both adapter modes."""
    out = []
    shapes = [(9.0, 1.0, [C5, {"k": "empty"}, K3, {"k": "empty"}]),
              (9.0, 0.5, [C5, K3, {"k": "empty"}, {"k": "nobody"}]),
              (-2.0, 1.0, [C5, {"k": "empty"}, K3, {"k": "empty"}]),
              (5.0, 1.0, [C5, {"k": "empty"}, K3, {"k": "empty"}, {"k": "empty"}, {"k": "empty"}, {"k": "empty"}]),
              (0.0, 1.0, [{"k": "empty"}, C5, K3, {"k": "set", "settings": {"smA": {"a": {"constants": {"c": 7.0}}}}}] + [{"k": "empty"}] * 9)]
    if not quick:
        shapes += [(99.0, 1.0, [C5, K3, {"k": "empty"}]), (8.0, 0.5, [C5, {"k": "empty"}, K3, {"k": "empty"}, {"k": "empty"}, {"k": "empty"}]),
                   (-10.5, 0.5, [C5, K3, {"k": "empty"}, {"k": "empty"}])]
    for n, (start, dt, steps) in enumerate(shapes):
        for compress in ((False, True) if not quick or len(steps) < 7 else (False,)):
            h = {"spec": {"start": start, "dt": dt, "stop": start + 20 * dt}, "compress": compress, "torn": False,
                 "instances": [{"sms": ["smA"], "scs": ["a"], "eqs": ["s", "c", "g"], "steps": copy.deepcopy(steps)}]}
            if len(steps) >= 7 and quick:
                n_ops = len(steps) + 1                      # start + steps; the interesting crash points are after label 10.0
                h["crash_points"] = [3] + list(range(n_ops - 3, n_ops + 1))
            out.append(h)
    return out


def request_kind_histories(quick):
    """run-steps as the stepping request (several steps, one write; a crash inside that write loses the whole request) and session
    settings given at begin-session, crash points and write cuts as for every history"""
    out = []
    for compress in ((False, True) if not quick else (True,)):
        out.append({"spec": {"start": 1.0, "dt": 0.5, "stop": 10.0}, "compress": compress,
                    "instances": [{"sms": ["smA"], "scs": ["a"], "eqs": ["s", "c", "g"], "settings": {"smA": {"a": {"constants": {"c": 3.0}}}},
                                   "steps": [{"k": "multi", "n": 2, "settings": {}}, copy.deepcopy(K3), {"k": "multi", "n": 3, "settings": copy.deepcopy(C5["settings"])},
                                             {"k": "empty"}]}]})
    return out


def sess(sms, scs, eqs, steps, settings=None, end=False):
    return {"sms": sms, "scs": scs, "eqs": eqs, "steps": steps, "settings": settings or {}, "end": end}


SESSIONS_WITNESS = {"spec": {"start": 1.0, "dt": 0.5, "stop": 10.0}, "compress": False, "torn": False,
                    "instances": [{"sms": ["smA"], "scs": ["a"], "eqs": ["s", "c"], "steps": [copy.deepcopy(C5), {"k": "empty"}],
                                   "sessions": [sess(["smA"], ["a"], ["s", "c"], [{"k": "set", "settings": {"smA": {"a": {"constants": {"c": 9.0}}}}}, {"k": "empty"}])]}]}


def session_histories(quick):
    """two and three consecutive sessions on ONE instance (begin-session again, with and without end-session), different
    settings, equations and lengths; a crash after EVERY step of the later sessions (not between a begin-session and its first step:
    begin-session writes nothing, the new session is not externalised yet); both modes; a second instance beside"""
    c9 = {"k": "set", "settings": {"smA": {"a": {"constants": {"c": 9.0}}}}}
    out = [copy.deepcopy(SESSIONS_WITNESS), dict(copy.deepcopy(SESSIONS_WITNESS), compress=True)]
    out[1]["instances"][0]["sessions"][0]["end"] = True
    for compress in ((True, False) if not quick else (True,)):
        out.append({"spec": {"start": 0.0, "dt": 0.25, "stop": 10.0}, "compress": compress, "torn": not quick,
                    "instances": [{"sms": ["smA"], "scs": ["a"], "eqs": ["s"], "steps": [copy.deepcopy(C5), {"k": "multi", "n": 2, "settings": {}}],
                                   "sessions": [sess(["smA", "smB"], ["a", "b"], ["s", "g"], [copy.deepcopy(K3)], {"smA": {"a": {"constants": {"c": 3.0}}}}, end=True),
                                                sess(["smA"], ["a"], ["c", "s"], [copy.deepcopy(c9), {"k": "nobody"}, {"k": "empty"}, copy.deepcopy(C5)])]},
                                  {"sms": ["smA"], "scs": ["b"], "eqs": ["s"], "steps": [{"k": "empty"}, copy.deepcopy(K3)]}]})
    return out


BAD_SETTINGS = {"smA": {"a": {"constants": 5}}}          # the runner cannot apply them: the first step of the stream raises


def stream_histories(quick):
    """stream-steps as the stepping request: complete (to the stop time), closed by the client after k results, failing at its
    first step; other stepping requests before and after; crash points exhaustive (in particular: right after the stream, before
    any other saving request), write cuts as for every history; both modes"""
    out = []
    shapes = [[copy.deepcopy(C5), {"k": "stream", "settings": {}, "close": 2}, {"k": "empty"}, {"k": "stream", "settings": copy.deepcopy(K3["settings"]), "close": None}],
              [{"k": "stream", "settings": copy.deepcopy(C5["settings"]), "close": 1}, {"k": "stream", "settings": copy.deepcopy(BAD_SETTINGS), "close": None}, {"k": "empty"}]]
    for j, steps in enumerate(shapes):
        for compress in ((False, True) if not quick else (j % 2 == 0,)):
            out.append({"spec": {"start": 1.0, "dt": 0.5, "stop": 4.0}, "compress": compress,
                        "instances": [{"sms": ["smA"], "scs": ["a"], "eqs": ["s", "c"], "steps": copy.deepcopy(steps)}]})
    return out


def tmp_histories(quick):
    """the write of EVERY step dies at EVERY cut of the temporary file, start-up load and lazy load, both adapter modes"""
    out = []
    for compress in (False, True):
        out.append({"spec": {"start": 1.0, "dt": 0.5, "stop": 10.0}, "compress": compress, "torn": "all", "crash": False,
                    "instances": [{"sms": ["smA"], "scs": ["a"], "eqs": ["s", "c"], "steps": [copy.deepcopy(C5), {"k": "empty"}, copy.deepcopy(K3)]}]})
    if not quick:
        for compress in (False, True):
            out.append({"spec": {"start": 0.0, "dt": 0.125, "stop": 10.0}, "compress": compress, "torn": "all", "crash": False, "order": [0, 1, 0, 1, 1, 0],
                        "instances": [{"sms": ["smA"], "scs": ["a"], "eqs": ["s"], "steps": [copy.deepcopy(C5), {"k": "nobody"}, {"k": "empty"}]},
                                      {"sms": ["smA", "smB"], "scs": ["a", "b"], "eqs": ["g", "s"], "steps": [{"k": "empty"}, copy.deepcopy(K3), {"k": "empty"}]}]})
    return out


WITNESS_LATE = {"spec": {"start": 1.0, "dt": 1.0, "stop": 10.0}, "compress": False, "torn": False,
                "instances": [{"sms": ["smA"], "scs": ["a"], "eqs": ["s", "c"],
                               "steps": [{"k": "empty"}, {"k": "empty"}, copy.deepcopy(C5)]}]}


WITNESS = {"spec": {"start": 1.0, "dt": 1.0, "stop": 10.0}, "compress": False,
           "instances": [{"sms": ["smA"], "scs": ["a"], "eqs": ["s", "c"],
                          "steps": [{"k": "set", "settings": {"smA": {"a": {"constants": {"c": 5.0}}}}}, {"k": "empty"}, {"k": "empty"}]},
                         {"sms": ["smA"], "scs": ["a"], "eqs": ["s"], "steps": [{"k": "empty"}, {"k": "empty"}]}]}


def shrink(hist, key, base):
    def fails(h):
        try:
            return any(k == key for k, _, _ in run_history(h, base)[1])
        except Exception:
            return False
    cur = copy.deepcopy(hist)
    changed = True
    while changed:
        changed = False
        cands = []
        for i in range(len(cur["instances"])):
            if len(cur["instances"]) > 1:
                c = copy.deepcopy(cur); del c["instances"][i]; cands.append(c)
            for j in range(len(cur["instances"][i]["steps"])):
                if len(cur["instances"][i]["steps"]) > 1:
                    c = copy.deepcopy(cur); del c["instances"][i]["steps"][j]; cands.append(c)
        for c in cands:
            if fails(c):
                cur, changed = c, True
                break
    return cur


# ------------------------------------------------------------------ probes and Gen
def probe(base):
    facts = {}
    _, v = run_history(WITNESS, base, only="crash@5")
    facts["restoreReplaysSettings"] = not any(k == "continuation-differs" for k, _, _ in v)
    CFG["atomicWrite"] = False
    CFG["replayIsComplete"] = True
    _, v = run_history(WITNESS, base, only="torn@4:inner")
    facts["loadSkipsBadFiles"] = not any(k == "constructor-fails-on-damaged-file" for k, _, _ in v)
    # wave 2: steps without settings before the crash, settings after the restart (start, step {}, step {}, CRASH, step c=5)
    _, v = run_history(WITNESS_LATE, base, only="crash@3")
    facts["replayIsComplete"] = facts["restoreReplaysSettings"] and not any(k == "continuation-differs" for k, _, _ in v)
    facts["atomicWrite"] = probe_atomic(base)
    facts["loadIsPerEntry"] = probe_load(base)
    facts["replayOrderPreserved"] = probe_order(base)
    facts["loadReadsCommitted"] = probe_tmp(base)
    facts["writeOps"], facts["commitIsAtomic"] = probe_write_ops(base)
    facts["saveOnEveryEnding"] = probe_endings(base)
    _, v = run_history(SESSIONS_WITNESS, base, only="none")
    facts["savedEqualsLive"] = not any(k == "saved-differs-from-live" for k, _, _ in v)          # (an order-only difference is not one)
    facts["loadSkipsUnusableStates"] = probe_unusable(base)
    UNUSABLE_OK[0] = facts["loadSkipsUnusableStates"]
    for k in CFG:
        CFG[k] = facts[k]
    return facts


def probe_write_ops(base):
    """the os-level operations of the SECOND state write of an instance (fsync / remove / rename, on the temporary or the committed
    file), recorded through the proxy of the adapter module's `os`; atomic commit = the committed path is never removed and is the
    target of exactly one rename / replace"""
    import contextlib, io
    ops = []
    with contextlib.redirect_stdout(io.StringIO()):
        run = Run(WITNESS["spec"], False, os.path.join(base, "state-ops"))
        try:
            run.start(0, WITNESS["instances"][0])
            run.step(0, {"k": "empty"})
            with WriteCrash("record") as hook:
                run.step(0, {"k": "empty"})
            ops = list(hook.ops)
        except Exception:
            pass
        finally:
            run.close()
    del WRITE_OPS[:]; WRITE_OPS.extend(ops)
    del EXTRA_CLASSES[:]; EXTRA_CLASSES.extend(f"afterop{k}" for k in range(1, len(ops)))      # (after the last one the write is complete)
    atomic = ("remove", "committed") not in ops and sum(1 for o in ops if o == ("rename", "committed")) == 1
    return [f"{a}:{b}" for a, b in ops], atomic


def probe_endings(base):
    """after a stream-steps request the state file holds what the live session holds -- when the stream ran to the end, when the client
    hung up after one result, when its first step failed"""
    import contextlib, io
    ok = True
    with contextlib.redirect_stdout(io.StringIO()):
        run = Run({"start": 1.0, "dt": 0.5, "stop": 4.0}, False, os.path.join(base, "state-endings"))
        try:
            run.start(0, WITNESS["instances"][0])
            run.step(0, {"k": "empty"})
            for st in ({"k": "stream", "settings": {}, "close": 1}, {"k": "stream", "settings": copy.deepcopy(BAD_SETTINGS), "close": None},
                       {"k": "stream", "settings": {}, "close": None}):
                run.step(0, st)
                live = run.srv.bptk(run.ids[0]).session_state
                ok = ok and run.file_state(0) == f"ok:step={c19.T(live['step'])};n={len(live['settings_log'])}"
        except Exception:
            ok = False
        finally:
            run.close()
    return ok


def probe_unusable(base):
    """a state file that still parses but does not hold a session state (inner state null / without its logs): the server starts,
    the other instance continues, both modes"""
    import contextlib, io
    ok = True
    for compress, cls in ((False, "state-null"), (True, "missing-logs"), (False, "logs-wrong-type")):
        with contextlib.redirect_stdout(io.StringIO()):
            run = Run(WITNESS["spec"], compress, os.path.join(base, "state-unusable"))
            try:
                run.start(0, WITNESS["instances"][0]); run.start(1, WITNESS["instances"][1])
                run.step(0, {"k": "empty"}); run.step(1, {"k": "empty"})
                n0 = dict(ROWS)
                run.damage(0, cls)
                ROWS.clear(); ROWS.update(n0)
                run.damaged_positions = []
                run.crash()
                ok = ok and run.srv is not None and run.step(1, {"k": "empty"})[0] == "ok" and run.step(0, {"k": "empty"})[0] == "invalid"
            except Exception:
                ok = False
            finally:
                run.close()
    return ok


def probe_tmp(base):
    """next to an intact state file lies a temporary file -- a torn prefix, or a complete newer state that was not renamed:
    load_instance and load_state return the COMMITTED state (the temporary file is never read), both modes"""
    import contextlib, io
    try:
        from BPTK_Py import FileAdapter
        from BPTK_Py.externalstateadapter import InstanceState
        ok = True
        for compress in (False, True):
            path = os.path.join(base, "state-tmp")
            shutil.rmtree(path, ignore_errors=True); os.makedirs(path)
            mk = lambda n: {"settings_log": {float(k): {} for k in range(n)}, "results_log": {float(k): {"smA": {"a": {"s": {float(k): 1.0}}}} for k in range(n)},
                            "step": float(n)}
            with contextlib.redirect_stdout(io.StringIO()):
                ad = FileAdapter(compress, path)
                ad.save_instance(InstanceState(mk(3), "t0", "t", {}, 3.0))       # a newer state ...
                newer = open(os.path.join(path, "t0.json")).read()
                ad.save_instance(InstanceState(mk(2), "t0", "t", {}, 2.0))       # ... and the committed one
                for content in (newer[:len(newer) // 2], newer[:1], newer):
                    with open(os.path.join(path, "t0.json.tmp"), "w") as f:
                        f.write(content)
                    one = FileAdapter(compress, path).load_instance("t0")
                    every = FileAdapter(compress, path).load_state()
                    ok = ok and one is not None and float(one.state["step"]) == 2.0 and len(one.state["settings_log"]) == 2 \
                        and [float(e.state["step"]) for e in every if e is not None] == [2.0]
            shutil.rmtree(path, ignore_errors=True)
        return ok
    except Exception:
        return False


def probe_order(base):
    """the adapter round trip (save_instance + load_instance, both modes) returns the logs with their steps in the order
    they were logged, also when the labels sort differently as text (9.0, 10.0 / -2.0, -1.0 / 99.5, 100.0)"""
    import contextlib, io
    try:
        from BPTK_Py import FileAdapter
        from BPTK_Py.externalstateadapter import InstanceState
        ok = True
        for compress in (False, True):
            path = os.path.join(base, "state-order")
            shutil.rmtree(path, ignore_errors=True); os.makedirs(path)
            for n, keys in enumerate(([9.0, 10.0, 11.0], [-2.0, -1.0, 0.0], [99.5, 100.0], [0.0, 1.0, 2.0, 3.0, 4.0, 5.0, 6.0, 7.0, 8.0, 9.0, 10.0, 11.0])):
                state = {"settings_log": {k: {} for k in keys}, "results_log": {k: {"smA": {"a": {"s": {k: 1.0}}}} for k in keys}, "step": keys[-1] + 1.0}
                with contextlib.redirect_stdout(io.StringIO()):
                    ad = FileAdapter(compress, path)
                    ad.save_instance(InstanceState(copy.deepcopy(state), f"o{n}", "t", {}, state["step"]))
                    back = FileAdapter(compress, path).load_instance(f"o{n}")
                ok = ok and back is not None and [float(k) for k in back.state["settings_log"]] == keys \
                    and [float(k) for k in back.state["results_log"]] == keys
            shutil.rmtree(path, ignore_errors=True)
        return ok
    except Exception:
        return False


def probe_load(base):
    """ExternalStateAdapter.load_state over a listing [damaged, readable, readable] and [damaged, damaged, readable], compressed:
    exactly the readable entries come back, each with decompressed logs (probed with a stub adapter: the loop of the base class)."""
    import contextlib, io
    try:
        from BPTK_Py.externalstateadapter.externalStateAdapter import ExternalStateAdapter, InstanceState
        from BPTK_Py.util import statecompression as sc
        def entry(i):
            log = {1.0: {}, 2.0: {}}
            return InstanceState({"settings_log": sc.compress_settings(log), "results_log": sc.compress_results({}), "step": 3.0}, f"i{i}", "t", {}, 3.0)
        class Stub(ExternalStateAdapter):
            def __init__(self, items): super().__init__(True); self.items = items
            def _save_state(self, state): pass
            def _save_instance(self, state): pass
            def _load_state(self): return list(self.items)
            def _load_instance(self, instance_uuid): return None
            def delete_instance(self, instance_uuid): pass
        ok = True
        for pattern in ("brr", "bbr", "rbr", "rrb", "rbbr"):
            with contextlib.redirect_stdout(io.StringIO()):
                got = Stub([None if ch == "b" else entry(i) for i, ch in enumerate(pattern)]).load_state()
            want = [f"i{i}" for i, ch in enumerate(pattern) if ch == "r"]
            ok = ok and [g.instance_id if g is not None else None for g in got] == want and \
                all(isinstance(g.state["settings_log"], dict) and "steps" not in g.state["settings_log"] for g in got)
        return ok
    except Exception:
        return False


def probe_atomic(base):
    """a state write that dies half way: is the previous state file still readable?"""
    import contextlib, io
    with contextlib.redirect_stdout(io.StringIO()):
        run = Run(WITNESS["spec"], False, os.path.join(base, "state-atomic"))
        try:
            run.start(0, WITNESS["instances"][0])
            run.step(0, {"k": "empty"})
            before = run.file_state(0)
            run.torn_step(0, {"k": "empty"}, "inner")
            return before.startswith("ok") and run.file_state(0) == before
        except Exception:
            return False
        finally:
            run.close()


def gen_lean(facts):
    b = lambda x: "true" if x else "false"
    out = ("import Bptk.Props.C20\n/-! GENERATED by harness/props/c20.py from /repo on every run — do not edit. -/\n"
           "namespace Bptk.C20.Gen\n"
           f"/-- probed on this tree: a restored session replays its logged settings: {facts['restoreReplaysSettings']}; "
           f"load_state skips unreadable files: {facts['loadSkipsBadFiles']}; the replay covers every logged step (steps without "
           f"settings before the crash, settings after the restart): {facts['replayIsComplete']}; a state write that dies half way "
           f"leaves the previous state file readable: {facts['atomicWrite']}; load_state treats every listed file on its own (damaged entries "
           f"dropped, every other one decompressed): {facts['loadIsPerEntry']} -/\n"
           f"def cfg : Cfg := {{ replayIsComplete := {b(facts['replayIsComplete'])}, atomicWrite := {b(facts['atomicWrite'])}, "
           f"loadIsPerEntry := {b(facts['loadIsPerEntry'])}, replayOrderPreserved := {b(facts['replayOrderPreserved'])}, "
           f"loadReadsCommitted := {b(facts['loadReadsCommitted'])}, saveOnEveryEnding := {b(facts['saveOnEveryEnding'])}, "
           f"savedEqualsLive := {b(facts['savedEqualsLive'])}, loadSkipsUnusable := {b(facts.get('loadSkipsUnusableStates'))} }}\n"
           f"-- a load reads the committed state file, never a temporary file lying next to it (torn or complete): {facts['loadReadsCommitted']}\n"
           f"-- a state file that parses but does not hold a session state is skipped like an unreadable one (File.torn of the model covers both): "
           f"{facts.get('loadSkipsUnusableStates')}\n"
           f"-- the adapter round trip keeps the order of the logged steps (labels 9.0,10.0 / -2.0,-1.0 / 99.5,100.0 / 0.0..11.0): {facts['replayOrderPreserved']}\n"
           "theorem holds_wave1 {σ ρ : Type} (d : Dyn σ ρ) : C20_full d := C20_full_holds d\n#print axioms holds_wave1\n")
    rest_good = facts["replayIsComplete"] and facts["loadIsPerEntry"] and facts["replayOrderPreserved"]
    out += (f"-- the instance is written after a stream-steps request however it ends (complete / client gone / failing step): "
            f"{facts['saveOnEveryEnding']}\n")
    out += (f"-- after every stepping request the state file holds the logs of the live session entry by entry, also for a further session on the "
            f"instance: {facts['savedEqualsLive']}\n")
    if rest_good and facts["loadReadsCommitted"] and facts["saveOnEveryEnding"] and not facts["savedEqualsLive"]:
        out += ("theorem violated {σ ρ : Type} (d : Dyn σ ρ) : ¬ C20_full_cfg cfg d := C20_witness_stale_snapshot cfg (by decide)\n"
                "#print axioms violated\n")
    elif rest_good and facts["loadReadsCommitted"] and not facts["saveOnEveryEnding"]:
        out += "theorem violated : ¬ C20_full_cfg cfg histDyn := C20_witness_client_gone cfg (by decide)\n#print axioms violated\n"
    elif rest_good and not facts["loadReadsCommitted"] and facts["atomicWrite"]:
        out += ("theorem violated : ¬ C20_full_cfg cfg histDyn := C20_witness_temp_first cfg (by decide) (by decide)\n#print axioms violated\n")
    elif rest_good and not facts["loadReadsCommitted"]:
        out += "-- the temporary file is read first, but the write is not atomic on this tree: no temporary file is ever left\n"
    elif facts["replayIsComplete"] and facts["loadIsPerEntry"] and not facts["replayOrderPreserved"]:
        out += "theorem violated : ¬ C20_full_cfg cfg lazyDyn := C20_witness_sorted_keys cfg (by decide)\n#print axioms violated\n"
    elif facts["replayIsComplete"] and not facts["loadIsPerEntry"]:
        out += ("theorem violated {σ ρ : Type} (d : Dyn σ ρ) : ¬ C20_full_cfg cfg d := C20_witness_skipping_load cfg (by decide) d\n"
                "#print axioms violated\n")
    elif facts["replayIsComplete"]:
        out += "theorem holds {σ ρ : Type} (d : Dyn σ ρ) : C20_full_cfg cfg d := C20_full_of_good cfg (by decide) d\n#print axioms holds\n"
        if facts["atomicWrite"] and facts["loadIsPerEntry"] and facts["replayOrderPreserved"] and facts["loadReadsCommitted"] and facts["saveOnEveryEnding"] and facts["savedEqualsLive"]:
            out += ("theorem no_instance_lost_in_write {σ ρ : Type} (d : Dyn σ ρ) : NoLossInWrite cfg d := "
                    "noLoss_of_atomic cfg (by decide) (by decide) d\n#print axioms no_instance_lost_in_write\n")
    else:
        out += "theorem violated : ¬ C20_full_cfg cfg lazyDyn := C20_witness_partial_replay cfg (by decide)\n#print axioms violated\n"
    if facts["loadIsPerEntry"]:
        if facts.get("loadSkipsUnusableStates"):
            out += ("theorem no_startup_failure_on_junk : NoStartupFailureOnJunk cfg := noStartupFailure_of_skip cfg (by decide) (by decide)\n"
                    "#print axioms no_startup_failure_on_junk\n")
        else:
            out += ("/-- a state file that parses but holds no session state keeps the server from starting on this tree (repair proposed) -/\n"
                    "theorem junk_state_file_stops_startup : ¬ NoStartupFailureOnJunk cfg := noStartupFailure_witness cfg (by decide) (by decide)\n"
                    "#print axioms junk_state_file_stops_startup\n")
    fsops = ["writeTmp"] + [{"fsync:tmp": "fsyncTmp", "remove:committed": "removeCommitted", "rename:committed": "renameOnto"}.get(o) for o in facts.get("writeOps", [])]
    if facts.get("writeOps") and None not in fsops:
        out += (f"/-- the os-level operations of one real state write, as recorded by the probe -/\ndef writeOps : List FsOp := [{', '.join('.' + o for o in fsops)}]\n")
        if facts["commitIsAtomic"]:
            out += ("theorem commit_never_loses (old new : Persist) (tmp : Option Tmp) (k : Nat) : (fsRun new (some old, tmp) (writeOps.take k)).1.isSome = true :=\n"
                    "  commit_atomic_never_loses writeOps (by decide) old new tmp k\n#print axioms commit_never_loses\n")
        else:
            out += ("/-- the commit is not atomic on this tree: there is a crash point of the write at which the committed file is gone -/\n"
                    "theorem commit_can_lose (old new : Persist) : ∃ k, (fsRun new (some old, none) (writeOps.take k)).1 = none :=\n"
                    f"  ⟨{fsops.index('removeCommitted') + 1}, rfl⟩\n#print axioms commit_can_lose\n")
    else:
        out += f"-- the write's os-level operations could not be recorded / are outside the modelled alphabet: {facts.get('writeOps')}\n"
    if not facts["atomicWrite"]:
        out += ("/-- the write is in place: a crash inside it costs the instance being written (allowed by the statement) -/\n"
                "theorem write_can_lose_the_instance : ¬ NoLossInWrite cfg histDyn := noLoss_witness cfg (by decide)\n"
                "#print axioms write_can_lose_the_instance\n")
    return out + "end Bptk.C20.Gen\n"


# ------------------------------------------------------------------ the check
def run(chk):
    quiet_bptk_logging()
    base = scratch_dir("bptkverif-c20-")
    try:
        _run(chk, base)
    finally:
        shutil.rmtree(base, ignore_errors=True)


def _run(chk, base):
    facts = probe(base)
    chk.notes["cfg"] = facts
    ok, why = chk.prove(gen_lean(facts))
    chk.cov["trusted_base"] = [
        "Lean 4.33 kernel; axioms propext, Quot.sound (audited per run via #print axioms)",
        "hand-written model lean/Bptk/Core/C20.lean of InstanceManager / BptkServer.__init__ / _ensure_instance_exists / run-step + save_instance / "
        "_set_state replay; the simulation is an arbitrary deterministic step function (theorems hold for every `Dyn`); tied to the source by the "
        "correspondence run of this check (answers' kinds, equality with the uninterrupted run, file states after every request)",
        "OS file semantics: a crash during a write leaves a strict prefix of the new content (never a complete JSON document, hence unreadable)",
        "C19 round trip (a readable file restores the session that was saved) — proved and checked in C19",
    ]
    chk.assumptions = ["models are deterministic and total (no random(), no failing equation); a model's factory builds a fresh model per instance",
                       "instance ids are never reused (uuid1)", "crash = process state discarded between two requests or inside FileAdapter._save_instance (the write is "
                       "cut by a harness-side hook after a prefix of the content); thorough tier: real server processes killed with SIGKILL at the same "
                       "points; fsync/rename ordering of the file system is trusted", "SD sessions; start/dt on the dyadic or the decimal lattice (see C19)"]
    nmax = 6 if chk.quick else 12
    rng = chk.rng.fork("c20-hist")
    hists = ([WITNESS, WITNESS_LATE] + session_histories(chk.quick) + damage_histories(chk.quick) + stream_histories(chk.quick) + request_kind_histories(chk.quick) +
             tmp_histories(chk.quick) + boundary_histories(chk.quick) + late_settings_histories(chk.quick) +
             [gen_history(rng, nmax) for _ in range(5 if chk.quick else 40)])   # (the dedicated families first: the time cap may cut the tail)
    chk.cov["rule"] = (f"per generated history (1-3 instances, <= {nmax} steps, settings / {{}} / no body, both adapter modes): one uninterrupted run, then one "
                       "run per crash point k in 0..N (exhaustive) and one per stepping request x torn-write class {0, inside envelope, inside inner state "
                       "string, length-1} (with an atomic state write the request that died is retried), two runs with crashes at several positions; "
                       "histories: all sequences over {settings, {}} (quiet steps first, settings later) for one instance, random 1-3 instances with any "
                       "interleaving of their requests and late starts; thorough: three histories again with real server processes and SIGKILL; "
                       "a case = (history, variant); non-trivial = the history changes a constant")
    viol_by_key = {}
    total = 0
    del STARTUPS[:]
    TMP_STATS.clear()
    ROWS.clear()
    DAMAGE_STATS.update({"variants": 0, "listing_positions": {}, "adjacent_pairs": 0, "compressed": 0, "plain": 0})
    dist = {"histories": 0, "crash_variants": 0, "torn_variants": 0, "multi_crash_variants": 0, "instances": {1: 0, 2: 0, 3: 0, 4: 0}, "compressed": 0,
            "random_interleavings": 0, "quiet_steps_then_settings": 0, "non_dyadic": 0, "label_text_order_differs": 0}
    for h in hists:
        n, viol = run_history(h, base)
        total += n
        ops, vs = variants(h)
        dist["histories"] += 1
        for i_ in h["instances"]:
            for s_ in i_["steps"]:
                row("stepping request: " + {"set": "run-step with settings", "empty": "run-step with {}", "nobody": "run-step without body",
                                            "multi": "run-steps (several steps, one write)",
                                            "stream": "stream-steps " + ("failing at its first step" if s_.get("settings") == BAD_SETTINGS else
                                                                         "complete" if s_.get("close") is None else "closed by the client")}[s_["k"]], 1)
            row("session settings given at begin-session" if i_.get("settings") else "session without session settings")
            for ss_ in i_.get("sessions", []):
                row("further session on the instance " + ("(after end-session)" if ss_.get("end") else "(begin-session again)"))
        for nm, _ in vs:
            kind = nm.split("@")[0] + (":lazy load" if nm.endswith(":lazy") else "") + (" (several)" if "+" in nm and nm.startswith("crash") else "")
            row("variant: " + kind)
        dist["crash_variants"] += sum(1 for v in vs if v[0].startswith("crash") and "+" not in v[0])
        dist["multi_crash_variants"] += sum(1 for v in vs if "+" in v[0] and v[0].startswith("crash"))
        nd = sum(1 for v in vs if v[0].startswith("damage"))
        DAMAGE_STATS["variants"] += nd
        DAMAGE_STATS["compressed" if h["compress"] else "plain"] += nd
        dist["random_interleavings"] += int("order" in h)
        labels = [h["spec"]["start"] + i * h["spec"]["dt"] for i in range(max(len(i_["steps"]) for i_ in h["instances"]))]
        dist["label_text_order_differs"] += int(sorted(labels, key=lambda x: repr(float(x))) != labels)
        dist["non_dyadic"] += int(h["spec"]["dt"] in c19.DTS10)
        dist["quiet_steps_then_settings"] += int(any(i["steps"] and i["steps"][0]["k"] != "set" and any(s_["k"] == "set" for s_ in i["steps"][1:])
                                                     for i in h["instances"]))
        dist["torn_variants"] += sum(1 for v in vs if v[0].startswith("torn"))
        dist["instances"][len(h["instances"])] += 1
        dist["compressed"] += int(h["compress"])
        nontriv = any(s["k"] == "set" for i in h["instances"] for s in i["steps"])
        for name, _ in vs:
            chk.case((json.dumps(h, sort_keys=True), name), nontrivial=nontriv, sample=None)
        if len(chk.cov["samples"]) < 4:
            chk.cov["samples"].append({"history": h, "variants": [v[0] for v in vs][:12]})
        for k, t, name in viol:
            viol_by_key.setdefault(k, (h, t, name))
        if time.time() - chk.t0 > (75 if chk.quick else 560):
            chk.notes["stopped_early_after_histories"] = dist["histories"]
            break
    if not chk.quick:
        # real process death: the crashed runs are server processes killed with SIGKILL between two requests and inside a
        # state write (slow-write hook on the harness side); restart = a new process on the same directory
        for k in PROC_STATS:
            PROC_STATS[k] = 0
        t_proc = time.time()
        two = next((h for h in hists if len(h["instances"]) >= 2 and "order" in h), hists[-1])
        for h in [WITNESS, WITNESS_LATE, two]:
            if time.time() - t_proc > 240:
                break
            nops = len(base_ops(h))
            pick = lambda nm: "+" not in nm and (nm.startswith("crash@") or nm.endswith(":half") or nm.endswith(":zero") or nm.endswith(":complete"))
            h2 = dict(h, torn="all", multi=[])
            n, viol = run_history(h2, base, runner=ProcRun, pick=pick)
            PROC_STATS["variants"] += n; PROC_STATS["histories"] += 1
            total += n
            for k, t, name in viol:
                viol_by_key.setdefault(k, (h2, t, name))
        chk.cov["process_death"] = dict(PROC_STATS, wall_s=round(time.time() - t_proc, 1))
    # start-up over the directory listings met after damage: model (`startup`, `loadEntries`) vs constructor outcome
    if STARTUPS:
        lines = [f"startup {int(c)} {int(CFG['loadIsPerEntry'])} " + " ".join(p) for c, p, _ in STARTUPS]
        got = drive("C20", [f"cfgj {int(UNUSABLE_OK[0])}"] + lines)[1:]
        bad = [(l, g, e[2]) for l, g, e in zip(lines, got, STARTUPS) if g != e[2]]
        chk.cov["startup_listings"] = {"compared": len(lines), "distinct": len(set(lines)), "damage": dict(DAMAGE_STATS)}
        if bad and not viol_by_key:
            chk.add_finding("correspondence", f"start-up over listing {bad[0][0]!r}: model {bad[0][1]!r}, constructor {bad[0][2]!r}",
                            {"correspondence": "Drive/C20 startup vs BptkServer.__init__", "first": list(bad[0])}, found_input=False)
    chk.cov["temporary_file_at_restart"] = dict(sorted(TMP_STATS.items()))
    chk.cov["coverage_rows"] = dict(sorted(ROWS.items()))
    chk.cov["input_distribution"] = dist
    chk.cov["traces_validated_against_impl"] = total
    chk.cov["exhaustive"] = "crash point and torn-write class exhaustive per history"
    for key, (h, text, name) in list(viol_by_key.items())[:5]:
        found = not key.startswith("correspondence")
        proc = name.endswith("/process")
        small = shrink(h, key, base) if found and not proc and time.time() - chk.t0 < (85 if chk.quick else 880) else h
        v2 = [v for v in run_history(small, base)[1] if v[0] == key] if not proc else []
        t2, n2 = (v2[0][1], v2[0][2]) if v2 else (text, name)
        chk.add_finding(key if found else "correspondence", t2, {"history": small, "variant": n2, "key": key}, found_input=found)
    if not ok:
        chk.add_finding("obligation", f"proof obligations of C20 no longer check: {why}",
                        {"theorem": "Bptk.C20.Gen.holds / Bptk.Props.C20", "detail": why}, found_input=False)


def replay(path):
    quiet_bptk_logging()
    r = json.load(open(path))["replay"]
    if "history" not in r:
        print("no concrete input stored:", r)
        return 1
    base = scratch_dir("bptkverif-c20-")
    try:
        var = r.get("variant")
        proc = bool(var) and var.endswith("/process")
        probe(base)                                       # sets the mechanism facts the variants depend on
        n, viol = run_history(r["history"], base, only=var[:-len("/process")] if proc else var, runner=ProcRun if proc else None)
    finally:
        shutil.rmtree(base, ignore_errors=True)
    print("history:", json.dumps(r["history"]))
    print("variant:", r.get("variant"))
    print("violations on the current tree:", viol[:5])
    return 1 if viol else 0
