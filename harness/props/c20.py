"""C20 — after a server crash, externalised sessions continue as if nothing happened.

Every generated history is run once uninterrupted and then once per crash point (crash between two
requests at EVERY position; torn state write at every stepping request x every truncation-length class).
"Crash" = the BptkServer object is discarded and a new one is built on the same scratch state directory.
Reference check (independent of the Lean model): every answer of the crashed run equals the answer of the
uninterrupted run unless the instance was never externalised / its file was torn; the constructor never
fails; every answer carries every requested equation.  Correspondence: the Lean model (Drive/C20) predicts
for every request of both runs the kind of answer, whether the two runs agree, and the state of the files."""
import copy, json, os, shutil
from common import *
from props import c19

TORN_CLASSES = ["zero", "envelope", "inner", "last"]


# ------------------------------------------------------------------ running a history on the real server
def settings_of(st):
    return None if st["k"] == "nobody" else st.get("settings", {})


def settings_token(st):
    s = settings_of(st)
    return "-" if not s else c19.hexs(s)


class Run:
    """One server process after the other on one state directory."""
    def __init__(self, spec, compress, path):
        self.spec, self.compress, self.path = spec, compress, path
        shutil.rmtree(path, ignore_errors=True)
        os.makedirs(path)
        self.srv = None
        self.dead = []
        self.ids = {}            # model id -> uuid
        self.ctor_error = None
        self.boot()

    def boot(self):
        try:
            self.srv = c19.Server(self.spec, self.compress, self.path)
        except Exception as e:           # the constructor must never fail (damage containment)
            self.ctor_error = repr(e)
            self.srv = None

    def crash(self):
        if self.srv is not None:
            self.dead.append(self.srv)
        self.srv = None
        self.boot()

    def close(self):
        for s in self.dead + ([self.srv] if self.srv else []):
            s.close()
        shutil.rmtree(self.path, ignore_errors=True)

    def start(self, mid, inst):
        iid = json.loads(c19.post(self.srv.client, "/start-instance").data)["instance_uuid"]
        self.ids[mid] = iid
        self.srv.bptk(iid).begin_session(scenarios=inst["scs"], scenario_managers=inst["sms"], settings={}, agents=[], agent_states=[],
                                         agent_properties=[], agent_property_types=[], individual_agent_properties=[],
                                         equations=inst["eqs"], starttime=self.spec["start"], dt=self.spec["dt"])

    def step(self, mid, st):
        """-> (kind, body)"""
        iid = self.ids.get(mid, "no-such-instance")
        body = None if st["k"] == "nobody" else {"settings": st.get("settings", {})}
        r = c19.post(self.srv.client, f"/{iid}/run-step", body)
        if r.status_code == 200:
            data = json.loads(r.data)
            return ("stopped", data) if "msg" in data else ("ok", data)
        txt = r.data.decode(errors="replace")
        if "expecting a valid instance id" in txt:
            return ("invalid", None)
        return (f"http-{r.status_code}", txt[:200])

    def tear(self, mid, cls):
        fn = os.path.join(self.path, self.ids[mid] + ".json")
        if not os.path.exists(fn):
            return
        content = open(fn).read()
        inner = content.find('"state": "')
        n = {"zero": 0, "envelope": max(1, min(inner, 5)), "inner": (inner + len(content)) // 2 if inner >= 0 else len(content) // 2,
             "last": len(content) - 1}[cls]
        with open(fn, "w") as f:
            f.write(content[:n])

    def file_state(self, mid):
        iid = self.ids.get(mid)
        if iid is None or not os.path.exists(os.path.join(self.path, iid + ".json")):
            return "none"
        from BPTK_Py import FileAdapter
        st = FileAdapter(self.compress, self.path).load_instance(iid)
        if st is None or st.state is None:
            return "torn"
        return f"ok:step={c19.T(st.state['step'])};n={len(st.state['settings_log'])}"


def run_ops(hist, ops, base, tag):
    """ops: list of ('start', mid) ('step', mid, st) ('crash',) ('torn', mid, st, cls).
    Returns per op (kind, body), per op file states of all instances, constructor error."""
    import contextlib, io
    run = None
    out, files = [], []
    with contextlib.redirect_stdout(io.StringIO()):
        try:
            run = Run(hist["spec"], hist["compress"], os.path.join(base, "state-" + tag))
            for op in ops:
                if run.srv is None:
                    out.append(("ctor-failed", run.ctor_error)); files.append(None)
                    continue
                if op[0] == "start":
                    run.start(op[1], hist["instances"][op[1]]); out.append(("none", None))
                elif op[0] == "step":
                    out.append(run.step(op[1], op[2]))
                elif op[0] == "crash":
                    run.crash(); out.append(("none", None))
                elif op[0] == "torn":
                    kind, _ = run.step(op[1], op[2])
                    if kind != "invalid":
                        run.tear(op[1], op[3])
                    run.crash(); out.append(("none", None))
                files.append({mid: run.file_state(mid) for mid in run.ids} if run.srv is not None else None)
        finally:
            if run is not None:
                run.close()
    return out, files, (run.ctor_error if run else "harness")


def model_lines(hist, ops):
    spec = hist["spec"]
    req = ["new"]
    for op in ops:
        if op[0] == "start":
            req.append(f"start {op[1]} {c19.T(spec['start'])} {c19.T(spec['dt'])} {c19.T(spec['stop'])} {op[1]}")
        elif op[0] == "step":
            req.append(f"step {op[1]} {settings_token(op[2])}")
        elif op[0] == "crash":
            req.append("crash")
        else:
            req.append(f"torn {op[1]} {settings_token(op[2])}")
        for mid in range(len(hist["instances"])):
            req.append(f"file {mid}")
    return req


def base_ops(hist):
    """interleave the instances' steps round-robin after starting all of them"""
    ops = [("start", m) for m in range(len(hist["instances"]))]
    pending = [list(i["steps"]) for i in hist["instances"]]
    while any(pending):
        for m, p in enumerate(pending):
            if p:
                ops.append(("step", m, p.pop(0)))
    return ops


def variants(hist):
    ops = base_ops(hist)
    out = []
    for k in range(len(ops) + 1):
        out.append((f"crash@{k}", ops[:k] + [("crash",)] + ops[k:]))
    for k, op in enumerate(ops):
        if op[0] == "step":
            for cls in TORN_CLASSES:
                out.append((f"torn@{k}:{cls}", ops[:k] + [("torn", op[1], op[2], cls)] + ops[k + 1:]))
    return ops, out


def requested(hist, mid):
    inst = hist["instances"][mid]
    return {(sm, sc, eq) for sm in inst["sms"] for sc in c19.MANAGERS[sm] if sc in inst["scs"] for eq in inst["eqs"]}


def present(body):
    return {(sm, sc, eq) for sm, a in body.items() for sc, b in a.items() for eq in b}


def check_variant(hist, name, ops, un_by_step, base, model_out):
    """-> list of (key, text).  un_by_step: answers of the uninterrupted run per (mid, n-th step of mid)."""
    got, files, ctor = run_ops(hist, ops, base, "c")
    viol = []
    counters, lost, externalised = {}, set(), set()
    exp_lines, real_lines = [], []
    mi = 1                                            # index into model_out (after "new")
    for oi, op in enumerate(ops):
        kind, body = got[oi]
        m_reply = model_out[mi]; mi += 1
        m_files = model_out[mi:mi + len(hist["instances"])]; mi += len(hist["instances"])
        if kind == "ctor-failed":
            viol.append(("constructor-fails-on-damaged-file", f"{name}: BptkServer.__init__ raised {body}"))
            break
        if op[0] == "step":
            mid = op[1]
            n = counters.get(mid, 0); counters[mid] = n + 1
            u_kind, u_body = un_by_step[(mid, n)]
            same = (kind == u_kind and body == u_body)
            real_lines.append((kind, u_kind, same))
            c_tok, u_tok = m_reply.split(";")
            c_tok, u_tok = c_tok[2:], u_tok[2:]
            exp_lines.append((c_tok.split(":")[0], u_tok.split(":")[0], c_tok == u_tok))
            if kind.startswith("http-"):
                viol.append((f"run-step-{kind}-after-restart", f"{name}: op {oi} {body}"))
            elif kind == "invalid" and mid not in lost:
                viol.append(("externalised-instance-lost", f"{name}: op {oi}: instance {mid} had been externalised and its file was not damaged, "
                                                          f"but the request is refused"))
            elif kind in ("ok", "stopped") and not same:
                viol.append(("continuation-differs", f"{name}: op {oi}: instance {mid} step {n} answers {body}, uninterrupted run answers {u_body}"))
            if kind == "ok" and present(body) != requested(hist, mid):
                viol.append(("equation-missing", f"{name}: op {oi}: result lacks {sorted(requested(hist, mid) - present(body))}"))
            if kind in ("ok", "stopped"):
                externalised.add(mid)
        elif op[0] == "torn":
            mid = op[1]
            counters[mid] = counters.get(mid, 0) + 1
            lost.add(mid)
            externalised.discard(mid)
            lost |= {m for m in range(len(hist["instances"])) if m not in externalised and any(o[0] == "start" and o[1] == m for o in ops[:oi])}
        elif op[0] == "crash":
            lost |= {m for m in range(len(hist["instances"])) if m not in externalised and any(o[0] == "start" and o[1] == m for o in ops[:oi])}
        # files: model vs real
        if files[oi] is not None:
            real_f = [files[oi].get(m, "none") for m in range(len(hist["instances"]))]
            if real_f != m_files and not viol:
                viol.append(("correspondence-files", f"{name}: after op {oi} {op[:2]} files are {real_f}, model says {m_files}"))
        if viol:
            break
    if not viol and exp_lines != real_lines:
        i = next(i for i, (a, b) in enumerate(zip(exp_lines, real_lines)) if a != b)
        viol.append(("correspondence-answers", f"{name}: step request #{i}: (crashed kind, uninterrupted kind, equal) real {real_lines[i]} model {exp_lines[i]}"))
    return viol


def run_history(hist, base, only=None):
    """-> (number of variants run, violations [(key, text, variant name)])"""
    ops, vs = variants(hist)
    un, _, _ = run_ops(hist, ops, base, "u")
    un_by_step, counters = {}, {}
    viol = []
    for op, (kind, body) in zip(ops, un):
        if op[0] == "step":
            n = counters.get(op[1], 0); counters[op[1]] = n + 1
            un_by_step[(op[1], n)] = (kind, body)
            if kind.startswith("http-"):
                viol.append((f"run-step-{kind}", f"uninterrupted run: {body}", "uninterrupted"))
    if viol:
        return 0, viol
    if only is not None:
        vs = [v for v in vs if v[0] == only]
    req, spans = [], []
    for name, vops in vs:
        q = model_lines(hist, vops)
        spans.append((len(req), len(req) + len(q)))
        req += q
    model = drive("C20", req)
    for (name, vops), (a, b) in zip(vs, spans):
        v = check_variant(hist, name, vops, un_by_step, base, model[a:b])
        viol += [(k, t, name) for k, t in v]
    return len(vs), viol


# ------------------------------------------------------------------ generation
def gen_history(rng, nmax):
    start, dt = rng.choice(c19.STARTS), rng.choice(c19.DTS)
    ninst = rng.choice([1, 1, 2, 3])
    horizon = rng.choice([3, 12, 12, 12])
    spec = {"start": start, "dt": dt, "stop": start + dt * horizon}
    insts, budget = [], nmax
    for m in range(ninst):
        sms = rng.choice([["smA"], ["smA", "smB"]])
        scs = rng.choice([["a"], ["a", "b"]])
        eqs = rng.choice([["s"], ["s", "c"], ["s", "f", "c", "g"]])
        n = rng.range(1, max(1, budget - (ninst - m - 1)))
        budget -= n
        steps = []
        for _ in range(n):
            r = rng.below(10)
            if r < 5:
                steps.append({"k": "set", "settings": c19.settings_for(rng, sms, scs, rng.chance(1, 3))})
            elif r < 8:
                steps.append({"k": "empty"})
            else:
                steps.append({"k": "nobody"})
        insts.append({"sms": sms, "scs": scs, "eqs": eqs, "steps": steps})
    return {"spec": spec, "compress": rng.chance(1, 2), "instances": insts}


WITNESS = {"spec": {"start": 1.0, "dt": 1.0, "stop": 10.0}, "compress": False,
           "instances": [{"sms": ["smA"], "scs": ["a"], "eqs": ["s", "c"],
                          "steps": [{"k": "set", "settings": {"smA": {"a": {"constants": {"c": 5.0}}}}}, {"k": "empty"}, {"k": "empty"}]},
                         {"sms": ["smA"], "scs": ["a"], "eqs": ["s"], "steps": [{"k": "empty"}, {"k": "empty"}]}]}


def shrink(hist, key, base):
    def fails(h):
        try:
            return any(k == key for k, _, _ in run_history(h, base)[1])
        except Exception:
            return False
    cur = copy.deepcopy(hist)
    changed = True
    while changed:
        changed = False
        cands = []
        for i in range(len(cur["instances"])):
            if len(cur["instances"]) > 1:
                c = copy.deepcopy(cur); del c["instances"][i]; cands.append(c)
            for j in range(len(cur["instances"][i]["steps"])):
                if len(cur["instances"][i]["steps"]) > 1:
                    c = copy.deepcopy(cur); del c["instances"][i]["steps"][j]; cands.append(c)
        for c in cands:
            if fails(c):
                cur, changed = c, True
                break
    return cur


# ------------------------------------------------------------------ probes and Gen
def probe(base):
    facts = {}
    _, v = run_history(WITNESS, base, only="crash@5")
    facts["restoreReplaysSettings"] = not any(k == "continuation-differs" for k, _, _ in v)
    _, v = run_history(WITNESS, base, only="torn@4:inner")
    facts["loadSkipsBadFiles"] = not any(k == "constructor-fails-on-damaged-file" for k, _, _ in v)
    return facts


def gen_lean(facts):
    return ("import Bptk.Props.C20\n/-! GENERATED by harness/props/c20.py from /repo on every run — do not edit. -/\n"
            "namespace Bptk.C20.Gen\n"
            f"/-- probed on this tree: a restored session replays its logged settings: {facts['restoreReplaysSettings']}; "
            f"load_state skips unreadable files: {facts['loadSkipsBadFiles']} -/\n"
            "theorem holds {σ ρ : Type} (d : Dyn σ ρ) : C20_full d := C20_full_holds d\n#print axioms holds\n"
            "end Bptk.C20.Gen\n")


# ------------------------------------------------------------------ the check
def run(chk):
    quiet_bptk_logging()
    base = scratch_dir("bptkverif-c20-")
    try:
        _run(chk, base)
    finally:
        shutil.rmtree(base, ignore_errors=True)


def _run(chk, base):
    facts = probe(base)
    chk.notes["cfg"] = facts
    ok, why = chk.prove(gen_lean(facts))
    chk.cov["trusted_base"] = [
        "Lean 4.33 kernel; axioms propext, Quot.sound (audited per run via #print axioms)",
        "hand-written model lean/Bptk/Core/C20.lean of InstanceManager / BptkServer.__init__ / _ensure_instance_exists / run-step + save_instance / "
        "_set_state replay; the simulation is an arbitrary deterministic step function (theorems hold for every `Dyn`); tied to the source by the "
        "correspondence run of this check (answers' kinds, equality with the uninterrupted run, file states after every request)",
        "OS file semantics: a crash during a write leaves a strict prefix of the new content (never a complete JSON document, hence unreadable)",
        "C19 round trip (a readable file restores the session that was saved) — proved and checked in C19",
    ]
    chk.assumptions = ["models are deterministic and total (no random(), no failing equation); a model's factory builds a fresh model per instance",
                       "instance ids are never reused (uuid1)", "crash = process state discarded between two requests or inside FileAdapter._save_instance; "
                       "real process death / fsync ordering is not exhibited", "SD sessions; start/dt on the dyadic lattice (see C19)"]
    nmax = 6 if chk.quick else 12
    rng = chk.rng.fork("c20-hist")
    hists = [WITNESS] + [gen_history(rng, nmax) for _ in range(10 if chk.quick else 40)]
    chk.cov["rule"] = (f"per generated history (1-3 instances, <= {nmax} steps, settings / {{}} / no body, both adapter modes): one uninterrupted run, then one "
                       "run per crash point k in 0..N (exhaustive) and one per stepping request x torn-write class {0, inside envelope, inside inner state "
                       "string, length-1}; a case = (history, variant); non-trivial = the history changes a constant before the crash point")
    viol_by_key = {}
    total = 0
    dist = {"histories": 0, "crash_variants": 0, "torn_variants": 0, "instances": {1: 0, 2: 0, 3: 0}, "compressed": 0}
    for h in hists:
        n, viol = run_history(h, base)
        total += n
        ops, vs = variants(h)
        dist["histories"] += 1
        dist["crash_variants"] += sum(1 for v in vs if v[0].startswith("crash"))
        dist["torn_variants"] += sum(1 for v in vs if v[0].startswith("torn"))
        dist["instances"][len(h["instances"])] += 1
        dist["compressed"] += int(h["compress"])
        nontriv = any(s["k"] == "set" for i in h["instances"] for s in i["steps"])
        for name, _ in vs:
            chk.case((json.dumps(h, sort_keys=True), name), nontrivial=nontriv, sample=None)
        if len(chk.cov["samples"]) < 4:
            chk.cov["samples"].append({"history": h, "variants": [v[0] for v in vs][:12]})
        for k, t, name in viol:
            viol_by_key.setdefault(k, (h, t, name))
        if time.time() - chk.t0 > (75 if chk.quick else 800):
            chk.notes["stopped_early_after_histories"] = dist["histories"]
            break
    chk.cov["input_distribution"] = dist
    chk.cov["traces_validated_against_impl"] = total
    chk.cov["exhaustive"] = "crash point and torn-write class exhaustive per history"
    for key, (h, text, name) in list(viol_by_key.items())[:5]:
        found = not key.startswith("correspondence")
        small = shrink(h, key, base) if found and time.time() - chk.t0 < (85 if chk.quick else 850) else h
        v2 = [v for v in run_history(small, base)[1] if v[0] == key]
        t2, n2 = (v2[0][1], v2[0][2]) if v2 else (text, name)
        chk.add_finding(key if found else "correspondence", t2, {"history": small, "variant": n2, "key": key}, found_input=found)
    if not ok:
        chk.add_finding("obligation", f"proof obligations of C20 no longer check: {why}",
                        {"theorem": "Bptk.C20.Gen.holds / Bptk.Props.C20", "detail": why}, found_input=False)


def replay(path):
    quiet_bptk_logging()
    r = json.load(open(path))["replay"]
    if "history" not in r:
        print("no concrete input stored:", r)
        return 1
    base = scratch_dir("bptkverif-c20-")
    try:
        n, viol = run_history(r["history"], base, only=r.get("variant"))
    finally:
        shutil.rmtree(base, ignore_errors=True)
    print("history:", json.dumps(r["history"]))
    print("variant:", r.get("variant"))
    print("violations on the current tree:", viol[:5])
    return 1 if viol else 0
