"""C08 — memoised results are never stale or ambiguous.

probes (3 mechanism facts) -> Gen obligations; correspondence (a) edit/evaluate histories on real SD-DSL models
vs Drive/C08 (values and memo contents), (b) forced schedules of the per-equation worker threads of SdSimulation
(sys.settrace cooperative scheduler, one switch point per source line of Model.memoize) vs the interleaving
machine; reference checks on the real code: stale = differs from a freshly built model; ambiguous = two values
handed out for one (element, time) in one run."""
import itertools, json, random as _pyrandom, sys, threading
from common import *

START, DT, KMAX = 1.0, 0.5, 3           # grid t_k = 1.0 + 0.5 k (exact in binary)
LITS = [2.0, 3.0, 0.5, 1.5, 4.0, 0.25, 10.0]
OPSYM = {0: "+", 1: "-", 2: "*", 3: "/"}
LEANKIND = {"s": "s", "f": "f", "o": "o", "c": "o", "b": "o"}


# ------------------------------------------------------------------ expressions
# ('L', x) | ('R', n) | ('B', op, a, b) | ('X',)          (left operand of B is never a literal)
def enc(e):
    if e[0] == "L": return "L" + fbits(e[1])
    if e[0] == "R": return "R%d" % e[1]
    if e[0] == "X": return "X"
    return "B%d,%s,%s" % (e[1], enc(e[2]), enc(e[3]))


def show(e):
    if e[0] == "L": return repr(e[1])
    if e[0] == "R": return "e%d" % e[1]
    if e[0] == "X": return "random()"
    return "(%s %s %s)" % (show(e[2]), OPSYM[e[1]], show(e[3]))


def dsl(e, els):
    """the SD-DSL object a modeller would write"""
    from BPTK_Py import sd_functions as sd
    if e[0] == "L": return e[1]
    if e[0] == "R": return els[e[1]]
    if e[0] == "X": return sd.random(0, 1)
    a, b = dsl(e[2], els), dsl(e[3], els)
    return a + b if e[1] == 0 else a - b if e[1] == 1 else a * b if e[1] == 2 else a / b


def raw(e):
    """python source for model.add_equation (fully parenthesised, own renderer)"""
    if e[0] == "L": return repr(e[1])
    if e[0] == "R": return "model.memoize('e%d',t)" % e[1]
    if e[0] == "X": return "random.uniform(0,1)"
    return "((%s) %s (%s))" % (raw(e[2]), OPSYM[e[1]], raw(e[3]))


def refs(e):
    if e[0] == "R": return {e[1]}
    if e[0] == "B": return refs(e[2]) | refs(e[3])
    return set()


# ------------------------------------------------------------------ real side
class Real:
    def __init__(self, kinds):
        from BPTK_Py import Model
        from BPTK_Py.scenariomanager.scenario import SimulationScenario
        self.kinds = kinds
        self.m = Model(starttime=START, stoptime=START + KMAX * DT, dt=DT, name="c08")
        mk = {"s": self.m.stock, "f": self.m.flow, "o": self.m.converter, "c": self.m.constant, "b": self.m.biflow}
        self.els = [mk[k]("e%d" % i) for i, k in enumerate(kinds)]
        self.sc = SimulationScenario({}, "sc", self.m, "sm")

    def apply(self, op):
        k = op[0]
        if k == "seteq":
            self.els[op[1]].equation = dsl(op[2], self.els)
        elif k == "setinit":
            self.els[op[1]].initial_value = dsl(op[2], self.els)
        elif k == "addeq":
            self.m.add_equation("e%d" % op[1], eval("lambda t: " + raw(op[2]), {"model": self.m, "random": _pyrandom}))
        elif k == "reset":
            self.m.reset_cache()
        elif k == "sreset":
            self.sc.reset_cache()
        elif k == "eval":
            return self.value(op[1], op[2])
        return None

    def value(self, n, k):
        try:
            v = self.m.evaluate_equation("e%d" % n, START + k * DT)
            return "nan" if v != v else fbits(v)
        except RecursionError:
            return "none"
        except Exception as e:  # noqa
            return "ERR:" + type(e).__name__

    def memo(self):
        out = []
        for name, d in self.m.memo.items():
            for t, v in d.items():
                out.append((int(name[1:]), int(round((t - START) / DT)), "nan" if v != v else fbits(v)))
        return ",".join("%d.%d=%s" % x for x in sorted(out))


def op_line(op):
    k = op[0]
    if k in ("seteq", "setinit", "addeq"): return "%s %d %s" % (k, op[1], enc(op[2]))
    if k in ("reset", "sreset"): return "reset"
    return "eval %d %d" % (op[1], op[2])


def op_show(op):
    k = op[0]
    if k == "seteq": return "e%d.equation = %s" % (op[1], show(op[2]))
    if k == "setinit": return "e%d.initial_value = %s" % (op[1], show(op[2]))
    if k == "addeq": return "model.add_equation('e%d', lambda t: %s)" % (op[1], show(op[2]))
    if k == "reset": return "model.reset_cache()"
    if k == "sreset": return "scenario.reset_cache()"
    return "e%d(t_%d)" % (op[1], op[2])


EDIT_KEY = {"setinit": "stale-initial-value", "addeq": "stale-add-equation", "seteq": "stale-equation-setter",
            "reset": "stale-after-reset", "sreset": "stale-after-reset"}


def stale_check(kinds, ops, nall):
    """property, directly on the real code: after `ops`, every element at every grid point equals what a freshly
    built model with the same edits (and no evaluation in between) yields.  Returns (first mismatch | None)."""
    a = Real(kinds)
    for op in ops:
        a.apply(op)
    b = Real(kinds)
    for op in ops:
        if op[0] in ("seteq", "setinit", "addeq"):
            b.apply(op)
    for n in range(nall):
        for k in range(KMAX + 1):
            va, vb = a.value(n, k), b.value(n, k)
            if va != vb:
                return {"element": n, "k": k, "after_history": va, "fresh_model": vb}
    return None


def shrink(ops, fails):
    ops = list(ops)
    changed = True
    while changed:
        changed = False
        for i in range(len(ops)):
            cand = ops[:i] + ops[i + 1:]
            if cand and fails(cand):
                ops, changed = cand, True
                break
    return ops


# ------------------------------------------------------------------ probes (mechanism facts)
def probe_initial_value():
    r = Real(["s", "o"])
    r.apply(("seteq", 0, ("L", 2.0))); r.apply(("setinit", 0, ("L", 1.0)))
    r.apply(("seteq", 1, ("B", 2, ("R", 0), ("L", 2.0))))
    r.value(1, 2)
    r.apply(("setinit", 0, ("L", 10.0)))
    return r.value(1, 2) == fbits(2.0 * (10.0 + 2 * DT * 2.0))


def probe_add_equation():
    r = Real(["c", "o"])
    r.apply(("seteq", 0, ("L", 2.0))); r.apply(("seteq", 1, ("B", 2, ("R", 0), ("L", 3.0))))
    r.value(1, 0)
    r.apply(("addeq", 0, ("L", 5.0)))
    return r.value(1, 0) == fbits(15.0)


def probe_first_store():
    """single-threaded emulation of `T0 miss, T1 miss+compute+store, T0 store`: the lambda of `r` re-enters
    memoize for its own key once.  True iff both calls return the same value and that value is the stored one."""
    from BPTK_Py import Model
    m = Model(starttime=START, stoptime=START + DT, dt=DT, name="c08p")
    state = {"n": 0, "inner": None}
    def fn(t):
        state["n"] += 1
        mine = float(state["n"])
        if state["n"] == 1:
            state["inner"] = m.memoize("r", t)
        return mine
    m.add_equation("r", fn)
    outer = m.memoize("r", START)
    return outer == state["inner"] == m.memo["r"][START]


def gen_lean(f):
    b = lambda x: "true" if x else "false"
    cfg = (f"def cfg : Cfg := {{ initialValueResetsCache := {b(f['init'])}, addEquationResetsCache := {b(f['add'])}, "
           f"memoizeFirstStoreWins := {b(f['first'])} }}\n")
    if all(f.values()):
        body = "theorem holds : C08_full cfg := C08_full_of_good cfg (by decide)\n#print axioms holds\n"
    else:
        thm = ("C08_witness_stale_init_full" if not f["init"] else
               "C08_witness_stale_add_full" if not f["add"] else "C08_witness_race_full")
        body = (f"theorem violated : ¬ C08_full cfg := {thm} cfg (by decide)\n#print axioms violated\n"
                "#print axioms C08_partial_evals\n#print axioms C08_deterministic_threads\n")
    return ("import Bptk.Props.C08\n/-! GENERATED by harness/props/c08.py from the code under test on every run — do not edit. -/\n"
            "namespace Bptk.C08.Gen\n" + cfg + body + "end Bptk.C08.Gen\n")


# ------------------------------------------------------------------ (a) history generation
def gen_expr(rng, allowed, depth=2):
    """additive chain of multiplicative terms; left operands are never literals."""
    if not allowed:
        return ("L", rng.choice(LITS))
    def atom(): return ("R", rng.choice(allowed))
    def term():
        r = rng.below(4)
        a = atom()
        if r == 0: return a
        if r == 1: return ("B", 2, a, atom())
        if r == 2: return ("B", 2, a, ("L", rng.choice(LITS)))
        return ("B", 3, a, ("L", rng.choice(LITS)))
    e = term()
    for _ in range(rng.below(depth + 1)):
        e = ("B", rng.below(2), e, term() if rng.chance(3, 4) else ("L", rng.choice(LITS)))
    return e


def allowed_refs(kinds, n):
    """same-time references that keep the model acyclic: lower-indexed non-stocks and every stock; a stock's
    equation is evaluated at the previous grid point, so it may mention everything."""
    if kinds[n] == "s":
        return list(range(len(kinds)))
    return [j for j in range(len(kinds)) if kinds[j] == "s" or j < n]


def gen_edit(rng, kinds, extra):
    n = rng.below(len(kinds))
    r = rng.below(10)
    if r < 2 and "s" in kinds:
        s = rng.choice([i for i, k in enumerate(kinds) if k == "s"])
        consts = [i for i, k in enumerate(kinds) if k == "c"]
        return ("setinit", s, ("R", rng.choice(consts)) if consts and rng.chance(1, 3) else ("L", rng.choice(LITS)))
    if r < 4:
        tgt = rng.choice([i for i, k in enumerate(kinds) if k != "s"] + [len(kinds) + j for j in range(extra)])
        al = allowed_refs(kinds, tgt) if tgt < len(kinds) else list(range(len(kinds)))
        if tgt < len(kinds) and kinds[tgt] == "c":      # constants may serve as initial values: keep them literal
            return ("addeq", tgt, ("L", rng.choice(LITS)))
        return ("addeq", tgt, gen_expr(rng, [a for a in al if a != tgt]) if rng.chance(2, 3) else ("L", rng.choice(LITS)))
    if kinds[n] == "c":
        return ("seteq", n, ("L", rng.choice(LITS)))
    return ("seteq", n, gen_expr(rng, [a for a in allowed_refs(kinds, n) if a != n or kinds[n] == "s"]))


def gen_history(rng):
    nk = rng.range(3, 6)
    kinds = [rng.choice("sfocb") for _ in range(nk)]
    if "s" not in kinds: kinds[rng.below(nk)] = "s"
    extra = 1
    ops = []
    for n in range(nk):           # initial definitions
        if rng.chance(5, 6):
            ops.append(("seteq", n, ("L", rng.choice(LITS))) if kinds[n] == "c" else
                       ("seteq", n, gen_expr(rng, [a for a in allowed_refs(kinds, n) if a != n or kinds[n] == "s"])))
    added = False                 # the extra (non-element) equation exists only after its add_equation
    for _ in range(rng.range(3, 12)):
        r = rng.below(10)
        if r < 5:
            ops.append(("eval", rng.below(nk + (extra if added else 0)), rng.below(KMAX + 1)))
        elif r < 6:
            ops.append(rng.choice([("reset",), ("sreset",)]))
        else:
            e = gen_edit(rng, kinds, extra)
            added = added or (e[0] == "addeq" and e[1] >= nk)
            ops.append(e)
    return kinds, ops, nk + (extra if added else 0)


FIX_KINDS = ["c", "f", "s", "o"]        # c, f = max(0, c*1.5), s' = f (init 1.0 or c), k = s*2 - c


def fixed_alphabet():
    return [("seteq", 0, ("L", 3.0)), ("seteq", 1, ("B", 2, ("R", 0), ("L", 0.5))), ("seteq", 2, ("B", 0, ("R", 1), ("R", 3))),
            ("setinit", 2, ("L", 10.0)), ("setinit", 2, ("R", 0)), ("seteq", 3, ("B", 0, ("R", 2), ("R", 0))),
            ("addeq", 0, ("L", 4.0)), ("addeq", 1, ("B", 2, ("R", 0), ("L", 2.0))), ("reset",), ("sreset",),
            ("eval", 3, 2), ("eval", 2, 1), ("eval", 1, 0)]


FIX_PREFIX = [("seteq", 0, ("L", 2.0)), ("seteq", 1, ("B", 2, ("R", 0), ("L", 1.5))), ("seteq", 2, ("R", 1)),
              ("setinit", 2, ("L", 1.0)), ("seteq", 3, ("B", 1, ("B", 2, ("R", 2), ("L", 2.0)), ("R", 0)))]


def seq_cases(chk):
    L = 3 if chk.quick else 4
    out = [(FIX_KINDS, FIX_PREFIX + list(h), 4) for h in itertools.product(fixed_alphabet(), repeat=L)]
    n_exh = len(out)
    rng = chk.rng.fork("c08-seq")
    for _ in range(250 if chk.quick else 4000):
        out.append(gen_history(rng))
    return out, n_exh, L


def run_seq(chk, facts):
    cases, n_exh, L = seq_cases(chk)
    req = ["cfg %d %d %d" % (facts["init"], facts["add"], facts["first"])]
    real = ["ok"]
    kinds_hist = {}
    stale = []
    for kinds, ops, nall in cases:
        r = Real(kinds)
        req.append("new %s %s" % (fbits(DT), ",".join(LEANKIND[k] for k in kinds))); real.append("ok")
        for op in ops:
            v = r.apply(op)
            req.append(op_line(op)); real.append(v if op[0] == "eval" else "ok")
            kinds_hist[op[0]] = kinds_hist.get(op[0], 0) + 1
            if op[0] == "eval":
                req.append("memo"); real.append(r.memo())
        for n in range(nall):
            for k in range(KMAX + 1):
                req.append("eval %d %d" % (n, k)); real.append(r.value(n, k))
        req.append("memo"); real.append(r.memo())
        edits_after_eval = any(o[0] == "eval" for o in ops) and any(
            o[0] in ("seteq", "setinit", "addeq") for i, o in enumerate(ops) if any(p[0] == "eval" for p in ops[:i]))
        chk.case(("seq", tuple(kinds), tuple(map(op_line, ops))), nontrivial=edits_after_eval,
                 sample=[op_show(o) for o in ops] if len(chk.cov["samples"]) < 3 and len(ops) > 6 else None)
        if len(stale) < 8:
            mm = stale_check(kinds, ops, nall)
            if mm is not None:
                stale.append((kinds, ops, nall, mm))
    chk.cov["seq_op_distribution"] = kinds_hist
    chk.cov["seq_exhaustive_histories"] = n_exh
    model = drive("C08", req)
    diff = next((i for i, (a, b) in enumerate(zip(model, real)) if a != b), None)
    if diff is None and len(model) != len(real):
        diff = min(len(model), len(real))
    return cases, stale, diff, req, model, real, L


# ------------------------------------------------------------------ (b) forced schedules on the worker threads
class RecDict(dict):
    """memo dictionary of one equation that records every access (who, what) — the shared-memory events."""
    def __init__(self, sch, n):
        super().__init__(); self.sch, self.n = sch, n
    def _k(self, t): return (self.n, int(round((t - START) / DT)))
    def keys(self): return _Keys(self)
    def __contains__(self, t):
        f = dict.__contains__(self, t); self.sch.event("L", self._k(t), "hit" if f else "miss"); return f
    def get(self, t, d=None):
        f = dict.__contains__(self, t); self.sch.event("L", self._k(t), "hit" if f else "miss"); return dict.get(self, t, d)
    def __getitem__(self, t):
        v = dict.__getitem__(self, t); self.sch.event("R", self._k(t), fbits(v)); return v
    def __setitem__(self, t, v):
        self.sch.event("S", self._k(t), fbits(v)); dict.__setitem__(self, t, v)
    def setdefault(self, t, v=None):
        self.sch.event("S", self._k(t), fbits(v)); return dict.setdefault(self, t, v)


class _Keys:
    def __init__(self, d): self.d = d
    def __contains__(self, t): return self.d.__contains__(t)
    def __iter__(self): return dict.keys(self.d).__iter__()


class Sched:
    """cooperative scheduler: exactly one worker runs; a worker can lose the processor at every new source line
    of Model.memoize (sys.settrace 'line' event) — `preempt` maps the global line-event count to the thread that
    runs next.  Otherwise the running thread continues; when it ends, the lowest unfinished thread runs."""
    TIMEOUT = 20.0

    def __init__(self, names, preempt, memoize_code, simulate_name="__simulate"):
        self.names, self.preempt = names, dict(preempt)
        self.code, self.simname = memoize_code, simulate_name
        self.cv = threading.Condition()
        self.cur, self.count = 0, 0
        self.finished, self.tids, self.taken = set(), {}, set()
        self.events, self.handouts, self.stacks, self.draws = [], [], {}, {}
        self.error = None

    # -- called from worker threads
    def tid(self):
        return self.tids.get(threading.get_ident(), -1)

    def event(self, kind, key, val):
        t = self.tid()
        if t >= 0:
            self.events.append((t, kind, key, val))

    def uniform(self, a, b):
        t = self.tid()
        i = self.draws.get(t, 0); self.draws[t] = i + 1
        return float(1000 * (t + 1) + i)

    def _wait(self, t):
        while self.cur != t:
            if not self.cv.wait(self.TIMEOUT):
                self.error = "scheduler timeout waiting for thread %d (cur=%d)" % (t, self.cur)
                self.cur = t
                break

    def _next_unfinished(self):
        for i in range(len(self.names)):
            if i not in self.finished:
                return i
        return -1

    def gtrace(self, frame, ev, arg):
        co = frame.f_code
        if co.co_name == self.simname and ev == "call":
            eq = frame.f_locals.get("equation")
            with self.cv:
                t = next(i for i, n in enumerate(self.names) if n == eq and i not in self.taken)
                self.taken.add(t); self.tids[threading.get_ident()] = t; self.stacks[t] = []
                self._wait(t)
            return self.sim_trace
        if co is self.code:
            t = self.tid()
            if t >= 0:
                self.stacks[t].append(frame)
                return self.memo_trace
        return None

    def sim_trace(self, frame, ev, arg):
        if ev == "return":
            with self.cv:
                t = self.tid()
                self.finished.add(t)
                self.cur = self._next_unfinished()
                self.cv.notify_all()
        return self.sim_trace

    def memo_trace(self, frame, ev, arg):
        t = self.tid()
        if ev == "line":
            with self.cv:
                i = self.count; self.count += 1
                tgt = self.preempt.get(i)
                if tgt is not None and tgt != t and tgt not in self.finished and tgt < len(self.names):
                    self.cur = tgt
                    self.cv.notify_all()
                self._wait(t)
        elif ev == "return":
            st = self.stacks[t]
            st.pop()
            loc = frame.f_locals
            try:
                key = (int(loc["equation"][1:]), int(round((loc["normalized_arg"] - START) / DT)))
            except Exception:
                key = None
            cons = None
            if st:
                l2 = st[-1].f_locals
                cons = (int(l2["equation"][1:]), int(round((l2["normalized_arg"] - START) / DT)))
            self.handouts.append((t, cons, key, None if arg is None else fbits(arg)))
        return self.memo_trace


def conc_systems():
    """(kinds, definitions, requested equations, k0, k1): small stochastic / deterministic systems"""
    X = ("X",)
    return [
        ("race2", ["o"], [("seteq", 0, X)], [0, 0], 0, 0),
        ("dep2", ["o", "o"], [("seteq", 0, X), ("seteq", 1, ("B", 2, ("R", 0), ("L", 2.0)))], [1, 0], 0, 0),
        ("diamond2", ["o", "o", "o"], [("seteq", 0, X), ("seteq", 1, ("B", 0, ("R", 0), X)),
                                        ("seteq", 2, ("B", 1, ("R", 1), ("R", 0)))], [2, 1], 0, 0),
        ("stock2", ["o", "s", "o"], [("seteq", 0, X), ("seteq", 1, ("R", 0)), ("setinit", 1, ("L", 1.0)),
                                      ("seteq", 2, ("B", 0, ("R", 1), ("R", 0)))], [2, 1], 0, 1),
        ("det2", ["o", "o", "o"], [("seteq", 0, ("L", 3.0)), ("seteq", 1, ("B", 2, ("R", 0), ("L", 2.0))),
                                    ("seteq", 2, ("B", 0, ("R", 1), ("R", 0)))], [2, 1], 0, 0),
        ("three", ["o", "o", "o"], [("seteq", 0, X), ("seteq", 1, ("B", 2, ("R", 0), ("L", 2.0))),
                                     ("seteq", 2, ("B", 0, ("R", 0), ("R", 1)))], [2, 1, 0], 0, 0),
    ]


def run_forced(system, preempt):
    """one run of SdSimulation.start on the real code under a forced schedule.  Returns dict of observations."""
    import random as rmod
    from BPTK_Py.sdsimulation import SdSimulation
    from BPTK_Py import Model
    name, kinds, defs, reqs, k0, k1 = system
    r = Real(kinds)
    for op in defs:
        r.apply(op)
    names = ["e%d" % n for n in reqs]
    sch = Sched(names, preempt, Model.memoize.__code__)
    for i in range(len(kinds)):
        r.m.memo["e%d" % i] = RecDict(sch, i)
    old_uniform = rmod.uniform
    rmod.uniform = sch.uniform
    threading.settrace(sch.gtrace)
    try:
        sim = SdSimulation(model=r.m, name="c08")
        df = sim.start(output=["frame"], start=START + k0 * DT, until=START + k1 * DT, equations=names)
    finally:
        threading.settrace(None)
        rmod.uniform = old_uniform
    reported = {}
    for eq, d in sim.results.items():
        for t, v in d.items():
            reported[(int(eq[1:]), int(round((t - START) / DT)))] = fbits(v)
    memo = {}
    for nm, d in r.m.memo.items():
        for t, v in dict.items(d):
            memo[(int(nm[1:]), int(round((t - START) / DT)))] = fbits(v)
    return {"events": sch.events, "handouts": sch.handouts, "reported": reported, "memo": memo,
            "line_events": sch.count, "error": sch.error}


def ambiguity(obs):
    """property, directly on the real code: one value per (element, time): every value handed out by memoize and
    every reported value equals the value in the memo at the end of the run."""
    for t, cons, key, v in obs["handouts"]:
        if key is not None and obs["memo"].get(key) != v:
            return {"thread": t, "consumer": cons, "key": key, "handed_out": v, "memo": obs["memo"].get(key)}
    for key, v in obs["reported"].items():
        if obs["memo"].get(key) != v:
            return {"reported_key": key, "reported": v, "memo": obs["memo"].get(key)}
    return None


def conc_line(system, obs):
    name, kinds, defs, reqs, k0, k1 = system
    rq = "|".join(",".join("%d.%d" % (n, k) for k in range(k0, k1 + 1)) for n in reqs)
    sched = ",".join(str(e[0]) for e in obs["events"]) or "-"
    return "conc %s %s" % (rq, sched)


def conc_expected(obs):
    ev = " ".join("%d%s%d.%d:%s" % (t, kind, key[0], key[1], val) for t, kind, key, val in obs["events"])
    return ev


def canon_handouts(hs):
    return sorted("%s>%d.%d=%s" % ("-" if c is None else "%d.%d" % c, k[0], k[1], v) for _, c, k, v in hs)


def parse_conc_reply(line):
    parts = line.split(";")
    if len(parts) != 4:
        return None
    ev, log, memo, fin = parts
    return ev, sorted(x for x in log.split(",") if x), memo, fin


def schedules_for(chk, system, E, nthreads, rng):
    """all schedules with <= 1 pre-emption, all with <= 2 (two threads / thorough), seeded sample otherwise"""
    others = lambda: range(nthreads)
    one = [{i: j} for i in range(E) for j in others()]
    two_all = [{i: j, i2: j2} for i in range(E) for i2 in range(i + 1, E) for j in others() for j2 in others()]
    cap2 = (1200 if nthreads == 2 else 500) if chk.quick else 10 ** 9
    if len(two_all) > cap2:
        two = [two_all[rng.below(len(two_all))] for _ in range(cap2)]
        full2 = False
    else:
        two, full2 = two_all, True
    three = []
    if not chk.quick:
        for _ in range(1500):
            pts = sorted({rng.below(E) for _ in range(3)})
            three.append({p: rng.below(nthreads) for p in pts})
    return [{}] + one + two + three, full2


def run_conc(chk, facts):
    rng = chk.rng.fork("c08-conc")
    req, exp, meta = [], [], []
    first_amb, n_runs, dist = None, 0, {}
    infra = None
    for system in conc_systems():
        name, kinds, defs, reqs, k0, k1 = system
        base = run_forced(system, {})
        E = base["line_events"]
        scheds, full2 = schedules_for(chk, system, E, len(reqs), rng)
        dist[name] = {"line_events": E, "schedules": len(scheds), "all_two_preemptions": full2}
        header = ["cfg %d %d %d" % (facts["init"], facts["add"], facts["first"]),
                  "new %s %s" % (fbits(DT), ",".join(LEANKIND[k] for k in kinds))] + [op_line(o) for o in defs]
        req += header; exp += ["ok"] * len(header); meta += [None] * len(header)
        seen = set()
        for pre in scheds:
            obs = run_forced(system, pre)
            n_runs += 1
            if obs["error"]:
                infra = obs["error"]; break
            sig = tuple(e[0] for e in obs["events"])
            amb = ambiguity(obs)
            if amb is not None and first_amb is None:
                first_amb = (system, pre, amb)
            chk.case(("conc", name, sig), nontrivial=len(set(sig)) > 1 and any(
                sig[i] != sig[i + 1] for i in range(len(sig) - 1)), sample=None)
            if sig in seen:
                continue          # same interleaving of the shared-memory events: same model run
            seen.add(sig)
            req.append("reset"); exp.append("ok"); meta.append(None)
            req.append(conc_line(system, obs))
            exp.append((conc_expected(obs), canon_handouts(obs["handouts"]),
                        ",".join("%d.%d=%s" % (k[0], k[1], v) for k, v in sorted(obs["memo"].items())), "finished"))
            meta.append((name, pre))
        dist[name]["distinct_memo_access_orders"] = len(seen)
        if infra:
            break
    chk.cov["conc_distribution"] = dist
    chk.cov["forced_schedule_runs"] = n_runs
    if infra:
        raise RuntimeError("forced-schedule infrastructure: " + infra)
    model = drive("C08", req)
    diff = None
    for i, (m, e) in enumerate(zip(model, exp)):
        if isinstance(e, tuple):
            if parse_conc_reply(m) != e:
                diff = i; break
        elif m != e:
            diff = i; break
    if diff is None and len(model) != len(exp):
        diff = min(len(model), len(exp))
    return first_amb, diff, req, model, exp, meta


# ------------------------------------------------------------------ the check
def run(chk):
    quiet_bptk_logging()
    sys.setrecursionlimit(5000)
    facts = {"init": probe_initial_value(), "add": probe_add_equation(), "first": probe_first_store()}
    chk.notes["cfg"] = facts
    ok, why = chk.prove(gen_lean(facts))
    chk.cov["trusted_base"] = [
        "Lean 4.33 kernel; axioms propext, Classical.choice, Quot.sound (audited per run via #print axioms)",
        "hand-written model lean/Bptk/Core/C08.lean of Model.memoize / add_equation / reset_cache, the equation and initial_value setters, "
        "SimulationScenario.reset_cache and the SdSimulation worker threads; tied to the code by three behavioural probes, by the "
        "differential run on edit/evaluate histories (values and memo contents) and by forced schedules of the real worker threads",
        "CPython: a thread switch is possible between any two traced source lines of Model.memoize; dict.setdefault / dict reads are atomic "
        "(switches inside one line / inside C code are not modelled)",
        "DSL rendering of the generated expression shapes (left-nested sums of products; C01/C02 cover rendering in general)",
    ]
    chk.assumptions = ["models are acyclic at equal times (generator keeps a rank); grid times exact in binary (dt 0.5, start 1.0) — C05 covers normalisation",
                       "stochastic terms are written after the element references of their equation (draw happens after the dependencies returned)",
                       "edits are not concurrent with a run"]
    cases, stale, sdiff, sreq, smodel, sreal, L = run_seq(chk, facts)
    amb, cdiff, creq, cmodel, cexp, cmeta = run_conc(chk, facts)
    chk.cov["rule"] = (f"(a) all histories FIX_PREFIX + w, w in alphabet^{L} (13 edit/reset/evaluate operations on a 4-element model), plus seeded random "
                       "histories on random models of 3..6 elements: every evaluation result and the memo contents after every evaluation are compared "
                       "with the Lean model, and every element at every grid point with a freshly built model; non-trivial = some edit follows an evaluation. "
                       "(b) six 2–3-thread systems: every schedule with <=1 pre-emption at line granularity in Model.memoize, all/sampled with 2 "
                       "(thorough: all with 2, sampled with 3); a case = the order of memo accesses by thread; non-trivial = threads interleave")
    chk.cov["traces_validated_against_impl"] = len(cases) + chk.cov.get("forced_schedule_runs", 0)
    # ---- decide
    chk.notes["seq_correspondence_first_diff"] = sdiff
    chk.notes["conc_correspondence_first_diff"] = cdiff
    for kinds, ops, nall, mm in stale:
        small = shrink(ops, lambda c: stale_check(kinds, c, nall) is not None)
        mm = stale_check(kinds, small, nall)
        last_edit = next((o[0] for o in reversed(small) if o[0] in EDIT_KEY), "seteq")
        if any(f.key == EDIT_KEY[last_edit] for f in chk.findings):
            continue
        chk.add_finding(EDIT_KEY[last_edit],
                        f"after {[op_show(o) for o in small]}: e{mm['element']}(t_{mm['k']}) = {from_fbits(mm['after_history']) if len(mm['after_history']) == 16 else mm['after_history']}, "
                        f"a freshly built model with the same definitions yields {from_fbits(mm['fresh_model']) if len(mm['fresh_model']) == 16 else mm['fresh_model']}",
                        {"kind": "history", "kinds": kinds, "ops": small, "nall": nall, "mismatch": mm})
    for fact, key, txt, ops_ in (("init", "stale-initial-value", "probe: k = s*2; k(t_2); s.initial_value = 10.0; k(t_2) is the old value",
                                  (["s", "o"], [("seteq", 0, ("L", 2.0)), ("setinit", 0, ("L", 1.0)), ("seteq", 1, ("B", 2, ("R", 0), ("L", 2.0))),
                                                ("eval", 1, 2), ("setinit", 0, ("L", 10.0))], 2)),
                                 ("add", "stale-add-equation", "probe: k = c*3; k(t_0); model.add_equation('c', lambda t: 5.0); k(t_0) is the old value",
                                  (["c", "o"], [("seteq", 0, ("L", 2.0)), ("seteq", 1, ("B", 2, ("R", 0), ("L", 3.0))), ("eval", 1, 0),
                                                ("addeq", 0, ("L", 5.0))], 2))):
        if not facts[fact] and not any(f.key == key for f in chk.findings):
            chk.add_finding(key, txt, {"kind": "history", "kinds": ops_[0], "ops": ops_[1], "nall": ops_[2]})
    if amb is not None:
        system, pre, a = amb
        chk.add_finding("memoize-race-stochastic",
                        f"system {system[0]} ({[op_show(o) for o in system[2]]}), workers for {['e%d' % n for n in system[3]]}, pre-emptions "
                        f"(line event -> thread) {pre}: {a}",
                        {"kind": "schedule", "system": system[0], "preempt": {str(k): v for k, v in pre.items()}, "observed": a})
    elif not facts["first"]:
        chk.add_finding("memoize-race-stochastic", "probe: a second miss of one stochastic key while the first is being computed returns a different value",
                        {"kind": "schedule", "system": "race2", "preempt": {"3": 1}})
    if not ok:
        chk.add_finding("obligation", f"proof obligations of C08 no longer check: {why}",
                        {"theorem": "Bptk.C08.Gen.holds / Bptk.Props.C08", "detail": why}, found_input=False)
    if sdiff is not None and not stale:
        chk.add_finding("correspondence", f"model and implementation disagree (histories) at protocol line {sdiff}: request {sreq[sdiff]!r}",
                        {"correspondence": "Drive/C08 vs BPTK_Py Model (edit/evaluate histories)", "line": sdiff,
                         "request_context": sreq[max(0, sdiff - 25):sdiff + 1], "model": smodel[sdiff] if sdiff < len(smodel) else None,
                         "impl": sreal[sdiff] if sdiff < len(sreal) else None}, found_input=False)
    if cdiff is not None and amb is None:
        chk.add_finding("correspondence", f"model and implementation disagree (forced schedule) at protocol line {cdiff}: {cmeta[cdiff] if cdiff < len(cmeta) else None}",
                        {"correspondence": "Drive/C08 conc vs SdSimulation worker threads", "line": cdiff, "case": cmeta[cdiff] if cdiff < len(cmeta) else None,
                         "request": creq[cdiff] if cdiff < len(creq) else None, "model": cmodel[cdiff] if cdiff < len(cmodel) else None,
                         "impl": cexp[cdiff] if cdiff < len(cexp) else None}, found_input=False)


def _tuplify(x):
    return tuple(_tuplify(y) for y in x) if isinstance(x, list) else x


def replay(path):
    quiet_bptk_logging()
    sys.setrecursionlimit(5000)
    r = json.load(open(path))["replay"]
    if r.get("kind") == "history":
        ops = [_tuplify(o) for o in r["ops"]]
        print("history:", [op_show(o) for o in ops])
        mm = stale_check(r["kinds"], ops, r["nall"])
        print("mismatch with a freshly built model on the current tree:", mm)
        return 1 if mm else 0
    if r.get("kind") == "schedule":
        system = next(s for s in conc_systems() if s[0] == r["system"])
        pre = {int(k): v for k, v in r["preempt"].items()}
        bad = None
        for p in [pre] + [{i: 1} for i in range(12)]:
            obs = run_forced(system, p)
            bad = ambiguity(obs)
            if bad:
                print("system", system[0], "pre-emptions", p, "->", bad)
                break
        if not bad:
            print("no ambiguity under the stored schedule (nor under the 12 single pre-emptions tried)")
        return 1 if bad else 0
    print("replay names a proof obligation / correspondence stream:", r)
    return 1
