"""C08 — memoised results are never stale or ambiguous.

probes (3 mechanism facts) -> Gen obligations; correspondence (a) edit/evaluate histories on real SD-DSL models
vs Drive/C08 (values and memo contents), (b) forced schedules of the per-equation worker threads of SdSimulation
(sys.settrace cooperative scheduler, one switch point per source line of Model.memoize) vs the interleaving
machine; reference checks on the real code: stale = differs from a freshly built model; ambiguous = two values
handed out for one (element, time) in one run."""
import importlib.util, itertools, json, os, random as _pyrandom, re, sys, threading
from common import *

START, DT, KMAX = 1.0, 0.5, 3           # grid t_k = 1.0 + 0.5 k (exact in binary)
LITS = [2.0, 3.0, 0.5, 1.5, 4.0, 0.25, 10.0]
# wave 7: value kinds of a definition — the falsy 0.0 and 0, negative numbers, Python ints (never used as divisors, and no
# ints as stock initial values: the setter only accepts floats, constants and converters)
VALS = LITS + [0.0, 0, -1.5, 3, -2]
VAL_STATS = {}


def pick_val(rng, allow_int=True):
    v = rng.choice(VALS)
    if isinstance(v, int) and not allow_int:
        v = float(v)
    k = ("zero" if v == 0 else "negative" if v < 0 else "positive") + ("-int" if isinstance(v, int) else "")
    VAL_STATS[k] = VAL_STATS.get(k, 0) + 1
    return v
OPSYM = {0: "+", 1: "-", 2: "*", 3: "/"}
LEANKIND = {"s": "s", "f": "f", "o": "o", "c": "o", "b": "o"}
# graphical functions (`model.points`): x ascending; table i is the default content of points["p<i>"] for i < NTAB
TABLES = [[[0.0, 0.0], [2.0, 4.0], [6.0, 5.0]], [[0.0, 10.0], [1.0, 0.0]],
          [[-4.0, -1.0], [0.0, 0.0], [8.0, 2.0], [16.0, 2.0]], [[1.0, 1.0], [3.0, 9.0]], [[0.0, 3.0], [5.0, 3.5], [7.0, -2.0]]]
NTAB = 2
VEC_DEFAULTS = [1.0, 2.0, 0.5, 3.0, 0.25, 4.0]
# wave 5: element names as modellers write them — plain identifiers, module-qualified names (a dot), names with a
# blank, arrayed members `name[i]` (brackets); a name matcher such as \w+ only sees the first kind
NAME_FORMS = [("plain", "e%d"), ("dotted", "mod.e%d"), ("blank", "e %d")]
VEC_FORMS = [("member", "v%d"), ("dotted-member", "sub.v%d"), ("blank-member", "v %d")]
NAME_STATS = {}


def elem_name(n):
    kind, fmt = NAME_FORMS[n % len(NAME_FORMS)]
    return kind, fmt % n


# ------------------------------------------------------------------ expressions
# ('L', x) | ('R', n) | ('B', op, a, b) | ('X',) | ('K', p, e) = lookup(e, "p<p>")     (left operand of B is never a literal)
# vector templates (wave 2): ('V', g) = the arrayed element whose first member has flat id g
def enc(e):
    if e[0] == "L": return "L" + fbits(e[1])
    if e[0] == "R": return "R%d" % e[1]
    if e[0] == "X": return "X"
    if e[0] == "K": return "K%d,%s" % (e[1], enc(e[2]))
    return "B%d,%s,%s" % (e[1], enc(e[2]), enc(e[3]))


def show(e):
    if e[0] == "L": return repr(e[1])
    if e[0] == "R": return "e%d" % e[1]
    if e[0] == "V": return "v%d" % e[1]
    if e[0] == "X": return "random()"
    if e[0] == "K": return "lookup(%s, 'p%d')" % (show(e[2]), e[1])
    return "(%s %s %s)" % (show(e[2]), OPSYM[e[1]], show(e[3]))


def dsl(e, els, vecs=None):
    """the SD-DSL object a modeller would write"""
    from BPTK_Py import sd_functions as sd
    if e[0] == "L": return e[1]
    if e[0] == "R": return els[e[1]]
    if e[0] == "V": return vecs[e[1]]
    if e[0] == "X": return sd.random(0, 1)
    if e[0] == "K": return sd.lookup(dsl(e[2], els, vecs), "p%d" % e[1])
    a, b = dsl(e[2], els, vecs), dsl(e[3], els, vecs)
    return a + b if e[1] == 0 else a - b if e[1] == 1 else a * b if e[1] == 2 else a / b


def raw(e, names=None):
    """python source for model.add_equation (fully parenthesised, own renderer)"""
    if e[0] == "L": return repr(e[1])
    if e[0] == "R": return "model.memoize('%s',t)" % (names[e[1]] if names and e[1] < len(names) else elem_name(e[1])[1])
    if e[0] == "X": return "random.uniform(0,1)"
    if e[0] == "K": return "model._lookup(%s,'p%d')" % (raw(e[2], names), e[1])
    return "((%s) %s (%s))" % (raw(e[2], names), OPSYM[e[1]], raw(e[3], names))


def refs(e):
    if e[0] == "R": return {e[1]}
    if e[0] == "B": return refs(e[2]) | refs(e[3])
    if e[0] == "K": return refs(e[2])
    return set()


def inst(e, i):
    """member i of a vector template: ('V', g) -> ('R', g+i)"""
    if e[0] == "V": return ("R", e[1] + i)
    if e[0] == "B": return ("B", e[1], inst(e[2], i), inst(e[3], i))
    if e[0] == "K": return ("K", e[1], inst(e[2], i))
    return e


NEG_ZERO, POS_ZERO = "8000000000000000", "0000000000000000"


def cz(x):
    """canonical sign of zero: a definition written with Python ints is evaluated in int arithmetic (`(-2) * 0` is the int 0, `max(0, x)`
    returns the int 0), which has no -0; the model computes in doubles. The sign of a zero is not part of any value compared here
    (no generated expression divides by an element)."""
    return x.replace(NEG_ZERO, POS_ZERO) if isinstance(x, str) else x


def group_of(kinds, n):
    """(first flat id, size) of the vector flat id n belongs to, or None.  kinds entries: 'o' | 'o:3' (member of the
    vector whose first member has flat id 3)."""
    k = kinds[n]
    if ":" not in k:
        return None
    g = int(k.split(":")[1])
    return g, sum(1 for x in kinds if x.endswith(":%d" % g))


def tab_hex(ti):
    return ",".join("%s:%s" % (fbits(x), fbits(y)) for x, y in TABLES[ti])


# ------------------------------------------------------------------ real side
class Real:
    def __init__(self, kinds):
        from BPTK_Py import Model
        from BPTK_Py.scenariomanager.scenario import SimulationScenario
        self.kinds = kinds
        self.m = Model(starttime=START, stoptime=START + KMAX * DT, dt=DT, name="c08")
        mk = {"s": self.m.stock, "f": self.m.flow, "o": self.m.converter, "c": self.m.constant, "b": self.m.biflow}
        self.els, self.names, self.vecs, self.setup = [], [], {}, []
        for n, k in enumerate(kinds):
            grp = group_of(kinds, n)
            if grp is None:
                nk, nm = elem_name(n)
                NAME_STATS[nk] = NAME_STATS.get(nk, 0) + 1
                self.els.append(mk[k](nm)); self.names.append(nm)
                continue
            g, size = grp
            vk, vfmt = VEC_FORMS[g % len(VEC_FORMS)]
            NAME_STATS[vk] = NAME_STATS.get(vk, 0) + 1
            if n == g:          # arrayed element: the DSL creates one model element per member, named <parent>[i]
                par = mk[k[0]](vfmt % g)
                defaults = [VEC_DEFAULTS[(g + i) % len(VEC_DEFAULTS)] for i in range(size)]
                par.setup_vector(size, defaults)
                self.vecs[g] = par
                for i in range(size):
                    self.setup.append(("setinit" if k[0] == "s" else "seteq", g + i, ("L", defaults[i])))
            self.els.append(self.vecs[g][n - g]); self.names.append((vfmt % g) + "[%d]" % (n - g))
        self.ids = {nm: i for i, nm in enumerate(self.names)}
        for p in range(NTAB):
            self.m.points["p%d" % p] = [list(x) for x in TABLES[p]]
        self.sc = SimulationScenario({}, "sc", self.m, "sm")
        self.sc.constants = {}

    def new_lines(self):
        """protocol lines that bring the Lean model to the state of the freshly constructed real model"""
        return (["new %s %s" % (fbits(DT), ",".join(LEANKIND[k[0]] for k in self.kinds))] +
                ["setpoints %d %s" % (p, tab_hex(p)) for p in range(NTAB)] + [op_line(o) for o in self.setup])

    def name(self, n):
        if n < len(self.names):
            return self.names[n]
        nm = elem_name(n)[1]          # an equation that exists only through add_equation
        self.ids.setdefault(nm, n)
        return nm

    def apply(self, op):
        k = op[0]
        if k == "seteq":
            self.els[op[1]].equation = dsl(op[2], self.els)
        elif k == "arrset":       # v[i] = expr  (ArrayedEquation.__setitem__)
            g, _ = group_of(self.kinds, op[1])
            self.vecs[g][op[1] - g] = dsl(op[2], self.els)
        elif k == "veceq":        # v.equation = <expression over arrayed elements>: one equation per member
            self.vecs[op[1]].equation = dsl(op[2], self.els, self.vecs)
        elif k == "setinit":
            self.els[op[1]].initial_value = dsl(op[2], self.els)
        elif k == "addeq":
            self.m.add_equation(self.name(op[1]), eval("lambda t: " + raw(op[2], self.names), {"model": self.m, "random": _pyrandom}))
        elif k == "setpoints":    # plain dictionary write: no cache reset
            self.m.points["p%d" % op[1]] = [list(x) for x in TABLES[op[2]]]
        elif k == "scpoints":     # the scenario route: settings -> setup_points -> reset of the scenario cache
            self.sc.configure_settings({"points": {"p%d" % op[1]: [list(x) for x in TABLES[op[2]]]}})
            self.sc.setup_points()
            self.sc.reset_cache()
        elif k == "scconst":      # scenario constants: settings -> setup_constants (raw writes to model.equations) -> scenario cache reset
            self.sc.constants[self.name(op[1])] = op[2]
            self.sc.setup_constants()
            self.sc.reset_cache()
        elif k == "reject":       # a call the code refuses; the model must be as before
            do_reject(self.m, op[1])
        elif k == "reset":
            self.m.reset_cache()
        elif k == "sreset":
            self.sc.reset_cache()
        elif k == "eval":
            return self.value(op[1], op[2])
        return None

    def value(self, n, k):
        try:
            v = self.m.evaluate_equation(self.name(n), START + k * DT)
            return "nan" if v != v else cz(fbits(v))
        except RecursionError:
            return "none"
        except Exception as e:  # noqa
            return "ERR:" + type(e).__name__

    def memo(self):
        out = []
        for name, d in self.m.memo.items():
            if name in self.ids:
                n = self.ids[name]
            else:
                continue              # the parent entry of an arrayed element holds no values
            for t, v in d.items():
                out.append((n, int(round((t - START) / DT)), "nan" if v != v else fbits(v)))
        return ",".join("%d.%d=%s" % x for x in sorted(out))


def op_line(op):
    k = op[0]
    if k in ("seteq", "setinit", "addeq"): return "%s %d %s" % (k, op[1], enc(op[2]))
    if k == "arrset": return "seteq %d %s" % (op[1], enc(op[2]))
    if k == "setpoints": return "setpoints %d %s" % (op[1], tab_hex(op[2]))
    if k == "reset": return "reset"
    if k == "sreset": return "sreset"
    return "eval %d %d" % (op[1], op[2])


def op_lines(op, kinds, scpts=None):
    """the model-level operations one API call amounts to.  `scpts`: the scenario's own points settings so far
    (`setup_points` writes ALL of them into model.points, not only the one just configured)."""
    if op[0] == "veceq":
        return ["seteq %d %s" % (op[1] + i, enc(inst(op[2], i))) for i in range(group_of(kinds, op[1])[1])]
    if op[0] == "scpoints":
        if scpts is None:
            scpts = {}
        scpts[op[1]] = op[2]
        return ["setpoints %d %s" % (p, tab_hex(ti)) for p, ti in scpts.items() if not isinstance(p, tuple)] + ["sreset"]
    if op[0] == "reject":
        return ["rejected"]
    if op[0] == "scconst":        # setup_constants writes ALL of the scenario's constants so far, then the scenario cache is reset
        if scpts is None:
            scpts = {}
        scpts[("c", op[1])] = op[2]
        return ["raweq %d %s" % (p[1], enc(("L", v))) for p, v in scpts.items() if isinstance(p, tuple)] + ["sreset"]
    return [op_line(op)]


def history_lines(ops, kinds):
    """[(op, protocol lines)] of a whole history (scenario points settings accumulate)"""
    scpts = {}
    return [(o, op_lines(o, kinds, scpts)) for o in ops]


EDITS = ("seteq", "setinit", "addeq", "arrset", "veceq", "setpoints", "scpoints", "scconst")


def settled(ops):
    """Lean `settled`: no evaluation (the final reads included) between a raw points write and the next operation
    that empties the memo."""
    d = False
    for o in ops:
        if o[0] == "setpoints": d = True
        elif o[0] == "reject": pass
        elif o[0] == "eval":
            if d: return False
        else: d = False
    return not d


def op_show(op):
    k = op[0]
    if k == "seteq": return "e%d.equation = %s" % (op[1], show(op[2]))
    if k == "arrset": return "v[..] (flat id %d) = %s" % (op[1], show(op[2]))
    if k == "veceq": return "v%d.equation = %s" % (op[1], show(op[2]))
    if k == "setpoints": return "model.points['p%d'] = %s" % (op[1], TABLES[op[2]])
    if k == "reject": return "REJECTED call (%s), exception caught" % op[1]
    if k == "scconst": return "scenario constant e%d = %r; setup_constants(); scenario.reset_cache()" % (op[1], op[2])
    if k == "scpoints": return "scenario points p%d = %s; setup_points(); reset_cache()" % (op[1], TABLES[op[2]])
    if k == "setinit": return "e%d.initial_value = %s" % (op[1], show(op[2]))
    if k == "addeq": return "model.add_equation('e%d', lambda t: %s)" % (op[1], show(op[2]))
    if k == "reset": return "model.reset_cache()"
    if k == "sreset": return "scenario.reset_cache()"
    return "e%d(t_%d)" % (op[1], op[2])


EDIT_KEY = {"setinit": "stale-initial-value", "addeq": "stale-add-equation", "seteq": "stale-equation-setter",
            "arrset": "stale-equation-setter", "veceq": "stale-equation-setter", "setpoints": "stale-points-after-reset",
            "scpoints": "stale-scenario-points", "scconst": "stale-scenario-constants", "reset": "stale-after-reset", "sreset": "stale-after-reset"}


def stale_check(kinds, ops, nall):
    """property, directly on the real code: after `ops`, every element at every grid point equals what a freshly
    built model with the same edits (and no evaluation in between) yields.  Returns (first mismatch | None)."""
    a = Real(kinds)
    for op in ops:
        a.apply(op)
    b = Real(kinds)
    for op in ops:
        if op[0] in EDITS:
            b.apply(op)
    for n in range(nall):
        for k in range(KMAX + 1):
            va, vb = a.value(n, k), b.value(n, k)
            if va != vb:
                return {"element": n, "k": k, "after_history": va, "fresh_model": vb}
    return None


def shrink(ops, fails):
    ops = list(ops)
    changed = True
    while changed:
        changed = False
        for i in range(len(ops)):
            cand = ops[:i] + ops[i + 1:]
            if cand and fails(cand):
                ops, changed = cand, True
                break
    return ops


# ------------------------------------------------------------------ (a'') aggregates over arrayed constants (wave 6)
AGG_KINDS = [("sum", lambda v: v.arr_sum()), ("prod", lambda v: v.arr_prod()), ("mean", lambda v: v.arr_mean()),
             ("median", lambda v: v.arr_median()), ("stddev", lambda v: v.arr_stddev()), ("rank1", lambda v: v.arr_rank(1)),
             ("rank2", lambda v: v.arr_rank(2))]
AGG_INIT = {"w": [1.0, 2.0, 4.0], "m": [[1.0, 2.0], [3.0, 5.0]], "ov": [0.5, 1.5], "c": 2.0}
AGG_VALUES = [7.0, 0.25, 3.0, 10.0, 1.5]


def agg_build(vals):
    """constant vector `w` (3), constant matrix `mod.m` (2x2), converter vector `o v` (2), constant `c`; one converter per
    (aggregate, array) — names with blanks —, and a downstream chain d = sum(w)*2 + mean(m), flow f = prod(o v)*c,
    stock s (initial value = converter rank1(w)) fed by f."""
    from BPTK_Py import Model
    m = Model(starttime=START, stoptime=START + KMAX * DT, dt=DT, name="c08agg")
    c = m.constant("c"); c.equation = vals["c"]
    w = m.constant("w"); w.setup_vector(3, list(vals["w"]))
    mm = m.constant("mod.m"); mm.setup_matrix([2, 2], [list(r) for r in vals["m"]])
    ov = m.converter("o v"); ov.setup_vector(2, list(vals["ov"]))
    names = ["c"] + ["w[%d]" % i for i in range(3)] + ["mod.m[%d][%d]" % (i, j) for i in range(2) for j in range(2)] + ["o v[0]", "o v[1]"]
    aggs = {}
    for kn, f in AGG_KINDS:
        for vn, v in (("w", w), ("mod.m", mm), ("o v", ov)):
            a = m.converter("agg %s %s" % (kn, vn)); a.equation = f(v)
            aggs[(kn, vn)] = a; names.append(a.name)
    d = m.converter("d"); d.equation = aggs[("sum", "w")] * 2.0 + aggs[("mean", "mod.m")]
    fl = m.flow("f"); fl.equation = aggs[("prod", "o v")] * c
    st = m.stock("s"); st.initial_value = aggs[("rank1", "w")]; st.equation = fl
    names += ["d", "f", "s"]
    return m, {"w": w, "m": mm, "ov": ov, "c": c}, names


def agg_apply(m, h, vals, op):
    """apply one operation to the real model and to the record of the current definitions"""
    k = op[0]
    if k == "wset": h["w"][op[1]] = op[2]; vals["w"][op[1]] = op[2]                       # w[i] = x
    elif k == "wconst": m.constant("w[%d]" % op[1]).equation = op[2]; vals["w"][op[1]] = op[2]
    elif k == "mset": h["m"][op[1]][op[2]] = op[3]; vals["m"][op[1]][op[2]] = op[3]         # m[i][j] = x
    elif k == "mconst": m.constant("mod.m[%d][%d]" % (op[1], op[2])).equation = op[3]; vals["m"][op[1]][op[2]] = op[3]
    elif k == "ovset": h["ov"][op[1]] = op[2]; vals["ov"][op[1]] = op[2]
    elif k == "ovconv": m.converter("o v[%d]" % op[1]).equation = op[2]; vals["ov"][op[1]] = op[2]
    elif k == "cset": h["c"].equation = op[1]; vals["c"] = op[1]
    elif k == "reset": m.reset_cache()
    elif k == "eval": m.evaluate_equation(op[1], START + op[2] * DT)


def agg_read(m, names):
    out = {}
    for nm in names:
        for k in range(KMAX + 1):
            try:
                v = m.evaluate_equation(nm, START + k * DT)
                out[(nm, k)] = "nan" if v != v else cz(fbits(v))
            except Exception as e:  # noqa
                out[(nm, k)] = "ERR:" + type(e).__name__
    return out


def agg_check(ops):
    """property on the real code: after `ops` every element equals what a model freshly built from the FINAL definitions
    yields; the function strings of the aggregates do not change when a member is re-defined."""
    import copy
    vals = copy.deepcopy(AGG_INIT)
    m, h, names = agg_build(vals)
    for op in ops:
        agg_apply(m, h, vals, op)
    a = agg_read(m, names)
    fresh, _, _ = agg_build(vals)
    b = agg_read(fresh, names)
    for key in a:
        if a[key] != b[key]:
            nm = key[0]
            return {"element": nm, "k": key[1], "after_history": a[key], "fresh_model": b[key],
                    "function_string": m.equations and (m.converters[nm].function_string if nm in m.converters else None)}
    return None


def agg_show(op):
    k = op[0]
    return {"wset": lambda: "w[%d] = %r" % (op[1], op[2]), "wconst": lambda: "model.constant('w[%d]').equation = %r" % (op[1], op[2]),
            "mset": lambda: "m[%d][%d] = %r" % (op[1], op[2], op[3]),
            "mconst": lambda: "model.constant('mod.m[%d][%d]').equation = %r" % (op[1], op[2], op[3]),
            "ovset": lambda: "ov[%d] = %r" % (op[1], op[2]), "ovconv": lambda: "model.converter('o v[%d]').equation = %r" % (op[1], op[2]),
            "cset": lambda: "c.equation = %r" % op[1], "reset": lambda: "model.reset_cache()",
            "eval": lambda: "%s(t_%d)" % (op[1], op[2])}[k]()


def agg_cases(chk):
    """every single member edit through both API routes after everything was evaluated (exhaustive), plus seeded
    histories of several edits, reads and resets"""
    reads = [("eval", "d", 2), ("eval", "s", 3), ("eval", "agg stddev mod.m", 1), ("eval", "agg rank2 w", 0), ("eval", "agg median o v", 2)]
    singles = ([(r, i, 7.0) for r in ("wset", "wconst") for i in range(3)] +
               [(r, i, j, 7.0) for r in ("mset", "mconst") for i in range(2) for j in range(2)] +
               [(r, i, 7.0) for r in ("ovset", "ovconv") for i in range(2)] + [("cset", 7.0)])
    out = [reads + [e] for e in singles] + [[e] for e in singles]
    rng = chk.rng.fork("c08-agg")
    for _ in range(60 if chk.quick else 800):
        ops = []
        for _ in range(rng.range(2, 8)):
            r = rng.below(10)
            x = rng.choice(AGG_VALUES)
            if r < 3: ops.append(rng.choice(reads))
            elif r < 4: ops.append(("reset",))
            elif r < 6: ops.append((rng.choice(["wset", "wconst"]), rng.below(3), x))
            elif r < 8: ops.append((rng.choice(["mset", "mconst"]), rng.below(2), rng.below(2), x))
            elif r < 9: ops.append((rng.choice(["ovset", "ovconv"]), rng.below(2), x))
            else: ops.append(("cset", x))
        out.append(ops)
    return out


def run_agg(chk):
    first, n, dist = None, 0, {}
    for ops in agg_cases(chk):
        n += 1
        for o in ops:
            dist[o[0]] = dist.get(o[0], 0) + 1
        chk.case(("agg", tuple(map(tuple, ops))), nontrivial=any(o[0] == "eval" for o in ops) and any(o[0] not in ("eval", "reset") for o in ops))
        if first is None:
            mm = agg_check(ops)
            if mm is not None:
                first = (ops, mm)
    chk.cov["aggregate_family"] = {"histories": n, "operations": dist,
                                   "aggregates": [k for k, _ in AGG_KINDS], "arrays": ["constant vector w[3]", "constant matrix mod.m[2][2]", "converter vector 'o v'[2]"]}
    return first


def probe_reset_clears_all_stores():
    """every reset path clears every store the lookup consults: the dict-valued attributes of the model that
    `Model.memoize` reads (names of its code object) are listed, filled by evaluations, and must hold no value after
    Model.reset_cache, SimulationScenario.reset_cache and add_equation; plus the behaviour: a scenario constant changed
    + scenario cache reset is seen by a dependent read at the same time as before."""
    from BPTK_Py import Model
    from BPTK_Py.scenariomanager.scenario import SimulationScenario
    def mk():
        m = Model(starttime=START, stoptime=START + KMAX * DT, dt=DT, name="c08s")
        c = m.constant("c"); c.equation = 2.0
        k = m.converter("k"); k.equation = c * 3.0
        for t in (START, START + DT, START):
            m.evaluate_equation("k", t)
        return m
    def holds_values(store):
        return any((bool(v) if isinstance(v, (dict, list, set)) else v is not None) for v in store.values())
    m = mk()
    names = [a for a in Model.memoize.__code__.co_names if isinstance(getattr(m, a, None), dict) and a != "equations"]
    report, ok = {"stores": names}, True
    paths = {"Model.reset_cache": lambda m: m.reset_cache(),
             "SimulationScenario.reset_cache": lambda m: SimulationScenario({}, "sc", m, "sm").reset_cache(),
             "Model.add_equation": lambda m: m.add_equation("c", lambda t: 5.0)}
    for pn, f in paths.items():
        m = mk()
        f(m)
        left = [a for a in names if holds_values(getattr(m, a))]
        report[pn] = "all empty" if not left else "values left in " + ",".join(left)      # informative only
        # the fact is behavioural: after the raw write `equations['c'] = 5` (what scenario.setup_constants does) and this
        # reset path, a dependent read at the same times as before must see the new definition
        m = mk()
        if pn != "Model.add_equation":
            m.equations["c"] = lambda t: 5.0
        f(m)
        got = [m.evaluate_equation("k", t) for t in (START, START + DT, START)]
        report[pn + ": k after c := 5"] = got
        ok = ok and got == [15.0, 15.0, 15.0]
    return ok, report


def probe_operands_through_memo():
    """re-define an operand and check that the function string of its user is unchanged AND the user's value follows —
    for an aggregate over a constant vector and for a plain product with a constant."""
    from BPTK_Py import Model
    m = Model(starttime=START, stoptime=START + DT, dt=DT, name="c08o")
    w = m.constant("w"); w.setup_vector(2, [1.0, 2.0])
    c = m.constant("c"); c.equation = 2.0
    x = m.converter("x"); x.equation = w.arr_sum()
    y = m.converter("y"); y.equation = w.arr_mean()
    k = m.converter("k"); k.equation = c * 3.0
    fs = (x.function_string, y.function_string, k.function_string)
    before = (m.evaluate_equation("x", START), m.evaluate_equation("y", START), m.evaluate_equation("k", START))
    w[1] = 5.0
    m.constant("w[0]").equation = 3.0
    c.equation = 5.0
    after = (m.evaluate_equation("x", START), float(m.evaluate_equation("y", START)), m.evaluate_equation("k", START))
    # behavioural: the users' values follow the re-definitions (whether the code re-generates the users' function strings
    # or reads the operands through the memo is its own business; layout of the text — quotes, spaces — even more so)
    return before[0] == 3.0 and after == (8.0, 4.0, 15.0)


# ------------------------------------------------------------------ (a3) through the bptk object (wave 7)
# request lists: most of them EXCLUDE the elements that are read at a single time only (the constant `init v` and the
# converter `i conv` that give the stocks their initial values)
BP_SETS = [["k", "s"], ["s", "k"], ["s"], ["k", "mod.c0", "r x"], ["r x", "s", "k"], ["mod.c0"], ["s2", "s"], ["s2"], ["out", "s"],
           ["s", "init v"], ["i conv", "s2"]]
BP_CONSTS = [{"mod.c0": 5.0}, {"mod.c0": 0.0, "c 1": 7.0}, {"c 1": -1.5}, {"mod.c0": 3, "c 1": 0}, {}, {"init v": 50.0},
             {"init v": 0.0, "mod.c0": 3.0}, {"init v": -4, "c 1": 2.0}]
BP_NAMES = ("k", "s", "mod.c0", "c 1", "r x", "init v", "i conv", "s2", "out")
BP_FRESH_EQS = ["k", "s", "mod.c0", "s2", "out", "init v", "i conv"]


def bp_model(name="c08bp"):
    """constants `mod.c0` = 2, `c 1` = 1, `init v` = 10; k = mod.c0*3 + c 1; `i conv` = init v*0.5 + c 1; stock s' = k (s0 = init v);
    stock s2' = c 1 (s2_0 = i conv); out = s*mod.c0; `r x` = random(0,1) + c 1"""
    from BPTK_Py import Model
    from BPTK_Py import sd_functions as sd
    m = Model(starttime=START, stoptime=START + KMAX * DT, dt=DT, name=name)
    c0 = m.constant("mod.c0"); c0.equation = 2.0
    c1 = m.constant("c 1"); c1.equation = 1.0
    k = m.converter("k"); k.equation = c0 * 3.0 + c1
    iv = m.constant("init v"); iv.equation = 10.0
    ic = m.converter("i conv"); ic.equation = iv * 0.5 + c1
    s = m.stock("s"); s.initial_value = iv; s.equation = k              # initial value = a constant (read at the start time only)
    s2 = m.stock("s2"); s2.initial_value = ic; s2.equation = c1          # initial value = a converter over that constant
    out = m.converter("out"); out.equation = s * c0
    r = m.converter("r x"); r.equation = sd.random(0, 1) + c1
    return m


def frame_bits(df):
    cols = {}
    for c in df.columns:
        nm = next((n for n in BP_NAMES if c == n or c.endswith("_" + n)), c)
        cols[nm] = [("nan" if v != v else cz(fbits(v))) for v in df[c]]
    return cols, [repr(float(t)) for t in df.index]


_bp_fresh = {}


def bp_fresh(consts):
    """what a bptk object set up from scratch with these scenario constants reports (deterministic columns)"""
    key = json.dumps(consts, sort_keys=True)
    if key not in _bp_fresh:
        import BPTK_Py
        b = BPTK_Py.bptk()
        try:
            b.register_model(bp_model(), scenario_manager="smBp", scenario={"sc": {"constants": dict(consts)}})
            df = b.run_scenarios(scenario_managers=["smBp"], scenarios=["sc"], equations=list(BP_FRESH_EQS), series_names={})
            _bp_fresh[key] = frame_bits(df)
        finally:
            b.destroy()
    return _bp_fresh[key]


def bp_run(script, pre_evaluate):
    """one bptk object, scenario `sc` (constants as registered) next to `base`; script of
    ('run', equation list) | ('consts', dict) = change the scenario's constants + reset_scenario_cache |
    ('reset',) | ('mutate',) = overwrite the frame returned by the previous run | ('session', n) = n steps of a session.
    Returns the first violation of: every run equals a freshly set up bptk with the constants in force; a repeated run and
    a run with another equation list/order agree on every common column (the stochastic one included) until the next
    reset; frames handed out earlier do not influence later runs."""
    import BPTK_Py
    m = bp_model()
    if pre_evaluate:                      # the model was used before it was registered
        for nm in ("k", "s", "r x"):
            m.evaluate_equation(nm, START + 2 * DT)
    consts = {"mod.c0": 5.0}
    b = BPTK_Py.bptk()
    try:
        b.register_model(m, scenario_manager="smBp", scenario={"base": {}, "sc": {"constants": dict(consts)}})
        seen, last = {}, None             # column -> bits since the last reset; last returned frame
        for i, op in enumerate(script):
            if op[0] == "run":
                df = b.run_scenarios(scenario_managers=["smBp"], scenarios=["sc"], equations=list(op[1]), series_names={})
                cols, idx = frame_bits(df)
                fcols, fidx = bp_fresh(consts)
                if idx != fidx:
                    return {"step": i, "what": "index", "observed": idx, "fresh": fidx}
                for nm, bits in cols.items():
                    if nm in fcols and bits != fcols[nm]:
                        return {"step": i, "what": "column %s differs from a freshly set up bptk with constants %s" % (nm, consts),
                                "observed": [from_fbits(x) if len(x) == 16 else x for x in bits], "fresh": [from_fbits(x) for x in fcols[nm]]}
                    if nm in seen and seen[nm] != bits:
                        return {"step": i, "what": "column %s differs from the previous run of the same scenario (no reset in between)" % nm,
                                "observed": [from_fbits(x) for x in bits], "previous": [from_fbits(x) for x in seen[nm]]}
                    seen[nm] = bits
                last = df
            elif op[0] == "consts":
                sc = b.get_scenario("smBp", "sc")
                for k_, v_ in op[1].items():
                    sc.constants[k_] = v_
                    consts[k_] = v_
                b.reset_scenario_cache(scenario_manager="smBp", scenario="sc")
                seen = {}
            elif op[0] == "reset":
                b.reset_scenario_cache(scenario_manager="smBp", scenario="sc")
                seen = {}
            elif op[0] == "mutate" and last is not None:
                last.iloc[:, :] = 999.0
            elif op[0] == "session":
                b.begin_session(scenarios=["sc"], scenario_managers=["smBp"], equations=["k", "s"])
                for _ in range(op[1]):
                    b.run_step()
                b.end_session()           # end_session resets the scenario cache
                seen = {}
            elif op[0] == "sessionconst":     # constants given as session settings (begin_session configures the scenario and resets its cache)
                b.begin_session(scenarios=["sc"], scenario_managers=["smBp"], equations=["s", "s2"],
                                settings={"smBp": {"sc": {"constants": dict(op[1])}}})
                consts.update(op[1])
                fcols, _ = bp_fresh(consts)
                for j in range(op[2]):
                    r_ = b.run_step()
                    for nm in ("s", "s2"):
                        v = list(r_["smBp"]["sc"][nm].values())[0]
                        if fbits(v) != fcols[nm][j]:
                            return {"step": i, "what": "session step %d: %s differs from a freshly set up bptk with constants %s" % (j, nm, consts),
                                    "observed": v, "fresh": from_fbits(fcols[nm][j])}
                b.end_session()
                seen = {}
        return None
    finally:
        b.destroy()


def bp_show(op):
    return {"run": lambda: "run_scenarios(equations=%s)" % (list(op[1]),),
            "consts": lambda: "scenario.constants.update(%s); reset_scenario_cache()" % (op[1],),
            "reset": lambda: "reset_scenario_cache()", "mutate": lambda: "returned_frame.iloc[:, :] = 999.0",
            "session": lambda: "session of %d steps" % op[1],
            "sessionconst": lambda: "begin_session(settings: constants %s); %d steps; end_session()" % (op[1], op[2])}[op[0]]()


def bp_cases(chk):
    fixed = [
        [("run", ["k", "s"]), ("run", ["k", "s"]), ("run", ["s", "k"]), ("run", ["s"]), ("run", ["r x", "s", "k"]), ("run", ["k", "mod.c0", "r x"])],
        [("run", ["k", "s"]), ("mutate",), ("run", ["k", "s"]), ("run", ["s"])],
        [("run", ["s"]), ("consts", {"mod.c0": 0.0, "c 1": 7.0}), ("run", ["s", "k"]), ("consts", {"mod.c0": 3, "c 1": 0}), ("run", ["k", "s"]), ("run", ["s"])],
        [("run", ["k"]), ("session", 2), ("run", ["k", "s"]), ("consts", {"c 1": -1.5}), ("session", 3), ("run", ["s", "k"])],
        [("consts", {"mod.c0": 0.0}), ("run", ["k", "s", "mod.c0"]), ("reset",), ("run", ["mod.c0", "s"])],
        # the initial-value elements are never requested; their constants change through the scenario
        [("run", ["out", "s"]), ("run", ["out", "s"]), ("consts", {"mod.c0": 3.0, "init v": 50.0}), ("run", ["out", "s"]), ("run", ["s2"])],
        [("run", ["s2", "s"]), ("consts", {"init v": 0.0}), ("run", ["s2"]), ("run", ["s"]), ("consts", {"init v": -4, "c 1": 2.0}), ("run", ["s2", "s"])],
        [("run", ["s"]), ("sessionconst", {"init v": 50.0}, 2), ("run", ["s", "s2"]), ("sessionconst", {"init v": 7.0, "c 1": 0.0}, 3), ("run", ["s2"])],
        [("session", 1), ("consts", {"init v": 50.0}), ("session", 1), ("run", ["s"]), ("session", 2), ("run", ["s", "out"])],
    ]
    out = [(f, pre) for f in fixed for pre in (False, True)]
    rng = chk.rng.fork("c08-bptk")
    for _ in range(16 if chk.quick else 150):
        sc = []
        for _ in range(rng.range(3, 7)):
            r = rng.below(10)
            if r < 5: sc.append(("run", rng.choice(BP_SETS)))
            elif r < 7: sc.append(("consts", rng.choice(BP_CONSTS)))
            elif r < 8: sc.append(("reset",))
            elif r < 9: sc.append(("mutate",) if rng.chance(1, 2) else ("sessionconst", rng.choice(BP_CONSTS), rng.range(1, 3)))
            else: sc.append(("session", rng.range(1, 3)))
        sc.append(("run", rng.choice(BP_SETS)))
        out.append((sc, rng.chance(1, 2)))
    return out


def run_bptk_stream(chk):
    first, dist = None, {}
    for script, pre in bp_cases(chk):
        for o in script:
            dist[o[0]] = dist.get(o[0], 0) + 1
        dist["pre-evaluated model"] = dist.get("pre-evaluated model", 0) + int(pre)
        chk.case(("bptk", pre, json.dumps(script)), nontrivial=True)
        if first is None:
            bad = bp_run(script, pre)
            if bad is not None:
                first = (script, pre, bad)
    chk.cov["bptk_stream"] = dist
    return first


def models_isolated():
    """process-level state: two models with the same element names in one process"""
    from BPTK_Py import Model
    def mk(cv):
        m = Model(starttime=START, stoptime=START + KMAX * DT, dt=DT, name="iso")
        c = m.constant("c"); c.equation = cv
        k = m.converter("k"); k.equation = c * 3.0
        return m
    a, b = mk(2.0), mk(5.0)
    got = [a.evaluate_equation("k", START), b.evaluate_equation("k", START), a.evaluate_equation("k", START + DT), b.evaluate_equation("k", START + DT)]
    if got != [6.0, 15.0, 6.0, 15.0]:
        return {"what": "two models with the same element names, evaluated alternately", "observed": got, "expected": [6.0, 15.0, 6.0, 15.0]}
    # (a plain copy.deepcopy of a Model is not an API path: the lambdas keep pointing at the original; scenarios are cloned by
    #  ScenarioManagerSd.clone_model from the function strings — exercised by the bptk stream — and isolation of clones is C06's)
    return None


# ------------------------------------------------------------------ rejected API calls (wave 10)
REJECTS = ["vecstock-int", "vecconst-str", "veclen", "matlen", "const-type", "init-int", "unknown", "arr-index"]
_rej_counter = [0]


def do_reject(m, kind):
    """an API call the code rejects with an exception (caught here, as a notebook user's `try:` or a REPL would);
    returns the exception's type name, or None when the call was accepted. Scratch element names are unique per call."""
    _rej_counter[0] += 1
    nm = "rj %d.x" % _rej_counter[0]
    try:
        if kind == "vecstock-int": m.stock(nm).setup_vector(2, [1, 2])              # whole-number initial values of an arrayed stock
        elif kind == "vecconst-str": m.constant(nm).setup_vector(2, [1.0, "x"])      # a non-number in a constant vector
        elif kind == "veclen": m.converter(nm).setup_vector(3, [1.0])                # default list of the wrong length
        elif kind == "matlen": m.converter(nm).setup_matrix([2, 2], [[1.0, 2.0]])    # default matrix of the wrong shape
        elif kind == "const-type": m.constant(nm).equation = "text"                  # Constants only take numbers
        elif kind == "init-int": m.stock(nm).initial_value = 3                       # ints are not accepted as initial value
        elif kind == "unknown": m.evaluate_equation("no such element", START)
        elif kind == "arr-index": m.converter(nm)[0]                                 # indexing an element that is not arrayed
        return None
    except Exception as e:  # noqa
        return type(e).__name__


def probe_rejected_is_noop():
    """behavioural: elements evaluated, a rejected call (each kind), an edit of an element others depend on — the dependent
    must follow; also a reset through the model API."""
    from BPTK_Py import Model
    report, ok = {}, True
    for kind in REJECTS:
        m = Model(starttime=START, stoptime=START + KMAX * DT, dt=DT, name="c08r")
        c = m.constant("c"); c.equation = 2.0
        k = m.converter("k"); k.equation = c * 3.0
        s_ = m.stock("s"); s_.initial_value = c; s_.equation = k
        before = (m.evaluate_equation("k", START), m.evaluate_equation("s", START + DT))
        raised = do_reject(m, kind)
        c.equation = 5.0
        after = (m.evaluate_equation("k", START), m.evaluate_equation("s", START + DT))
        report[kind] = {"raised": raised, "k,s after c := 5": list(after)}
        ok = ok and before == (6.0, 5.0) and after == (15.0, 12.5)
    return ok, report


# ------------------------------------------------------------------ probes (mechanism facts)
def probe_initial_value():
    r = Real(["s", "o"])
    r.apply(("seteq", 0, ("L", 2.0))); r.apply(("setinit", 0, ("L", 1.0)))
    r.apply(("seteq", 1, ("B", 2, ("R", 0), ("L", 2.0))))
    r.value(1, 2)
    r.apply(("setinit", 0, ("L", 10.0)))
    return r.value(1, 2) == fbits(2.0 * (10.0 + 2 * DT * 2.0))


def probe_add_equation():
    r = Real(["c", "o"])
    r.apply(("seteq", 0, ("L", 2.0))); r.apply(("seteq", 1, ("B", 2, ("R", 0), ("L", 3.0))))
    r.value(1, 0)
    r.apply(("addeq", 0, ("L", 5.0)))
    return r.value(1, 0) == fbits(15.0)


def probe_first_store():
    """single-threaded emulation of `T0 miss, T1 miss+compute+store, T0 store`: the lambda of `r` re-enters
    memoize for its own key once.  True iff both calls return the same value and that value is the stored one."""
    from BPTK_Py import Model
    m = Model(starttime=START, stoptime=START + DT, dt=DT, name="c08p")
    state = {"n": 0, "inner": None}
    def fn(t):
        state["n"] += 1
        mine = float(state["n"])
        if state["n"] == 1:
            state["inner"] = m.memoize("r", t)
        return mine
    m.add_equation("r", fn)
    outer = m.memoize("r", START)
    return outer == state["inner"] == m.memo["r"][START]


def gen_lean(f):
    b = lambda x: "true" if x else "false"
    cfg = (f"def cfg : Cfg := {{ initialValueResetsCache := {b(f['init'])}, addEquationResetsCache := {b(f['add'])}, "
           f"memoizeFirstStoreWins := {b(f['first'])}, operandsThroughMemo := {b(f['operands'])}, resetClearsAllStores := {b(f['stores'])}, rejectedIsNoOp := {b(f['rejected'])} }}\n")
    if f["init"] and f["add"] and f["first"] and f["operands"] and f["stores"] and f["rejected"]:
        body = "theorem holds : C08_full cfg := C08_full_of_good cfg (by decide)\n#print axioms holds\n"
    else:
        thm = ("C08_witness_stale_init_full" if not f["init"] else
               "C08_witness_stale_add_full" if not f["add"] else
               "C08_witness_race_full" if not f["first"] else
               "C08_witness_baked_full" if not f["operands"] else
               "C08_witness_second_store_full" if not f["stores"] else "C08_witness_rejected_full")
        body = (f"theorem violated : ¬ C08_full cfg := {thm} cfg (by decide)\n#print axioms violated\n"
                "#print axioms C08_partial_evals\n#print axioms C08_deterministic_threads\n")
    # the `memoize` of XMILE-generated model classes (no edit API: only the store rule is a fact of its own)
    body += (f"def cfgX : Cfg := {{ initialValueResetsCache := true, addEquationResetsCache := true, "
             f"memoizeFirstStoreWins := {b(f['xfirst'])}, operandsThroughMemo := true, resetClearsAllStores := true, rejectedIsNoOp := true }}\n")
    if f["xfirst"]:
        body += "theorem holdsX : C08_conc cfgX := C08_stochastic_threads cfgX (by decide)\n#print axioms holdsX\n"
    else:
        body += ("theorem violatedX : ¬ C08_conc cfgX := C08_witness_race cfgX (by decide)\n#print axioms violatedX\n"
                 "#print axioms C08_deterministic_threads\n")
    return ("import Bptk.Props.C08\n/-! GENERATED by harness/props/c08.py from the code under test on every run — do not edit. -/\n"
            "namespace Bptk.C08.Gen\n" + cfg + body + "end Bptk.C08.Gen\n")


# ------------------------------------------------------------------ (a) history generation
def gen_expr(rng, allowed, depth=2):
    """additive chain of multiplicative terms; left operands are never literals."""
    if not allowed:
        return ("L", rng.choice(LITS))
    def atom(): return ("R", rng.choice(allowed))
    def term():
        r = rng.below(5)
        a = atom()
        if r == 4:                # graphical function of an element / of a scaled element (table looked up by name)
            return ("K", rng.below(NTAB), a if rng.chance(1, 2) else ("B", 2, a, ("L", rng.choice(LITS))))
        if r == 0: return a
        if r == 1: return ("B", 2, a, atom())
        if r == 2: return ("B", 2, a, ("L", rng.choice(LITS)))
        return ("B", 3, a, ("L", rng.choice(LITS)))
    e = term()
    for _ in range(rng.below(depth + 1)):
        e = ("B", rng.below(2), e, term() if rng.chance(3, 4) else ("L", pick_val(rng)))
    return e


def allowed_refs(kinds, n):
    """same-time references that keep the model acyclic: lower-indexed non-stocks and every stock; a stock's
    equation is evaluated at the previous grid point, so it may mention everything."""
    if kinds[n] == "s":
        return list(range(len(kinds)))
    return [j for j in range(len(kinds)) if kinds[j] == "s" or j < n]


def gen_edit(rng, kinds, extra):
    n = rng.below(len(kinds))
    r = rng.below(12)
    if r >= 10 and rng.chance(1, 3):
        return ("reject", rng.choice(REJECTS))
    if r >= 10:
        cs = [i for i, k in enumerate(kinds) if k == "c"]
        if cs and rng.chance(1, 2):
            return ("scconst", rng.choice(cs), pick_val(rng))
        return ("scpoints" if rng.chance(1, 2) else "setpoints", rng.below(NTAB), rng.below(len(TABLES)))
    if r < 2 and "s" in kinds:
        s = rng.choice([i for i, k in enumerate(kinds) if k == "s"])
        consts = [i for i, k in enumerate(kinds) if k == "c"]
        return ("setinit", s, ("R", rng.choice(consts)) if consts and rng.chance(1, 3) else ("L", pick_val(rng, allow_int=False)))
    if r < 4:
        tgt = rng.choice([i for i, k in enumerate(kinds) if k != "s"] + [len(kinds) + j for j in range(extra)])
        al = allowed_refs(kinds, tgt) if tgt < len(kinds) else list(range(len(kinds)))
        if tgt < len(kinds) and kinds[tgt] == "c":      # constants may serve as initial values: keep them literal
            return ("addeq", tgt, ("L", pick_val(rng)))
        return ("addeq", tgt, gen_expr(rng, [a for a in al if a != tgt]) if rng.chance(2, 3) else ("L", pick_val(rng)))
    if kinds[n] == "c":
        return ("seteq", n, ("L", pick_val(rng)))
    if rng.chance(1, 6):                       # an element defined by a bare number (0.0 / 0 / negative / int included)
        return ("seteq", n, ("L", pick_val(rng)))
    return ("seteq", n, gen_expr(rng, [a for a in allowed_refs(kinds, n) if a != n or kinds[n] == "s"]))


def gen_history(rng):
    nk = rng.range(3, 6)
    kinds = [rng.choice("sfocb") for _ in range(nk)]
    if "s" not in kinds: kinds[rng.below(nk)] = "s"
    extra = 1
    ops = []
    for n in range(nk):           # initial definitions
        if rng.chance(5, 6):
            ops.append(("seteq", n, ("L", pick_val(rng))) if kinds[n] == "c" else
                       ("seteq", n, gen_expr(rng, [a for a in allowed_refs(kinds, n) if a != n or kinds[n] == "s"])))
    added = False                 # the extra (non-element) equation exists only after its add_equation
    for _ in range(rng.range(3, 12)):
        r = rng.below(10)
        if r < 5:
            ops.append(("eval", rng.below(nk + (extra if added else 0)), rng.below(KMAX + 1)))
        elif r < 6:
            ops.append(rng.choice([("reset",), ("sreset",)]))
        else:
            e = gen_edit(rng, kinds, extra)
            added = added or (e[0] == "addeq" and e[1] >= nk)
            ops.append(e)
            if e[0] == "setpoints" and rng.chance(3, 4):      # usually settled at once; sometimes left pending
                ops.append(rng.choice([("reset",), ("sreset",)]))
    return kinds, ops, nk + (extra if added else 0)


# ---- wave 2 families -------------------------------------------------------------------------------------------
INIT_KINDS = ["c", "f", "s", "o", "c", "o"]     # + e4 = 7.0 (second constant), e5 = e4*0.5 (converter not depending on the stock)
INIT_PREFIX = [("seteq", 0, ("L", 2.0)), ("seteq", 1, ("B", 2, ("R", 0), ("L", 1.5))), ("seteq", 2, ("R", 1)),
               ("seteq", 3, ("B", 1, ("B", 2, ("R", 2), ("L", 2.0)), ("R", 0))), ("seteq", 4, ("L", 7.0)),
               ("seteq", 5, ("B", 2, ("R", 4), ("L", 0.5)))]
INIT_VALUES = [("L", 1.0), ("L", 1.0), ("L", 10.0), ("R", 0), ("R", 4), ("R", 5), ("L", 0.0), ("L", -2.5)]     # float (twice: same value), float, constant, constant, converter


def reject_cases():
    """elements evaluated, a REJECTED call of every kind, then an edit of an element others depend on (equation, constant,
    initial value, add_equation) and reads — compared with a model that never saw the rejected call"""
    out = []
    edits = [[("seteq", 0, ("L", 3.0))], [("setinit", 2, ("L", 10.0))], [("seteq", 1, ("B", 2, ("R", 0), ("L", 0.5)))],
             [("addeq", 0, ("L", 4.0))], [("reset",), ("seteq", 0, ("L", 3.0))]]
    for kind in REJECTS:
        for ed in edits:
            out.append((FIX_KINDS, FIX_PREFIX + [("eval", 3, 2), ("eval", 2, 1), ("reject", kind)] + ed + [("eval", 3, 2)], 4))
            out.append((FIX_KINDS, FIX_PREFIX + [("eval", 3, 2), ("reject", kind), ("reject", kind)] + ed + [("eval", 3, 2), ("reject", kind)] + ed, 4))
    return out


def init_transition_cases():
    """every (old kind -> new kind) transition of a stock's initial value — float->same float, float->float,
    float->element, element->float, element->same element, element->other element (constant and converter) —
    with reads of the dependents before, between and after (the final reads of every element are added by run_seq)."""
    out = []
    for old in INIT_VALUES:
        for new in INIT_VALUES:
            for mid in ([], [("eval", 3, 2)], [("eval", 3, 2), ("eval", 2, 0), ("eval", 5, 1)]):
                for tail in ([], [("eval", 3, 2), ("setinit", 2, old), ("eval", 3, 1)],
                             [("eval", 2, 0), ("scconst", 0, 9.0), ("scconst", 4, 0.5), ("eval", 2, 0), ("eval", 3, 2)]):
                    out.append((INIT_KINDS, INIT_PREFIX + [("setinit", 2, old)] + mid + [("setinit", 2, new)] + tail, 6))
    return out


PTS_KINDS = ["c", "f", "s", "o"]
PTS_PREFIX = [("seteq", 0, ("L", 2.0)), ("seteq", 1, ("B", 2, ("R", 0), ("L", 1.5))), ("seteq", 2, ("R", 1)),
              ("setinit", 2, ("L", 1.0)), ("seteq", 3, ("B", 0, ("K", 0, ("R", 2)), ("R", 0)))]


def points_alphabet():
    return [("setpoints", 0, 1), ("setpoints", 0, 2), ("scpoints", 0, 3), ("reset",), ("sreset",), ("eval", 3, 2), ("eval", 2, 1),
            ("seteq", 3, ("B", 2, ("K", 0, ("B", 2, ("R", 2), ("L", 0.5))), ("K", 1, ("R", 0)))), ("seteq", 0, ("L", 3.0)),
            ("setinit", 2, ("L", 4.0))]


ARR_KINDS = ["c", "s", "o:2", "o:2", "o:4", "o:4", "f:6", "f:6", "s:8", "s:8", "o"]


def arr_prefix():
    return [("seteq", 0, ("L", 2.0)), ("seteq", 1, ("R", 0)), ("setinit", 1, ("L", 1.0)),
            ("veceq", 4, ("B", 2, ("V", 2), ("L", 3.0))), ("veceq", 8, ("V", 6)), ("seteq", 10, ("B", 0, ("R", 4), ("R", 9)))]


def gen_arr_history(rng):
    """arrayed elements: v2 (converter vector), v4 (converter vector), v6 (flow vector), v8 (stock vector fed by v6)"""
    kinds = ARR_KINDS
    ops = arr_prefix()
    def member_expr(n):
        al = [a for a in allowed_refs([k[0] for k in kinds], n) if a != n or kinds[n][0] == "s"]
        return gen_expr(rng, al, depth=1)
    for _ in range(rng.range(3, 9)):
        r = rng.below(12)
        if r < 5:
            ops.append(("eval", rng.below(len(kinds)), rng.below(KMAX + 1)))
        elif r < 6:
            ops.append(rng.choice([("reset",), ("sreset",)]))
        elif r < 8:
            n = rng.choice([2, 3, 4, 5, 6, 7])
            ops.append((rng.choice(["arrset", "seteq"]), n, member_expr(n)))
        elif r < 9:
            n = rng.choice([8, 9])
            ops.append(("setinit", n, rng.choice([("L", rng.choice(LITS)), ("R", 0)])))
        elif r < 10:
            ops.append(("veceq", 4, rng.choice([("B", 2, ("V", 2), ("L", rng.choice(LITS))), ("B", 0, ("V", 2), ("R", 1)),
                                                 ("B", 1, ("V", 2), ("R", 0))])))
        elif r < 11:
            ops.append(("veceq", 8, rng.choice([("V", 6), ("B", 2, ("V", 6), ("L", rng.choice(LITS)))])))
        else:
            ops.append(("veceq", 6, rng.choice([("B", 2, ("V", 2), ("L", rng.choice(LITS))), ("B", 0, ("V", 2), ("V", 4))])))
    return kinds, ops, len(kinds)


FIX_KINDS = ["c", "f", "s", "o"]        # c, f = max(0, c*1.5), s' = f (init 1.0 or c), k = s*2 - c


def fixed_alphabet():
    return [("seteq", 0, ("L", 3.0)), ("seteq", 1, ("B", 2, ("R", 0), ("L", 0.5))), ("seteq", 2, ("B", 0, ("R", 1), ("R", 3))),
            ("setinit", 2, ("L", 10.0)), ("setinit", 2, ("R", 0)), ("seteq", 3, ("B", 0, ("R", 2), ("R", 0))),
            ("addeq", 0, ("L", 0.0)), ("addeq", 1, ("B", 2, ("R", 0), ("L", 2.0))), ("reset",), ("sreset",),
            ("scconst", 0, 5.0), ("reject", "vecstock-int"), ("eval", 3, 2), ("eval", 2, 1), ("eval", 1, 0)]


FIX_PREFIX = [("seteq", 0, ("L", 2.0)), ("seteq", 1, ("B", 2, ("R", 0), ("L", 1.5))), ("seteq", 2, ("R", 1)),
              ("setinit", 2, ("L", 1.0)), ("seteq", 3, ("B", 1, ("B", 2, ("R", 2), ("L", 2.0)), ("R", 0)))]


def seq_cases(chk):
    L = 3 if chk.quick else 4
    out = [(FIX_KINDS, FIX_PREFIX + list(h), 4) for h in itertools.product(fixed_alphabet(), repeat=L)]
    n_exh = len(out)
    # wave 2: points edits (exhaustive over their own alphabet), initial-value transitions, arrayed elements
    out += [(PTS_KINDS, PTS_PREFIX + list(h), 4) for h in itertools.product(points_alphabet(), repeat=L)]
    out += init_transition_cases()
    out += reject_cases()
    n_exh = len(out)
    rng = chk.rng.fork("c08-seq")
    for _ in range(250 if chk.quick else 4000):
        out.append(gen_history(rng))
    rng2 = chk.rng.fork("c08-arr")
    for _ in range(120 if chk.quick else 1500):
        out.append(gen_arr_history(rng2))
    return out, n_exh, L


def run_seq(chk, facts):
    cases, n_exh, L = seq_cases(chk)
    # the operands bit is a fact about the term generator of aggregates, which are not part of the driver's expression
    # language (they are checked by the aggregate family against freshly built models): the streams run the model with 1
    req = ["cfg %d %d %d 1 1 1" % (facts["init"], facts["add"], facts["first"])]
    real = ["ok"]
    kinds_hist = {}
    stale = []
    unsettled = {"histories": 0, "stale_seen": None}
    for kinds, ops, nall in cases:
        r = Real(kinds)
        for ln in r.new_lines():
            req.append(ln); real.append("ok")
        hl = history_lines(ops, kinds)
        for hi_, (op, lns) in enumerate(hl):
            if op[0] == "reject":
                # the part of a rejected call that ran before it raised may have reset the cache (an arrayed stock defines its
                # first member before the second is refused): emptying the memo is always allowed, keeping stale values is not
                before_ = r.memo()
                v = r.apply(op)
                lns = ["rejected"] + (["reset"] if (before_ and not r.memo()) else [])
            else:
                v = r.apply(op)
            for ln in lns:
                req.append(ln); real.append(v if op[0] == "eval" else "ok")
            kinds_hist[op[0]] = kinds_hist.get(op[0], 0) + 1
            if op[0] == "eval":
                mm_ = r.memo()
                req.append("memo"); real.append(mm_)
                # the memo invariant on the REAL memo: every entry the code keeps is the fresh value of its key (an
                # invalidation policy may keep more entries than the model's clear-everything policy, never other values)
                if settled([o for o, _ in hl[:hi_ + 1]]):
                    for ent in (mm_.split(",") if mm_ else []):
                        key_, val_ = ent.split("=")
                        n_, k_ = key_.split(".")
                        req.append("peek %s %s" % (n_, k_)); real.append(val_)
        for n in range(nall):
            for k in range(KMAX + 1):
                req.append("eval %d %d" % (n, k)); real.append(r.value(n, k))
        req.append("memo"); real.append(r.memo())
        edits_after_eval = any(o[0] == "eval" for o in ops) and any(
            o[0] in EDITS for i, o in enumerate(ops) if any(p[0] == "eval" for p in ops[:i]))
        chk.case(("seq", tuple(kinds), tuple(l for o, lns in hl for l in ([o[0]] + lns))), nontrivial=edits_after_eval,
                 sample=[op_show(o) for o in ops] if len(chk.cov["samples"]) < 3 and len(ops) > 6 else None)
        if not settled(ops):
            # outside the statement: a raw `model.points[...] = ...` (plain dict) not yet followed by a cache reset.
            # Model and code must still agree (correspondence above); staleness here is recorded, never reported.
            unsettled["histories"] += 1
            if unsettled["stale_seen"] is None:
                mm = stale_check(kinds, ops, nall)
                if mm is not None:
                    unsettled["stale_seen"] = {"history": [op_show(o) for o in ops], "mismatch": mm}
        elif len(stale) < 8:
            mm = stale_check(kinds, ops, nall)
            if mm is not None:
                stale.append((kinds, ops, nall, mm))
    chk.cov["seq_op_distribution"] = kinds_hist
    chk.notes["points_unsettled"] = unsettled
    chk.cov["seq_exhaustive_histories"] = n_exh
    model = drive("C08", req)
    def same(i, a, b):
        a, b = cz(a), cz(b)
        if a == b:
            return True
        if req[i] == "memo":          # the code may keep MORE entries than the clear-everything model (each checked by `peek`)
            return set(x for x in a.split(",") if x) <= set(x for x in b.split(",") if x)
        return False
    diff = next((i for i, (a, b) in enumerate(zip(model, real)) if not same(i, a, b)), None)
    if diff is None and len(model) != len(real):
        diff = min(len(model), len(real))
    return cases, stale, diff, req, model, real, L


# ------------------------------------------------------------------ (b) forced schedules on the worker threads
class RecDict(dict):
    """memo dictionary of one equation that records every access (who, what) — the shared-memory events."""
    def __init__(self, sch, n):
        super().__init__(); self.sch, self.n = sch, n
    def _k(self, t): return (self.n, int(round((t - START) / DT)))
    def keys(self): return _Keys(self)
    def __contains__(self, t):
        f = dict.__contains__(self, t); self.sch.event("L", self._k(t), "hit" if f else "miss"); return f
    def get(self, t, d=None):
        f = dict.__contains__(self, t); self.sch.event("L", self._k(t), "hit" if f else "miss"); return dict.get(self, t, d)
    def __getitem__(self, t):
        v = dict.__getitem__(self, t); self.sch.event("R", self._k(t), fbits(v)); return v
    def __setitem__(self, t, v):
        self.sch.event("S", self._k(t), fbits(v)); dict.__setitem__(self, t, v)
    def setdefault(self, t, v=None):
        self.sch.event("S", self._k(t), fbits(v)); return dict.setdefault(self, t, v)


class _Keys:
    def __init__(self, d): self.d = d
    def __contains__(self, t): return self.d.__contains__(t)
    def __iter__(self): return dict.keys(self.d).__iter__()


class Sched:
    """cooperative scheduler: exactly one worker runs; a worker can lose the processor at every new source line
    of Model.memoize (sys.settrace 'line' event) — `preempt` maps the global line-event count to the thread that
    runs next.  Otherwise the running thread continues; when it ends, the lowest unfinished thread runs."""
    TIMEOUT = 20.0

    def __init__(self, names, preempt, memoize_code, simulate_name="__simulate", argname="normalized_arg", ids=None):
        self.names, self.preempt = names, dict(preempt)
        self.idof = (lambda nm: ids[nm]) if ids is not None else (lambda nm: int(nm[1:]))
        self.code, self.simname = memoize_code, simulate_name
        self.argname = argname          # local of `memoize` that holds the normalised time (DSL Model / generated class)
        self.cv = threading.Condition()
        self.cur, self.count = 0, 0
        self.finished, self.tids, self.taken = set(), {}, set()
        self.events, self.handouts, self.stacks, self.draws = [], [], {}, {}
        self.error = None

    # -- called from worker threads
    def tid(self):
        return self.tids.get(threading.get_ident(), -1)

    def event(self, kind, key, val):
        t = self.tid()
        if t >= 0:
            self.events.append((t, kind, key, val))

    def uniform(self, a, b):
        t = self.tid()
        i = self.draws.get(t, 0); self.draws[t] = i + 1
        return float(1000 * (t + 1) + i)

    def _wait(self, t):
        while self.cur != t:
            if not self.cv.wait(self.TIMEOUT):
                self.error = "scheduler timeout waiting for thread %d (cur=%d)" % (t, self.cur)
                self.cur = t
                break

    def _next_unfinished(self):
        for i in range(len(self.names)):
            if i not in self.finished:
                return i
        return -1

    def gtrace(self, frame, ev, arg):
        co = frame.f_code
        if co.co_name == self.simname and ev == "call":
            eq = frame.f_locals.get("equation")
            with self.cv:
                t = next(i for i, n in enumerate(self.names) if n == eq and i not in self.taken)
                self.taken.add(t); self.tids[threading.get_ident()] = t; self.stacks[t] = []
                self._wait(t)
            return self.sim_trace
        if co is self.code:
            t = self.tid()
            if t >= 0:
                self.stacks[t].append(frame)
                return self.memo_trace
        return None

    def sim_trace(self, frame, ev, arg):
        if ev == "return":
            with self.cv:
                t = self.tid()
                self.finished.add(t)
                self.cur = self._next_unfinished()
                self.cv.notify_all()
        return self.sim_trace

    def memo_trace(self, frame, ev, arg):
        t = self.tid()
        if ev == "line":
            with self.cv:
                i = self.count; self.count += 1
                tgt = self.preempt.get(i)
                if tgt is not None and tgt != t and tgt not in self.finished and tgt < len(self.names):
                    self.cur = tgt
                    self.cv.notify_all()
                self._wait(t)
        elif ev == "return":
            st = self.stacks[t]
            st.pop()
            # (element, grid index) of this call and of the calling memoize frame, read from the two PARAMETERS of memoize
            # (whatever they and the locals are called); a trace function must never raise: Python would switch tracing off
            def key_of(fr):
                try:
                    pn = fr.f_code.co_varnames[1:3]
                    return (self.idof(fr.f_locals[pn[0]]), int(round((float(fr.f_locals[pn[1]]) - START) / DT)))
                except Exception:
                    return None
            key = key_of(frame)
            cons = key_of(st[-1]) if st else None
            self.handouts.append((t, cons, key, None if arg is None else fbits(arg)))
        return self.memo_trace


def conc_systems():
    """(kinds, definitions, requested equations, k0, k1): small stochastic / deterministic systems"""
    X = ("X",)
    return [
        ("race2", ["o"], [("seteq", 0, X)], [0, 0], 0, 0),
        ("dep2", ["o", "o"], [("seteq", 0, X), ("seteq", 1, ("B", 2, ("R", 0), ("L", 2.0)))], [1, 0], 0, 0),
        ("diamond2", ["o", "o", "o"], [("seteq", 0, X), ("seteq", 1, ("B", 0, ("R", 0), X)),
                                        ("seteq", 2, ("B", 1, ("R", 1), ("R", 0)))], [2, 1], 0, 0),
        ("stock2", ["o", "s", "o"], [("seteq", 0, X), ("seteq", 1, ("R", 0)), ("setinit", 1, ("L", 1.0)),
                                      ("seteq", 2, ("B", 0, ("R", 1), ("R", 0)))], [2, 1], 0, 1),
        ("det2", ["o", "o", "o"], [("seteq", 0, ("L", 3.0)), ("seteq", 1, ("B", 2, ("R", 0), ("L", 2.0))),
                                    ("seteq", 2, ("B", 0, ("R", 1), ("R", 0)))], [2, 1], 0, 0),
        ("three", ["o", "o", "o"], [("seteq", 0, X), ("seteq", 1, ("B", 2, ("R", 0), ("L", 2.0))),
                                     ("seteq", 2, ("B", 0, ("R", 0), ("R", 1)))], [2, 1, 0], 0, 0),
    ]


def run_forced(system, preempt):
    """one run of SdSimulation.start on the real code under a forced schedule.  Returns dict of observations."""
    import random as rmod
    from BPTK_Py.sdsimulation import SdSimulation
    from BPTK_Py import Model
    name, kinds, defs, reqs, k0, k1 = system
    r = Real(kinds)
    for op in defs:
        r.apply(op)
    names = [r.names[n] for n in reqs]
    sch = Sched(names, preempt, Model.memoize.__code__, ids=r.ids)
    for i in range(len(kinds)):
        r.m.memo[r.names[i]] = RecDict(sch, i)
    old_uniform = rmod.uniform
    rmod.uniform = sch.uniform
    threading.settrace(sch.gtrace)
    try:
        sim = SdSimulation(model=r.m, name="c08")
        df = sim.start(output=["frame"], start=START + k0 * DT, until=START + k1 * DT, equations=names)
    finally:
        threading.settrace(None)
        rmod.uniform = old_uniform
    reported = {}
    for eq, d in sim.results.items():
        for t, v in d.items():
            reported[(r.ids[eq], int(round((t - START) / DT)))] = fbits(v)
    memo = {}
    for nm, d in r.m.memo.items():
        for t, v in dict.items(d):
            memo[(r.ids[nm], int(round((t - START) / DT)))] = fbits(v)
    return {"events": sch.events, "handouts": sch.handouts, "reported": reported, "memo": memo,
            "line_events": sch.count, "error": sch.error}


# ------------------------------------------------------------------ (b') XMILE-generated model classes
def x_expr(e):
    if e[0] == "L": return repr(e[1])
    if e[0] == "R": return "e%d" % e[1]
    if e[0] == "X": return "RANDOM(0, 1)"
    return "(%s %s %s)" % (x_expr(e[2]), OPSYM[e[1]], x_expr(e[3]))


def xmile_doc(elems, start, stop, dt, name="c08x"):
    """elems: ('aux', expr) | ('flow', expr) | ('stock', init expr, inflow id)"""
    from xml.sax.saxutils import escape
    v = []
    for i, el in enumerate(elems):
        if el[0] == "stock":
            v.append('\t\t\t<stock name="e%d">\n\t\t\t\t<eqn>%s</eqn>\n\t\t\t\t<inflow>e%d</inflow>\n\t\t\t</stock>\n'
                     % (i, escape(x_expr(el[1])), el[2]))
        else:
            v.append('\t\t\t<%s name="e%d">\n\t\t\t\t<eqn>%s</eqn>\n\t\t\t</%s>\n' % (el[0], i, escape(x_expr(el[1])), el[0]))
    return ('<?xml version="1.0" encoding="utf-8"?>\n'
            '<xmile version="1.0" xmlns="http://docs.oasis-open.org/xmile/ns/XMILE/v1.0" xmlns:isee="http://iseesystems.com/XMILE">\n'
            '\t<header>\n\t\t<smile version="1.0" namespace="std, isee"/>\n\t\t<name>%s</name>\n\t\t<vendor>verif</vendor>\n'
            '\t\t<product version="1.0" lang="en">verif</product>\n\t</header>\n'
            '\t<sim_specs method="Euler" time_units="Months">\n\t\t<start>%s</start>\n\t\t<stop>%s</stop>\n\t\t<dt>%s</dt>\n\t</sim_specs>\n'
            '\t<model>\n\t\t<variables>\n' % (name, start, stop, dt) + "".join(v) + '\t\t</variables>\n\t</model>\n</xmile>\n')


_xmods = {}


def xmile_module(key, elems, start, stop, dt, scratch):
    """transpile with the real compiler, import the generated module (cached per run)"""
    if key in _xmods:
        return _xmods[key]
    from BPTK_Py.sdcompiler.compile import compile_xmile
    import contextlib, io, warnings
    base = os.path.join(scratch, "c08x_%s" % key)
    with open(base + ".stmx", "w") as f:
        f.write(xmile_doc(elems, start, stop, dt))
    with warnings.catch_warnings(), contextlib.redirect_stdout(io.StringIO()):
        warnings.simplefilter("ignore")
        compile_xmile(base + ".stmx", base + ".py", "py")
        spec = importlib.util.spec_from_file_location("c08x_%s" % key, base + ".py")
        mod = importlib.util.module_from_spec(spec)
        spec.loader.exec_module(mod)
    _xmods[key] = mod
    return mod


def xmile_systems():
    """(name, XMILE elements, Lean kinds, Lean definitions, requested equations, k0, k1): the generated lambdas have the
    shapes of the DSL ones (aux/flow: the expression; stock: init if t <= start else memoize(s,t-dt) + dt*(memoize(inflow,t-dt)))"""
    X = ("X",)
    return [
        ("xrace2", [("aux", X)], ["o"], [("seteq", 0, X)], [0, 0], 0, 0),
        ("xdep2", [("aux", X), ("aux", ("B", 2, ("R", 0), ("L", 2.0)))], ["o", "o"],
         [("seteq", 0, X), ("seteq", 1, ("B", 2, ("R", 0), ("L", 2.0)))], [1, 0], 0, 0),
        ("xdiamond2", [("aux", X), ("aux", ("B", 0, ("R", 0), X)), ("aux", ("B", 1, ("R", 1), ("R", 0)))], ["o", "o", "o"],
         [("seteq", 0, X), ("seteq", 1, ("B", 0, ("R", 0), X)), ("seteq", 2, ("B", 1, ("R", 1), ("R", 0)))], [2, 1], 0, 0),
        ("xstock2", [("aux", X), ("stock", ("L", 1.0), 3), ("aux", ("B", 0, ("R", 1), ("R", 0))), ("flow", ("R", 0))],
         ["o", "s", "o", "o"],
         [("seteq", 0, X), ("seteq", 3, ("R", 0)), ("seteq", 1, ("R", 3)), ("setinit", 1, ("L", 1.0)),
          ("seteq", 2, ("B", 0, ("R", 1), ("R", 0)))], [2, 1], 0, 1),
        ("xdet2", [("aux", ("L", 3.0)), ("aux", ("B", 2, ("R", 0), ("L", 2.0))), ("aux", ("B", 0, ("R", 1), ("R", 0)))], ["o", "o", "o"],
         [("seteq", 0, ("L", 3.0)), ("seteq", 1, ("B", 2, ("R", 0), ("L", 2.0))), ("seteq", 2, ("B", 0, ("R", 1), ("R", 0)))],
         [2, 1], 0, 0),
        ("xthree", [("aux", X), ("aux", ("B", 2, ("R", 0), ("L", 2.0))), ("aux", ("B", 0, ("R", 0), ("R", 1)))], ["o", "o", "o"],
         [("seteq", 0, X), ("seteq", 1, ("B", 2, ("R", 0), ("L", 2.0))), ("seteq", 2, ("B", 0, ("R", 0), ("R", 1)))], [2, 1, 0], 0, 0),
    ]


def x_instance(xsys, scratch):
    name, elems = xsys[0], xsys[1]
    mod = xmile_module(name, elems, repr(START), repr(START + KMAX * DT), repr(DT), scratch)
    return mod.simulation_model()


def run_forced_x(xsys, preempt, scratch):
    """one run of SdSimulation.start on a freshly instantiated XMILE-generated class under a forced schedule
    (switch point = every new source line of the generated `memoize`)."""
    import random as rmod
    from BPTK_Py.sdsimulation import SdSimulation
    name, elems, lkinds, ldefs, reqs, k0, k1 = xsys
    sim = x_instance(xsys, scratch)
    names = ["e%d" % n for n in reqs]
    sch = Sched(names, preempt, type(sim).memoize.__code__, argname="arg")
    for nm in list(sim.memo.keys()):
        sim.memo[nm] = RecDict(sch, int(nm[1:]))
    old_random = rmod.random
    rmod.random = lambda: sch.uniform(0, 1)
    threading.settrace(sch.gtrace)
    try:
        simu = SdSimulation(model=sim, name="c08x")
        simu.start(output=["frame"], start=START + k0 * DT, until=START + k1 * DT, equations=names)
    finally:
        threading.settrace(None)
        rmod.random = old_random
    reported = {}
    for eq, d in simu.results.items():
        for t, v in d.items():
            reported[(int(eq[1:]), int(round((t - START) / DT)))] = fbits(v)
    memo = {}
    for nm, d in sim.memo.items():
        for t, v in dict.items(d):
            memo[(int(nm[1:]), int(round((t - START) / DT)))] = fbits(v)
    return {"events": sch.events, "handouts": sch.handouts, "reported": reported, "memo": memo,
            "line_events": sch.count, "error": sch.error}


def probe_first_store_x(scratch):
    """the generated `memoize`, single-threaded emulation of two overlapping misses of one stochastic key (see probe_first_store)."""
    sim = x_instance(xmile_systems()[0], scratch)
    state = {"n": 0, "inner": None}
    def fn(t):
        state["n"] += 1
        mine = float(state["n"])
        if state["n"] == 1:
            state["inner"] = sim.memoize("e0", t)
        return mine
    sim.equations["e0"] = fn
    outer = sim.memoize("e0", START)
    return outer == state["inner"] == sim.memo["e0"][START]


NORM_ELEMS = [("aux", ("X",)), ("stock", ("L", 1.0), 2), ("flow", ("R", 0))]


def xmile_normalisation(scratch):
    """generated `memoize` on a grid that is not exact in binary (start 0.3, dt 0.1): a stochastic element asked for at
    the same grid point through different arithmetic routes must be computed ONCE (one key, one value), and the keys a
    stock's t-dt recursion leaves behind are the decimal grid values.  Returns None or a description of what failed."""
    mod = xmile_module("norm", NORM_ELEMS, "0.3", "1.3", "0.1", scratch)
    sim = mod.simulation_model()
    routes = {"0.4-0.1": 0.4 - 0.1, "0.3": 0.3, "0.1+0.2": 0.1 + 0.2, "0.5-0.1-0.1": 0.5 - 0.1 - 0.1}
    vals = {r: sim.memoize("e0", t) for r, t in routes.items()}
    if len({fbits(v) for v in vals.values()}) != 1 or list(sim.memo["e0"].keys()) != [0.3]:
        return {"what": "RANDOM aux e0 at grid point 0.3 by four routes", "values": {r: repr(v) for r, v in vals.items()},
                "memo_keys": [repr(t) for t in sim.memo["e0"].keys()]}
    sim = mod.simulation_model()
    a = sim.memoize("e1", 0.3 + 0.1 + 0.1 + 0.1)
    keys = sorted(sim.memo["e1"].keys())
    b = sim.memoize("e1", 0.6)
    if fbits(a) != fbits(b) or keys != [0.3, 0.4, 0.5, 0.6] or sorted(sim.memo["e1"].keys()) != keys:
        return {"what": "stock e1 at 0.3+0.1+0.1+0.1 then at 0.6", "values": [repr(a), repr(b)], "memo_keys": [repr(t) for t in keys]}
    return None


def ambiguity(obs):
    """property, directly on the real code: one value per (element, time): every value handed out by memoize and
    every reported value equals the value in the memo at the end of the run."""
    for t, cons, key, v in obs["handouts"]:
        if key is not None and obs["memo"].get(key) != v:
            return {"thread": t, "consumer": cons, "key": key, "handed_out": v, "memo": obs["memo"].get(key)}
    for key, v in obs["reported"].items():
        if obs["memo"].get(key) != v:
            return {"reported_key": key, "reported": v, "memo": obs["memo"].get(key)}
    return None


def conc_line(system, obs):
    name, kinds, defs, reqs, k0, k1 = system
    rq = "|".join(",".join("%d.%d" % (n, k) for k in range(k0, k1 + 1)) for n in reqs)
    sched = ",".join(str(e[0]) for e in obs["events"]) or "-"
    return "conc %s %s" % (rq, sched)


def conc_expected(obs):
    ev = " ".join("%d%s%d.%d:%s" % (t, kind, key[0], key[1], val) for t, kind, key, val in obs["events"])
    return ev


def canon_handouts(hs):
    return sorted("%s>%s=%s" % ("-" if c is None else "%d.%d" % c, "?" if k is None else "%d.%d" % k, v) for _, c, k, v in hs)


def parse_conc_reply(line):
    parts = line.split(";")
    if len(parts) != 4:
        return None
    ev, log, memo, fin = parts
    return ev, sorted(x for x in log.split(",") if x), memo, fin


def schedules_for(chk, system, E, nthreads, rng):
    """all schedules with <= 1 pre-emption, all with <= 2 (two threads / thorough), seeded sample otherwise"""
    others = lambda: range(nthreads)
    one = [{i: j} for i in range(E) for j in others()]
    two_all = [{i: j, i2: j2} for i in range(E) for i2 in range(i + 1, E) for j in others() for j2 in others()]
    cap2 = (1200 if nthreads == 2 else 500) if chk.quick else 10 ** 9
    if len(two_all) > cap2:
        two = [two_all[rng.below(len(two_all))] for _ in range(cap2)]
        full2 = False
    else:
        two, full2 = two_all, True
    three = []
    if not chk.quick:
        for _ in range(1500):
            pts = sorted({rng.below(E) for _ in range(3)})
            three.append({p: rng.below(nthreads) for p in pts})
    return [{}] + one + two + three, full2


def run_conc(chk, facts, scratch=None):
    """scratch = None: the SD-DSL `Model.memoize`; else: the `memoize` of XMILE-generated classes (same scheduler, same
    interleaving machine; Cfg bit `first` = what the probe of that memoize found)."""
    xm = scratch is not None
    rng = chk.rng.fork("c08-conc-x" if xm else "c08-conc")
    req, exp, meta = [], [], []
    first_amb, n_runs, dist = None, 0, {}
    infra = None
    for sysm in (xmile_systems() if xm else conc_systems()):
        if xm:
            name, _, kinds, defs, reqs, k0, k1 = sysm
            system = (name, kinds, defs, reqs, k0, k1)
            forced = lambda pre, sysm=sysm: run_forced_x(sysm, pre, scratch)
        else:
            system = sysm
            name, kinds, defs, reqs, k0, k1 = system
            forced = lambda pre, system=system: run_forced(system, pre)
        base = forced({})
        E = base["line_events"]
        scheds, full2 = schedules_for(chk, system, E, len(reqs), rng)
        if xm and chk.quick:          # the generated memoize has about twice as many lines: thin the 2-pre-emption sample
            scheds = scheds[:1 + E * len(reqs)] + scheds[1 + E * len(reqs)::3]
            full2 = False
        dist[name] = {"line_events": E, "schedules": len(scheds), "all_two_preemptions": full2}
        header = (["cfg %d %d %d 1 1 1" % (facts["init"], facts["add"], facts["xfirst" if xm else "first"])] + Real(kinds).new_lines() +
                  [op_line(o) for o in defs])
        req += header; exp += ["ok"] * len(header); meta += [None] * len(header)
        seen = set()
        for pre in scheds:
            obs = forced(pre)
            n_runs += 1
            if obs["error"]:
                infra = obs["error"]; break
            sig = tuple(e[0] for e in obs["events"])
            amb = ambiguity(obs)
            if amb is not None and first_amb is None:
                first_amb = (system, pre, amb)
            chk.case(("conc", name, sig), nontrivial=len(set(sig)) > 1 and any(
                sig[i] != sig[i + 1] for i in range(len(sig) - 1)), sample=None)
            if sig in seen:
                continue          # same interleaving of the shared-memory events: same model run
            seen.add(sig)
            req.append("reset"); exp.append("ok"); meta.append(None)
            req.append(conc_line(system, obs))
            exp.append((conc_expected(obs), canon_handouts(obs["handouts"]),
                        ",".join("%d.%d=%s" % (k[0], k[1], v) for k, v in sorted(obs["memo"].items())), "finished"))
            meta.append((name, pre))
        dist[name]["distinct_memo_access_orders"] = len(seen)
        if infra:
            break
    chk.cov["conc_distribution_xmile" if xm else "conc_distribution"] = dist
    chk.cov["forced_schedule_runs"] = chk.cov.get("forced_schedule_runs", 0) + n_runs
    if infra:
        raise RuntimeError("forced-schedule infrastructure: " + infra)
    model = drive("C08", req)
    diff = None
    for i, (m, e) in enumerate(zip(model, exp)):
        if isinstance(e, tuple):
            if parse_conc_reply(cz(m)) != tuple(cz(x) if isinstance(x, str) else [cz(y) for y in x] for x in e):
                diff = i; break
        elif m != e:
            diff = i; break
    if diff is None and len(model) != len(exp):
        diff = min(len(model), len(exp))
    return first_amb, diff, req, model, exp, meta


# ------------------------------------------------------------------ the check
def run(chk):
    import shutil
    scratch = scratch_dir("c08x")
    try:
        _run(chk, scratch)
    finally:
        shutil.rmtree(scratch, ignore_errors=True)


def _run(chk, scratch):
    quiet_bptk_logging()
    sys.setrecursionlimit(5000)
    facts = {"init": probe_initial_value(), "add": probe_add_equation(), "first": probe_first_store(),
             "xfirst": probe_first_store_x(scratch), "operands": probe_operands_through_memo()}
    facts["stores"], chk.notes["stores_consulted_by_memoize"] = probe_reset_clears_all_stores()
    facts["rejected"], chk.notes["rejected_calls"] = probe_rejected_is_noop()
    chk.notes["cfg"] = facts
    ok, why = chk.prove(gen_lean(facts))
    chk.cov["trusted_base"] = [
        "Lean 4.33 kernel; axioms propext, Classical.choice, Quot.sound (audited per run via #print axioms)",
        "hand-written model lean/Bptk/Core/C08.lean of Model.memoize / add_equation / reset_cache, the equation and initial_value setters, "
        "SimulationScenario.reset_cache and the SdSimulation worker threads; tied to the code by three behavioural probes, by the "
        "differential run on edit/evaluate histories (values and memo contents) and by forced schedules of the real worker threads",
        "CPython: a thread switch is possible between any two traced source lines of Model.memoize; dict.setdefault / dict reads are atomic "
        "(switches inside one line / inside C code are not modelled)",
        "DSL rendering of the generated expression shapes (left-nested sums of products; C01/C02 cover rendering in general)",
        "graphical functions: a table is modelled by its interpolation function (uninterpreted in the theorems); the driver's `interpF` follows "
        "Model._lookup / scipy interp1d (searchsorted, slope*(x-x_lo)+y_lo), validated bit for bit by the correspondence",
        "arrayed elements are the model elements `name[i]` the DSL creates per member (setup_vector, v[i] = …, element-wise `v.equation = …`); "
        "the harness expands one API call into the per-member model operations (the element-wise expansion itself is C10's subject)",
        "element names: plain identifiers, module-qualified (`mod.e4`), with a blank (`e 5`), arrayed members (`v2[0]`, `sub.v4[1]`, "
        "`v 6[0]`) by flat id modulo 3 in every SD-DSL stream (evidence `element_name_kinds`); the Lean model identifies elements by number "
        "(names never enter it), XMILE systems keep identifier names (sanitising names is the transpiler's, C03)",
        "XMILE-generated classes: the real transpiler generates the class of six small systems per run; its `memoize` runs under the same line-level "
        "scheduler and is replayed by the same interleaving machine (Cfg bit from its own probe; Gen obligation holdsX / violatedX)",
    ]
    chk.assumptions = ["models are acyclic at equal times (generator keeps a rank); grid times exact in binary (dt 0.5, start 1.0) — C05 covers normalisation",
                       "stochastic terms are written after the element references of their equation (draw happens after the dependencies returned)",
                       "edits are not concurrent with a run",
                       "a raw write to `model.points` (a plain dict) is outside the statement's list of API edits: it takes effect with the next cache "
                       "reset / edit (Lean `settled`); the scenario route (settings -> setup_points -> reset_cache) is settled by construction. "
                       "Unsettled histories are still run differentially (model and code agree on the stale values), never reported"]
    cases, stale, sdiff, sreq, smodel, sreal, L = run_seq(chk, facts)
    amb, cdiff, creq, cmodel, cexp, cmeta = run_conc(chk, facts)
    xamb, xdiff, xreq, xmodel, xexp, xmeta = run_conc(chk, facts, scratch)
    xnorm = xmile_normalisation(scratch)
    aggbad = run_agg(chk)
    bpbad = run_bptk_stream(chk)
    isobad = models_isolated()
    chk.cov["definition_value_kinds"] = dict(VAL_STATS)
    chk.cov["rule"] = (f"(a) all histories FIX_PREFIX + w, w in alphabet^{L} (13 edit/reset/evaluate operations on a 4-element model), plus seeded random "
                       "histories on random models of 3..6 elements: every evaluation result and the memo contents after every evaluation are compared "
                       "with the Lean model, and every element at every grid point with a freshly built model; non-trivial = some edit follows an evaluation. "
                       "(b) six 2–3-thread systems: every schedule with <=1 pre-emption at line granularity in Model.memoize, all/sampled with 2 "
                       "(thorough: all with 2, sampled with 3); a case = the order of memo accesses by thread; non-trivial = threads interleave. "
                       f"Wave 2: (a') all histories PTS_PREFIX + w, w in points-alphabet^{L} (10 operations: raw and scenario points edits, resets, reads, "
                       "lookup equations); all 6x6 (old -> new) initial-value transitions over {float, same float, other float, constant, other constant, "
                       "converter} x 3 read patterns x 2 tails; seeded histories on a model with two converter vectors, a flow vector and a stock vector "
                       "(member assignment, member equation, member initial value, element-wise vector equations). (b') the same six system shapes "
                       "transpiled from XMILE by the real compiler, forced schedules inside the generated memoize; a non-binary grid (0.3, 0.1) check "
                       "that a RANDOM aux reached by four routes is computed once")
    chk.cov["traces_validated_against_impl"] = len(cases) + chk.cov.get("forced_schedule_runs", 0)
    # ---- decide
    chk.notes["seq_correspondence_first_diff"] = sdiff
    chk.notes["conc_correspondence_first_diff"] = cdiff
    chk.cov["element_name_kinds"] = dict(NAME_STATS)      # over all models built in the history and forced-schedule streams
    chk.notes["xmile_conc_correspondence_first_diff"] = xdiff
    for kinds, ops, nall, mm in stale:
        small = shrink(ops, lambda c: stale_check(kinds, c, nall) is not None)
        mm = stale_check(kinds, small, nall)
        last_edit = next((o[0] for o in reversed(small) if o[0] in EDIT_KEY), "seteq")
        if any(f.key == EDIT_KEY[last_edit] for f in chk.findings):
            continue
        chk.add_finding(EDIT_KEY[last_edit],
                        f"after {[op_show(o) for o in small]}: e{mm['element']}(t_{mm['k']}) = {from_fbits(mm['after_history']) if len(mm['after_history']) == 16 else mm['after_history']}, "
                        f"a freshly built model with the same definitions yields {from_fbits(mm['fresh_model']) if len(mm['fresh_model']) == 16 else mm['fresh_model']}",
                        {"kind": "history", "kinds": kinds, "ops": small, "nall": nall, "mismatch": mm,
                         "element_names": {"e%d" % i: nm for i, nm in enumerate(Real(kinds).names)}})
    for fact, key, txt, ops_ in (("init", "stale-initial-value", "probe: k = s*2; k(t_2); s.initial_value = 10.0; k(t_2) is the old value",
                                  (["s", "o"], [("seteq", 0, ("L", 2.0)), ("setinit", 0, ("L", 1.0)), ("seteq", 1, ("B", 2, ("R", 0), ("L", 2.0))),
                                                ("eval", 1, 2), ("setinit", 0, ("L", 10.0))], 2)),
                                 ("add", "stale-add-equation", "probe: k = c*3; k(t_0); model.add_equation('c', lambda t: 5.0); k(t_0) is the old value",
                                  (["c", "o"], [("seteq", 0, ("L", 2.0)), ("seteq", 1, ("B", 2, ("R", 0), ("L", 3.0))), ("eval", 1, 0),
                                                ("addeq", 0, ("L", 5.0))], 2))):
        if not facts[fact] and not any(f.key == key for f in chk.findings):
            chk.add_finding(key, txt, {"kind": "history", "kinds": ops_[0], "ops": ops_[1], "nall": ops_[2]})
    if amb is not None:
        system, pre, a = amb
        chk.add_finding("memoize-race-stochastic",
                        f"system {system[0]} ({[op_show(o) for o in system[2]]}), workers for {['e%d' % n for n in system[3]]}, pre-emptions "
                        f"(line event -> thread) {pre}: {a}",
                        {"kind": "schedule", "system": system[0], "preempt": {str(k): v for k, v in pre.items()}, "observed": a})
    elif not facts["first"]:
        chk.add_finding("memoize-race-stochastic", "probe (single-threaded emulation of two overlapping misses of one stochastic key): the second miss "
                        "returns a different value, but no forced schedule of the real worker threads showed two values for one key",
                        {"theorem": "Bptk.C08.Gen: cfg.memoizeFirstStoreWins = false (C08_witness_race_full)", "kind": "schedule", "system": "race2",
                         "preempt": {"3": 1}}, found_input=False)
    if xamb is not None:
        xs, pre, a = xamb
        chk.add_finding("memoize-race-stochastic-xmile",
                        f"XMILE-generated class, system {xs[0]} ({[op_show(o) for o in xs[2]]}), workers for {['e%d' % n for n in xs[3]]}, "
                        f"pre-emptions (line event of the generated memoize -> thread) {pre}: {a}",
                        {"kind": "xschedule", "system": xs[0], "preempt": {str(k): v for k, v in pre.items()}, "observed": a})
    elif not facts["xfirst"]:
        chk.add_finding("memoize-race-stochastic-xmile", "probe (single-threaded emulation): in the generated memoize a second miss of one stochastic key "
                        "while the first is being computed returns a different value, but no forced schedule showed two values for one key",
                        {"theorem": "Bptk.C08.Gen.violatedX", "kind": "xschedule", "system": "xrace2", "preempt": {"6": 1}}, found_input=False)
    if aggbad is not None:
        ops_, mm_ = aggbad
        small = shrink(ops_, lambda c_: agg_check(c_) is not None)
        mm_ = agg_check(small)
        chk.add_finding("stale-aggregate-operand",
                        f"after {[agg_show(o) for o in small]}: {mm_} — a model freshly built from the final definitions differs "
                        "(w = constant vector, m = constant matrix 'mod.m', ov = converter vector 'o v'; 'agg <kind> <array>' = converter defined as that aggregate)",
                        {"kind": "agg", "ops": small, "mismatch": mm_})
    elif not facts["operands"]:
        chk.add_finding("stale-aggregate-operand", "probe: x = w.arr_sum(), y = w.arr_mean(), k = c*3; members of w and c re-defined: the values of x, y, k "
                        "did not follow, but no history of the aggregate family differed from a freshly built model",
                        {"theorem": "Bptk.C08.Gen: cfg.operandsThroughMemo = false (C08_witness_baked_full)", "kind": "agg",
                         "ops": [("eval", "agg sum w", 0), ("wset", 1, 7.0)]}, found_input=False)
    if not facts["stores"] and not any(f.found_input for f in chk.findings):
        chk.add_finding("stale-after-scenario-reset", "probe: after a raw write to model.equations and one of the reset paths a dependent read still sees the old "
                        f"definition ({chk.notes.get('stores_consulted_by_memoize')}), but no generated history or bptk script differed from a fresh model",
                        {"theorem": "Bptk.C08.Gen: cfg.resetClearsAllStores = false (C08_witness_second_store_full)"}, found_input=False)
    if bpbad is not None:
        script, pre, bad = bpbad
        small = shrink(script, lambda c_: bp_run(c_, pre) is not None)
        bad = bp_run(small, pre)
        chk.add_finding("stale-or-unrepeatable-run",
                        f"bptk object with scenario constants {{'mod.c0': 5.0}}{' (model evaluated before it was registered)' if pre else ''}: "
                        f"{[bp_show(o) for o in small]} -> step {bad['step']}: {bad['what']}: {bad.get('observed')} vs {bad.get('fresh', bad.get('previous'))}",
                        {"kind": "bptk", "script": small, "pre_evaluate": pre, "violation": bad})
    if isobad is not None:
        chk.add_finding("memo-shared-between-models", f"{isobad}", {"kind": "isolated", "observed": isobad})
    if xnorm is not None:
        chk.add_finding("xmile-memo-key-not-normalised", f"generated memoize, start 0.3 dt 0.1: {xnorm}",
                        {"kind": "xnorm", "observed": xnorm})
    if xdiff is not None and xamb is None:
        chk.add_finding("correspondence", f"model and implementation disagree (forced schedule, XMILE-generated class) at protocol line {xdiff}: {xmeta[xdiff] if xdiff < len(xmeta) else None}",
                        {"correspondence": "Drive/C08 conc vs SdSimulation worker threads on an XMILE-generated class", "line": xdiff,
                         "case": xmeta[xdiff] if xdiff < len(xmeta) else None, "request": xreq[xdiff] if xdiff < len(xreq) else None,
                         "model": xmodel[xdiff] if xdiff < len(xmodel) else None, "impl": xexp[xdiff] if xdiff < len(xexp) else None},
                        found_input=False)
    if not ok:
        chk.add_finding("obligation", f"proof obligations of C08 no longer check: {why}",
                        {"theorem": "Bptk.C08.Gen.holds / Bptk.Props.C08", "detail": why}, found_input=False)
    if sdiff is not None and not stale:
        chk.add_finding("correspondence", f"model and implementation disagree (histories) at protocol line {sdiff}: request {sreq[sdiff]!r}",
                        {"correspondence": "Drive/C08 vs BPTK_Py Model (edit/evaluate histories)", "line": sdiff,
                         "request_context": sreq[max(0, sdiff - 25):sdiff + 1], "model": smodel[sdiff] if sdiff < len(smodel) else None,
                         "impl": sreal[sdiff] if sdiff < len(sreal) else None}, found_input=False)
    if cdiff is not None and amb is None:
        chk.add_finding("correspondence", f"model and implementation disagree (forced schedule) at protocol line {cdiff}: {cmeta[cdiff] if cdiff < len(cmeta) else None}",
                        {"correspondence": "Drive/C08 conc vs SdSimulation worker threads", "line": cdiff, "case": cmeta[cdiff] if cdiff < len(cmeta) else None,
                         "request": creq[cdiff] if cdiff < len(creq) else None, "model": cmodel[cdiff] if cdiff < len(cmodel) else None,
                         "impl": cexp[cdiff] if cdiff < len(cexp) else None}, found_input=False)


def _tuplify(x):
    return tuple(_tuplify(y) for y in x) if isinstance(x, list) else x


def replay(path):
    quiet_bptk_logging()
    sys.setrecursionlimit(5000)
    r = json.load(open(path))["replay"]
    if r.get("kind") == "history":
        ops = [_tuplify(o) for o in r["ops"]]
        print("history:", [op_show(o) for o in ops])
        mm = stale_check(r["kinds"], ops, r["nall"])
        print("mismatch with a freshly built model on the current tree:", mm)
        return 1 if mm else 0
    if r.get("kind") == "schedule":
        system = next(s for s in conc_systems() if s[0] == r["system"])
        pre = {int(k): v for k, v in r["preempt"].items()}
        bad = None
        for p in [pre] + [{i: 1} for i in range(12)]:
            obs = run_forced(system, p)
            bad = ambiguity(obs)
            if bad:
                print("system", system[0], "pre-emptions", p, "->", bad)
                break
        if not bad:
            print("no ambiguity under the stored schedule (nor under the 12 single pre-emptions tried)")
        return 1 if bad else 0
    if r.get("kind") == "bptk":
        script = [(o[0], list(o[1])) if o[0] == "run" else tuple(o) for o in r["script"]]
        script = [(o[0], dict(o[1])) + tuple(o[2:]) if o[0] in ("consts", "sessionconst") else o for o in script]
        print("script:", [bp_show(o) for o in script])
        bad = bp_run(script, r.get("pre_evaluate", False))
        print("violation on the current tree:", bad)
        return 1 if bad else 0
    if r.get("kind") == "isolated":
        bad = models_isolated()
        print("models isolated:", bad or "yes")
        return 1 if bad else 0
    if r.get("kind") == "agg":
        ops = [_tuplify(o) for o in r["ops"]]
        print("history:", [agg_show(o) for o in ops])
        mm = agg_check(ops)
        print("mismatch with a model freshly built from the final definitions, on the current tree:", mm)
        return 1 if mm else 0
    if r.get("kind") in ("xschedule", "xnorm"):
        import shutil
        scratch = scratch_dir("c08x")
        try:
            if r["kind"] == "xnorm":
                bad = xmile_normalisation(scratch)
                print("generated memoize on the grid start 0.3, dt 0.1:", bad or "keys normalised, one value per grid point")
                return 1 if bad else 0
            xs = next(x for x in xmile_systems() if x[0] == r["system"])
            pre = {int(k): v for k, v in r["preempt"].items()}
            bad = None
            for pp in [pre] + [{i: 1} for i in range(30)]:
                bad = ambiguity(run_forced_x(xs, pp, scratch))
                if bad:
                    print("XMILE-generated class, system", xs[0], "pre-emptions", pp, "->", bad)
                    break
            if not bad:
                print("no ambiguity under the stored schedule (nor under the 30 single pre-emptions tried)")
            return 1 if bad else 0
        finally:
            shutil.rmtree(scratch, ignore_errors=True)
    print("replay names a proof obligation / correspondence stream:", r)
    return 1
