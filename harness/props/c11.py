"""C11 — agent events reach exactly the addressed agent, once, at the right step.

Probes (one per repaired mechanism) + Gen obligations + correspondence of the Lean model (Drive/C11) with the
real SimultaneousScheduler on generated (population history, send script, dt), using instrumented Agent
subclasses that log every handler invocation + an independent reference check of the property statement on
the real code (failing-input search, shrinking, replay) + a lattice check of the delay->steps conversion.

History format (JSON-able):
  ["create", ty] ["delete", [ids]] ["configure", [[ty, n], ...]] ["reset"]
  ["send", rid, delay, then]            enqueue_event between two steps
  ["broadcast", ty, delay]              broadcast_event between two steps
  ["step", {"<agent id>": [[rid, delay, then], ...]}]     run one step; the listed agents send from act()
  ["random_events", ty, num, delay, seed]    random.seed(seed); model.random_events(type, num, factory)
delay: None (plain Event) or a decimal string ("0.3", "2"): DelayedEvent(delay=float/int of it);
then / script entries: EFFECTS executed by the handler / by act(), in order (wave 2):
  ["send", rid, delay, then?, name?, exc?]  (old form [rid, delay] in a `then`, [rid, delay, then] in a script)
  ["create", ty] ["delete", [ids]] ["configure", spec] ["reset"] ["broadcast", ty, delay]      population changes DURING the step
  ["state", st]                             the agent sets its own state (extended histories only)
A step whose script / pending handlers contain a non-send effect is sent to the model as ONE `stepx <prog>` request
(Core `midStep`, user code interleaved); otherwise as `step` followed by the sends (Core `stepFn`).

Wave 7: ["step", script, "model"] runs the step through Model.run_step(k); ["run", [script, …]] runs len(scripts) steps
through Model.run() (run_specs(0, R-1, dt), R rounds of round(1/dt) steps; scripts: sends only); script keys "B" / "E":
sends made by Model.begin_round / end_round; receiver ids may be negative (never an agent) or floats equal to an id
(2.0 IS id 2); delays may be negative (= no delay); `run_pair` interleaves the operations of two models alive at once.

Extended histories (wave 2b, `run_xhistory`, model requests `x…`): additionally
  ["createT", ty, state, [[state, [names]], ...]]   agent whose initialize() registers exactly this handler table
  ["state", id, st]                                 agent.state = st between steps
  ["send", rid, delay, then, name, exc]             exc: None | "KeyError" (swallowed) | "RuntimeError" (leaves run_step)
states: 0 = "active", k = "s<k>"; event names: 0 = "ev", k = "ev<k>".
"""
import json
import os
import math
import random as _pyrandom
from fractions import Fraction
from common import *

TYPES = ["a", "b"]


# ------------------------------------------------------------------ real side
def num(s):
    return int(s) if ("." not in s and "e" not in s.lower()) else float(s)


def exact_steps(delay, dt):
    """Reference: ceil(delay/dt) in exact arithmetic on the decimal strings; an undelayed event: 0."""
    if delay is None:
        return 0
    return max(0, math.ceil(Fraction(delay) / Fraction(dt)))


def sname(k):
    return "active" if k == 0 else f"s{k}"


def ename(k):
    return "ev" if k == 0 else f"ev{k}"


def norm_eff(e, in_script):
    """Effect in canonical form (list starting with the kind)."""
    if isinstance(e[0], str):
        if e[0] == "send":
            e = list(e) + [None] * (6 - len(e))
            return ["send", e[1], e[2], e[3] or [], e[4] or 0, e[5]]
        return list(e)
    return ["send", e[0], e[1], (e[2] if in_script and len(e) > 2 else []), 0, None]


def is_pop_eff(e, in_script=False):
    return norm_eff(e, in_script)[0] not in ("send", "state")


class Sim:
    """The real BPTK_Py model with logging agents."""
    COUNT = 0

    def __init__(self, dt):
        from BPTK_Py import Model, Agent, DataCollector, SimultaneousScheduler
        sim = self

        class LogAgent(Agent):
            def initialize(self):
                meta = sim.next_meta
                if meta is None:
                    self.register_event_handler(["active"], "ev", self.on_ev)
                else:
                    state, tbl = meta
                    for st, names in tbl:
                        self.eventHandlers.setdefault(sname(st), {})       # a state may have an empty table
                        for nm in names:
                            self.register_event_handler([sname(st)], ename(nm), self.on_ev)
                    self.state = sname(state)

            def on_ev(self, event):
                if event.data.get("sim") != sim.uid:       # an event that was sent in ANOTHER model
                    sim.foreign.append((sim.step_no, self.id, event.data.get("seq")))
                    return
                sim.handled.append((sim.step_no, self.id, event.data["seq"]))
                for eff in event.data["then"]:
                    sim.do_effect(self, eff, False)
                exc = event.data.get("exc")
                if exc == "KeyError":
                    raise KeyError("raised inside the handler")
                if exc:
                    raise RuntimeError("handler failed")

            def act(self, time, round_no, step_no):
                for eff in sim.script.get(str(self.id), []):
                    sim.do_effect(self, eff, True)

        class LogModel(Model):
            def begin_round(self, time, sim_round, step):
                if sim.run_scripts is not None:          # inside Model.run(): one script per step
                    sim.step_no += 1
                    sim.run_marks.append(len(sim.issued))
                    sim.script = sim.run_scripts.pop(0) if sim.run_scripts else {}
                for eff in sim.script.get("B", []):
                    sim.do_effect(None, eff, True)

            def end_round(self, time, sim_round, step):
                for eff in sim.script.get("E", []):
                    sim.do_effect(None, eff, True)

        Sim.COUNT += 1
        self.uid = Sim.COUNT
        self.foreign = []
        self.dt = dt
        self.run_scripts = None
        self.run_marks = []
        self.m = LogModel(starttime=0, stoptime=10 ** 6, dt=num(dt), name="c11", scheduler=SimultaneousScheduler(),
                          data_collector=DataCollector())
        for t in TYPES:
            self.m.register_agent_factory(t, (lambda tt: (lambda aid, model, props: LogAgent(aid, model, props, tt)))(t))
        self.nseq = 0
        self.step_no = 0           # number of steps started
        self.handled = []          # (step, agent id, seq) in handler order
        self.sent = {}             # seq -> dict(rid, delay, sent_at)
        self.issued = []           # sends since the last flush, in issue order: (seq, rid, delay)
        self.trace = []            # effects executed since the last flush, in execution order (canonical form + seq for sends)
        self.script = {}
        self.stats_base = 0
        self.stats_valid = True    # event_statistics == handler invocations (not after a reset DURING a step)
        self.next_meta = None
        self.thens = {}            # seq -> effects of its handler, for events not yet handled

    def make_event(self, sender, rid, delay, then, name=0, exc=None):
        from BPTK_Py import Event, DelayedEvent
        seq = self.nseq
        self.nseq += 1
        data = {"seq": seq, "then": [list(x) for x in then], "exc": exc, "sim": self.uid}
        ev = Event(ename(name), sender, rid, data) if delay is None else DelayedEvent(ename(name), sender, rid, num(delay), data)
        self.sent[seq] = {"rid": rid, "delay": delay, "sent_at": self.step_no, "name": name, "exc": exc}
        self.issued.append((seq, rid, delay))
        self.trace.append(["send", rid, delay, then, name, exc, seq])
        if then:
            self.thens[seq] = then
        return ev

    def send(self, sender, rid, delay, then, name=0, exc=None):
        self.m.enqueue_event(self.make_event(sender, rid, delay, then, name, exc))

    def population(self, k, arg=None, arg2=None):
        m = self.m
        if k == "create":
            m.create_agent(TYPES[arg], {})
        elif k == "delete":
            m.delete_agent(arg[0]) if len(arg) == 1 else m.delete_agents(list(arg))
        elif k == "configure":
            m.configure_agents([{"name": TYPES[t], "count": n} for t, n in arg])
        elif k == "reset":
            m.reset()                          # also empties event_statistics
            self.stats_base = len(self.handled)
        elif k == "broadcast":
            m.broadcast_event(TYPES[arg], lambda aid: self.make_event(0, aid, arg2, []))

    def do_effect(self, agent, eff, in_script):
        """user code running inside a step (handler or act())"""
        e = norm_eff(eff, in_script)
        k = e[0]
        if k == "send":
            self.send(agent.id if agent is not None else 0, e[1], e[2], e[3], e[4], e[5])
        elif k == "state":
            agent.state = sname(e[1])
            self.trace.append(["state", agent.id, e[1]])
        else:
            if k == "reset":
                self.stats_valid = False
            if k != "broadcast":
                self.trace.append(e)
            self.population(k, *e[1:])

    def pending(self):
        # the queue, the inboxes and the scheduler's hold list are read by attribute name: a renamed one is skipped
        # (this set only words the message "still queued" / "never handled")
        mine = lambda evs: {e.data["seq"] for e in (evs or ()) if isinstance(getattr(e, "data", None), dict) and e.data.get("sim") == self.uid}
        s = mine(getattr(self.m, "events", None))
        for a in getattr(self.m, "agents", None) or ():
            s |= mine(getattr(a, "events", None))
        s |= mine(getattr(self.m.scheduler, "delayed_events", None))
        return s

    def apply(self, op):
        """Runs one op. Returns the canonical reply line pieces: (kind, payload)."""
        m, k = self.m, op[0]
        self.issued = []
        self.trace = []
        if k in ("create", "delete", "configure", "reset"):
            self.population(k, *op[1:])
        elif k == "createT":
            self.next_meta = (op[2], op[3])
            try:
                m.create_agent(TYPES[op[1]], {})
            finally:
                self.next_meta = None
        elif k == "state":
            a = m.agent(op[1])
            if a is not None:
                a.state = sname(op[2])
        elif k == "send":
            e = norm_eff(op, True)
            self.send(0, e[1], e[2], e[3], e[4], e[5])
        elif k == "broadcast":
            self.population("broadcast", op[1], op[2])
        elif k == "random_events":
            _pyrandom.seed(op[4])
            m.random_events(TYPES[op[1]], op[2], lambda aid: self.make_event(0, aid, op[3], []))
        elif k == "run":                         # Model.run(): R rounds of round(1/dt) steps
            spr = round(1 / float(self.dt))
            n0 = len(self.handled)
            self.run_scripts, self.run_marks = [dict(x) for x in op[1]], []
            self.stats_base = len(self.handled)        # scheduler.run() starts with data_collector.reset()
            m.run_specs(0, len(op[1]) // spr - 1, num(self.dt))
            try:
                m.run()
            finally:
                self.run_scripts, self.script = None, {}
                m.run_specs(0, 10 ** 6, num(self.dt))
                for _, _, q in self.handled[n0:]:
                    self.thens.pop(q, None)
            return self.handled[n0:], list(self.run_marks)
        elif k == "step":
            self.script = op[1]
            before = {e.data["seq"] for e in (getattr(m, "events", None) or ()) if e.data.get("sim") == self.uid}
            n0 = len(self.handled)
            self.step_no += 1
            try:
                if len(op) > 2 and op[2] == "model":
                    m.run_step(self.step_no - 1)
                else:
                    m.scheduler.run_step(m, 0, self.step_no - 1, None, True)
            finally:
                self.script = {}
                for _, _, q in self.handled[n0:]:
                    self.thens.pop(q, None)
            hs = self.handled[n0:]
            gone = before - self.pending() - {h[2] for h in hs}
            return hs, sorted(gone)
        return None


def frac_str(delay):
    f = max(Fraction(0), Fraction(delay))
    return f"{f.numerator}/{f.denominator}"


def mrid(r):
    """receiver id as the model sees it: an id equal to an integer IS that id (2.0 == 2); a negative or fractional id can
    never be an agent's: some id that is never handed out"""
    if r == int(r) and r >= 0:
        return int(r)
    return 10 ** 6 + int(abs(r) * 4)


def send_line(rid, delay):
    return f"send {mrid(rid)} 0" if delay is None else f"sendq {mrid(rid)} {frac_str(delay)}"


def eff_token(e, in_script):
    """effect -> token of the `stepx` program"""
    e = norm_eff(e, in_script)
    k = e[0]
    if k == "send":
        return f"s{mrid(e[1])}/0" if e[2] is None else f"q{mrid(e[1])}/{frac_str(e[2])}"
    if k == "create":
        return f"c{e[1]}"
    if k == "delete":
        return "d" + (".".join(map(str, e[1])) or "-")
    if k == "configure":
        return "g" + (".".join(f"{t}:{n}" for t, n in e[1]) or "-")
    if k == "reset":
        return "r"
    if k == "broadcast":
        return f"b{e[1]}/0" if e[2] is None else f"p{e[1]}/{frac_str(e[2])}"
    raise ValueError(e)


def prog_string(script, thens):
    ents = [f"A{a}=" + "|".join(eff_token(e, True) for e in effs)
            for a, effs in sorted(((a, e) for a, e in script.items() if a.isdigit()), key=lambda kv: int(kv[0])) if effs]
    ents += [f"E{q}=" + "|".join(eff_token(e, False) for e in effs) for q, effs in sorted(thens.items()) if effs]
    return ";".join(ents) or "-"


def canon_handled(hs, sent_at):
    """Only what the statement fixes: per (agent, step the event was sent in) the order of handling."""
    groups = {}
    for agent, seq in hs:
        groups.setdefault((agent, sent_at.get(seq, -1)), []).append(seq)
    return ";".join(f"{a}@{s}:" + ",".join(map(str, v)) for (a, s), v in sorted(groups.items())) or "-"


class Shadow:
    """Live population, independent of model and implementation (same bookkeeping as C14's reference)."""
    def __init__(self):
        self.live, self.next = [], 0     # [id, ty]
    def apply(self, op):
        k = op[0]
        if k == "create":
            self.live.append([self.next, op[1]]); self.next += 1
        elif k == "delete":
            self.live = [a for a in self.live if a[0] not in op[1]]
        elif k == "configure":
            self.live = []
            for t, n in op[1]:
                for _ in range(n):
                    self.apply(("create", t))
        elif k == "reset":
            self.live = []
        elif k == "createT":
            self.live.append([self.next, op[1]]); self.next += 1
    def ids(self):
        return [a[0] for a in self.live]
    def of_type(self, t):
        return [a[0] for a in self.live if a[1] == t]


def run_history(dt, ops):
    """Real code on (dt, ops).
    Returns dict(req, real, viol, steps_started): request lines for the model with the implementation's canonical
    replies, and the violations of the property statement found by the reference check [(key, text)]."""
    g = run_history_gen(dt, ops)
    try:
        while True:
            next(g)
    except StopIteration as e:
        return e.value


def run_pair(dt_a, ops_a, dt_b, ops_b):
    """Two models alive in one process, their operations interleaved one by one (state that should be per model but
    lives in a class attribute or a module global shows up here). Returns the two result dicts."""
    gens = [run_history_gen(dt_a, ops_a), run_history_gen(dt_b, ops_b)]
    res = [None, None]
    while any(g is not None for g in gens):
        for i, g in enumerate(gens):
            if g is None:
                continue
            try:
                next(g)
            except StopIteration as e:
                res[i], gens[i] = e.value, None
    return res


def run_history_gen(dt, ops):
    """generator form of run_history: yields after every operation"""
    sim, sh = Sim(dt), Shadow()
    req, real = ["new", f"dt {frac_str(dt)}"], ["ok", "ok"]
    viol = []
    live_at = {}                       # step -> ids alive at the start of that step
    gone_log = []                      # (step, seqs that left the queue without being handled) - evidence only
    raised = None
    n_midstep = 0
    for op in ops:
        k = op[0]
        if k != "step":
            sh.apply(op)
        prog = None
        if k == "step":
            live_at[sim.step_no + 1] = sh.ids()
            if any(is_pop_eff(e, True) for effs in op[1].values() for e in effs) or \
               any(is_pop_eff(e) for effs in sim.thens.values() for e in effs):
                prog = prog_string(op[1], sim.thens)
        if k == "run":
            for j in range(len(op[1])):
                live_at[sim.step_no + 1 + j] = sh.ids()
        type_ids = sh.of_type(op[1]) if k == "random_events" else None
        first_step = sim.step_no + 1
        try:
            out = sim.apply(op)
        except Exception as e:          # run_step must not raise on any history
            raised = (op, e)
            absent = sorted({v["rid"] for v in sim.sent.values()} - set(sh.ids()))
            viol.append(("receiver-lookup-raises" if isinstance(e, (IndexError, TypeError, AttributeError)) else "raises",
                         f"step {sim.step_no}: {k} raises {type(e).__name__}: {e} "
                         f"(live ids {sh.ids()}, receivers of sent events without a live agent: {absent})"))
            break
        sent_at = {s: v["sent_at"] for s, v in sim.sent.items()}
        if k == "create":
            req.append(f"create {op[1]}"); real.append("ok")
        elif k == "delete":
            req.append("delete " + (",".join(map(str, op[1])) or "-")); real.append("ok")
        elif k == "configure":
            req.append("configure " + (",".join(f"{t}:{n}" for t, n in op[1]) or "-")); real.append("ok")
        elif k == "reset":
            req.append("reset"); real.append("ok")
        elif k == "send":
            (seq, rid, delay), = sim.issued
            req.append(send_line(rid, delay)); real.append(f"seq={seq}")
        elif k == "broadcast":
            req.append(f"broadcastq {op[1]} {frac_str(op[2])}" if op[2] is not None else f"broadcast {op[1]} 0")
            real.append("seqs=" + (",".join(f"{s}>{r}" for s, r, _ in sim.issued) or "-"))
        elif k == "random_events":
            rids = [r for _, r, _ in sim.issued]
            want = min(op[2], len(type_ids))
            if len(rids) != want or any(r not in type_ids for r in rids):
                viol.append(("random-receiver", f"random_events({TYPES[op[1]]!r}, {op[2]}) with live ids {type_ids} of that type created events for {rids} "
                                                f"(expected {want} events, each for a live agent of the type)"))
                draws = [type_ids.index(r) if r in type_ids else 0 for r in rids]
            else:
                draws = [type_ids.index(r) for r in rids]
            dr = ".".join(map(str, draws)) or "-"
            req.append(f"randomeventsq {op[1]} {op[2]} {frac_str(op[3])} {dr}" if op[3] is not None else f"randomevents {op[1]} {op[2]} 0 {dr}")
            real.append("seqs=" + (",".join(f"{s}>{r}" for s, r, _ in sim.issued) or "-"))
        elif k == "run":
            hs_all, marks = out
            marks = marks + [len(sim.issued)]
            for j in range(len(op[1])):
                st = first_step + j
                req.append("step")
                real.append(f"step={st};h={canon_handled([(a, q) for s2, a, q in hs_all if s2 == st], sent_at)}")
                for seq, rid, delay in (sim.issued[marks[j]:marks[j + 1]] if j + 1 < len(marks) else []):
                    req.append(send_line(rid, delay)); real.append(f"seq={seq}")
            if len(marks) - 1 != len(op[1]):
                viol.append(("run-steps", f"Model.run() with {len(op[1])} steps planned executed {len(marks) - 1}"))
        elif k == "step":
            hs, gone = out
            for t in sim.trace:                      # what user code did to the population during the step, in order
                if t[0] in ("create", "delete", "configure", "reset"):
                    sh.apply(t)
            gone_log.append((sim.step_no, gone))
            if prog is None:
                req.append("step")
                real.append(f"step={sim.step_no};h={canon_handled([(a, s) for _, a, s in hs], sent_at)}")
                for seq, rid, delay in sim.issued:       # sends made during the step, in the order they happened
                    req.append(send_line(rid, delay)); real.append(f"seq={seq}")
            else:
                n_midstep += 1
                req.append("stepx " + prog)
                real.append(f"step={sim.step_no};h={canon_handled([(a, s) for _, a, s in hs], sent_at)};"
                            f"e={','.join(f'{s}>{mrid(r)}' for s, r, _ in sim.issued) or '-'};"
                            f"a={','.join(str(a.id) for a in sim.m.agents) or '-'};stuck=0")
                if [a.id for a in sim.m.agents] != sh.ids():
                    viol.append(("population", f"step {sim.step_no}: live ids {[a.id for a in sim.m.agents]} after user code did {sim.trace}; expected {sh.ids()}"))
        yield
    # ---- reference check of the statement on the handler log
    if sim.foreign:
        st, agent, seq = sim.foreign[0]
        viol.append(("foreign-event", f"step {st}: agent {agent} of this model handled event #{seq} that was sent in another model "
                                      f"alive in the same process ({len(sim.foreign)} such events)"))
    by_seq = {}
    pending = sim.pending()
    for st, agent, seq in sim.handled:
        by_seq.setdefault(seq, []).append((st, agent))
    for seq, v in sorted(sim.sent.items()):
        n = exact_steps(v["delay"], dt)
        due = v["sent_at"] + 1 + n
        hs = by_seq.get(seq, [])
        what = f"event #{seq} to id {v['rid']} sent in step {v['sent_at']}" + (f" with delay {v['delay']} (dt {dt}: {n} steps)" if v["delay"] is not None else "")
        for st, agent in hs:
            if agent != v["rid"]:
                viol.append(("wrong-receiver", f"{what} was handled by the agent with id {agent} in step {st} (live ids then {live_at.get(st)})"))
        if len(hs) > 1:
            viol.append(("not-once", f"{what} was handled {len(hs)} times: {hs}"))
        for st, agent in hs[:1]:
            if st != due and agent == v["rid"]:
                viol.append(("delay-steps" if n > 0 or v["delay"] is not None else "undelayed-step",
                             f"{what} was handled in step {st}, expected step {due}"))
        if not hs and due <= sim.step_no and raised is None and v["rid"] in live_at.get(due, []):
            if seq in pending:
                viol.append(("delay-steps", f"{what} is still queued after step {sim.step_no}, expected to be handled in step {due}"))
            else:
                # a delayed event that left the queue in a wrong step (receiver absent then) shows up here: same class
                viol.append(("delay-steps" if n > 0 else "lost",
                             f"{what} was never handled although id {v['rid']} was alive in step {due} ({sim.step_no} steps run)"))
    order = {}
    for st, agent, seq in sim.handled:
        order.setdefault((st, agent, sim.sent[seq]["sent_at"]), []).append(seq)
    for (st, agent, sa), seqs in sorted(order.items()):
        if seqs != sorted(seqs):
            viol.append(("same-step-order", f"agent {agent} handled the events sent to it in step {sa} in the order {seqs} (step {st}); send order is {sorted(seqs)}"))
            break
    # DataCollector.event_statistics counts the delivered events (every delivered event is handled here)
    try:
        recorded = sum(n for per in sim.m.data_collector.event_statistics.values() for n in per.values())
    except Exception:
        recorded = None
    if raised is None and sim.stats_valid and recorded is not None and recorded != len(sim.handled) - sim.stats_base:
        viol.append(("event-statistics", f"DataCollector.event_statistics counts {recorded} delivered events, {len(sim.handled) - sim.stats_base} handler invocations were logged since the last reset"))
    return {"req": req, "real": real, "viol": viol, "steps": sim.step_no, "nsent": sim.nseq, "nhandled": len(sim.handled),
            "ndropped": sum(len(g) for _, g in gone_log), "midsteps": n_midstep}


# ------------------------------------------------------------------ extended histories (wave 2b)
def tbl_str(tbl):
    return ",".join(f"{st}:" + ".".join(map(str, names)) for st, names in tbl) or "-"


def xsend_line(rid, delay, name, exc):
    r = 1 if exc == "RuntimeError" else 0
    return f"xsend {rid} 0 {name} {r}" if delay is None else f"xsendq {rid} {frac_str(delay)} {name} {r}"


def run_xhistory(dt, ops):
    """Real code on an extended history: handler tables, states without a table, unknown names, raising handlers.
    Reference check = what the statement still guarantees there (Lean `XClauses`): only the addressed agent, at most
    once, never before the due step."""
    sim = Sim(dt)
    m = sim.m
    req, real = ["xnew", f"dt {frac_str(dt)}"], ["ok", "ok"]
    viol = []
    aborted = 0
    for op in ops:
        k = op[0]
        ab = 0
        try:
            out = sim.apply(op)
        except RuntimeError as e:
            if k != "step" or "handler failed" not in str(e):
                viol.append(("raises", f"step {sim.step_no}: {k} raises {type(e).__name__}: {e}"))
                break
            ab, aborted = 1, aborted + 1
            out = None
        except Exception as e:
            viol.append(("raises", f"step {sim.step_no}: {k} raises {type(e).__name__}: {e}"))
            break
        sent_at = {s: v["sent_at"] for s, v in sim.sent.items()}
        if k == "create":
            req.append(f"xcreate {op[1]}"); real.append("ok")
        elif k == "createT":
            req.append(f"xcreatet {op[1]} {op[2]} {tbl_str(op[3])}"); real.append("ok")
        elif k == "delete":
            req.append("xdelete " + (",".join(map(str, op[1])) or "-")); real.append("ok")
        elif k == "configure":
            req.append("xconfigure " + (",".join(f"{t}:{n}" for t, n in op[1]) or "-")); real.append("ok")
        elif k == "reset":
            req.append("xreset"); real.append("ok")
        elif k == "state":
            req.append(f"xstate {op[1]} {op[2]}"); real.append("ok")
        elif k == "send":
            t, = sim.trace
            req.append(xsend_line(t[1], t[2], t[4], t[5])); real.append(f"seq={t[6]}")
        elif k == "broadcast":
            req.append(f"xbroadcastq {op[1]} {frac_str(op[2])}" if op[2] is not None else f"xbroadcast {op[1]} 0")
            real.append("seqs=" + (",".join(f"{s}>{r}" for s, r, _ in sim.issued) or "-"))
        elif k == "step":
            hs = [h for h in sim.handled if h[0] == sim.step_no]
            inb = ",".join(f"{a.id}:" + ".".join(map(str, sorted(e.data["seq"] for e in a.events))) for a in m.agents if a.events) or "-"
            req.append("xstep")
            real.append(f"step={sim.step_no};h={canon_handled([(a, s) for _, a, s in hs], sent_at)};ab={ab};in={inb}")
            for t in sim.trace:
                if t[0] == "send":
                    req.append(xsend_line(t[1], t[2], t[4], t[5])); real.append(f"seq={t[6]}")
                elif t[0] == "state":
                    req.append(f"xstate {t[1]} {t[2]}"); real.append("ok")
    by_seq = {}
    for st, agent, seq in sim.handled:
        by_seq.setdefault(seq, []).append((st, agent))
    for seq, hs in sorted(by_seq.items()):
        v = sim.sent[seq]
        due = v["sent_at"] + 1 + exact_steps(v["delay"], dt)
        what = f"event #{seq} ({ename(v['name'])}) to id {v['rid']} sent in step {v['sent_at']}" + (f" with delay {v['delay']} (dt {dt})" if v["delay"] is not None else "")
        for st, agent in hs:
            if agent != v["rid"]:
                viol.append(("wrong-receiver", f"{what} was handled by the agent with id {agent} in step {st}"))
            if st < due:
                viol.append(("early", f"{what} was handled in step {st}, before its due step {due}"))
        if len(hs) > 1:
            viol.append(("not-once", f"{what} was handled {len(hs)} times: {hs}"))
    return {"req": req, "real": real, "viol": viol, "steps": sim.step_no, "nsent": sim.nseq, "nhandled": len(sim.handled),
            "aborted": aborted, "held": sum(len(a.events) for a in m.agents)}


# ------------------------------------------------------------------ probes (one per repaired mechanism)
def probe():
    def handled(dt, ops):
        try:
            r = run_history(dt, ops)
        except Exception:
            return None
        return r
    f = {}
    r = handled("1", [["create", 0]] * 4 + [["delete", [1]], ["send", 2, None, []], ["send", 3, None, []], ["send", 1, None, []], ["step", {}]])
    f["routesById"] = r is not None and not r["viol"] and r["real"][-1] == "step=1;h=2@0:0;3@0:1"
    r = handled("0.1", [["create", 0], ["send", 0, "1.0", []]] + [["step", {}]] * 13)
    f["delayStepsExact"] = r is not None and not any(k == "delay-steps" for k, _ in r["viol"]) and r["nhandled"] == 1
    r = handled("1", [["create", 0], ["send", 0, "1", []], ["send", 0, "1", []], ["send", 0, "2", []], ["send", 0, "2", []]] + [["step", {}]] * 4)
    f["requeueFifo"] = r is not None and not any(k == "same-step-order" for k, _ in r["viol"]) and r["nhandled"] == 4
    r = handled("1", [["create", 0]] * 3 + [["send", -1, None, []], ["send", -2, "1", []], ["send", 2.0, None, []]] + [["step", {}]] * 3)
    f["negativeIdDropped"] = r is not None and not r["viol"] and r["nhandled"] == 1
    try:                                             # two models alive at once: B must not see A's event
        ra, rb = run_pair("1", [["create", 0], ["send", 0, None, []], ["step", {}], ["step", {}]],
                          "1", [["create", 0], ["step", {}], ["step", {}], ["step", {}]])
        f["queuePerModel"] = not ra["viol"] and not rb["viol"] and ra["nhandled"] == 1 and rb["nhandled"] == 0
    except Exception:
        f["queuePerModel"] = False
    return f


def countdown_steps(delay, dt, cap=100000):
    """How many times the real `Scheduler.handle_delayed_event` keeps a DelayedEvent(delay) back."""
    from BPTK_Py import DelayedEvent, Scheduler
    try:
        s = Scheduler()
        e = DelayedEvent("ev", 0, 0, num(delay), None)
        n = 0
        while s.handle_delayed_event(e, float(dt)) is None:
            n += 1
            if n % 4096 == 0 and isinstance(getattr(s, "delayed_events", None), list):
                s.delayed_events = []              # only keeps the helper's hold list short
            if n > cap:
                break
        return n
    except Exception:
        return None                                # the helper's signature / internals changed: measure through run_step


def steps_via_scheduler(delay, dt, cap):
    """How many steps the real SimultaneousScheduler.run_step keeps a DelayedEvent(delay) back (the event is handled in
    step kept+1), observed on a model with this dt — the path on which the scheduler passes whatever it knows about the
    run (dt, steps per round, …) to handle_delayed_event. None: not handled within `cap` steps."""
    sim = Sim(dt)
    sim.m.create_agent("a", {})
    sim.send(0, 0, delay, [])
    for k in range(cap):
        sim.step_no += 1
        sim.m.scheduler.run_step(sim.m, 0, k, None, True)
        if sim.handled:
            return sim.handled[0][0] - 1
    return None


ROW_DTS = ["0.3", "0.4", "0.6", "0.75", "0.15", "1.5", "2", "2.5", "0.1", "0.25", "0.05", "1"]
ROW_DELAYS = ["1", "2", "0.3", "0.5", "0.6", "0.75", "1.5", "3", "0.9", "1.2", "4", "0.45"]


def probe_rows():
    """(delay, dt, probed step count) for the kernel-decided lattice of Gen/C11.lean"""
    rows = []
    for dt in ROW_DTS:
        for delay in ROW_DELAYS + [str(Fraction(dt) * 2), str(float(Fraction(dt) * 7 / 2))]:
            if "/" in delay:
                delay = str(float(Fraction(delay)))
            e = exact_steps(delay, dt)
            try:
                got = steps_via_scheduler(delay, dt, e + 3)
            except Exception:
                got = None
            rows.append((delay, dt, got))
    return rows


def gen_lean(f, rows=()):
    good = all(f.values())
    b = lambda x: "true" if x else "false"
    body = ("theorem model_applies : facts.good = true := by decide\n" if good else
            "theorem model_does_not_apply : facts.good = false := by decide\n")
    # the mechanism of the pinned tree behind each failed probe, as a kernel-checked witness (the harness replays
    # the same inputs on the implementation: corpus/C11)
    if not f["routesById"]:
        body += "theorem pinned_positional_lookup : type_of% C11_witness_positional := C11_witness_positional\n"
    if not f["delayStepsExact"]:
        body += "theorem pinned_float_countdown : type_of% C11_witness_float_countdown := C11_witness_float_countdown\n"
    if not f["requeueFifo"]:
        body += "theorem pinned_requeue_reversal : type_of% C11_witness_requeue_reversal := C11_witness_requeue_reversal\n"
    if not f["negativeIdDropped"]:
        body += "theorem pinned_negative_index : type_of% C11_witness_negative_index := C11_witness_negative_index\n"
    if not f["queuePerModel"]:
        body += "theorem pinned_shared_queue : type_of% C11_witness_shared_queue := C11_witness_shared_queue\n"
    return ("import Bptk.Props.C11\n/-! GENERATED by harness/props/c11.py from /repo on every run — do not edit. -/\n"
            "namespace Bptk.C11.Gen\n"
            f"def facts : Facts := {{ routesById := {b(f['routesById'])}, delayStepsExact := {b(f['delayStepsExact'])}, "
            f"requeueFifo := {b(f['requeueFifo'])}, negativeIdDropped := {b(f['negativeIdDropped'])}, "
            f"queuePerModel := {b(f['queuePerModel'])} }}\n" + body +
            "theorem holds : C11_full := C11_full_proved\n#print axioms holds\n"
            "theorem holds_midstep : type_of% @C11_midstep := @C11_midstep\n#print axioms holds_midstep\n"
            "theorem holds_extended : type_of% @C11_x_partial := @C11_x_partial\n#print axioms holds_extended\n"
            "theorem holds_refinement : type_of% @C11_full_x := @C11_full_x\n#print axioms holds_refinement\n"
            "theorem holds_float_conversion : type_of% @delay_float_steps := @delay_float_steps\n#print axioms holds_float_conversion\n"
            "theorem holds_float_countdown : type_of% @floatKeep_exact := @floatKeep_exact\n#print axioms holds_float_countdown\n"
            "theorem float_budget_doubles : type_of% stepBudget_double_arith := stepBudget_double_arith\n#print axioms float_budget_doubles\n"
            "theorem holds_two_models : type_of% @C11_two_models := @C11_two_models\n#print axioms holds_two_models\n"
            + rows_lean(rows) +
            "end Bptk.C11.Gen\n")


def rows_lean(rows):
    """the probed (dt, delay) rows and the kernel-decided obligation that each equals ⌈delay/dt⌉ (ℚ: stepRow_ok_ceil)"""
    if not rows:
        return ""
    def row(delay, dt, got):
        d, t = Fraction(delay), Fraction(dt)
        return f"⟨{d.numerator}, {d.denominator}, {t.numerator}, {t.denominator}, {got if got is not None else 10 ** 9}⟩"
    body = "def probedRows : List StepRow := [\n  " + ",\n  ".join(row(*r) for r in rows) + "]\n"
    good = all(got == exact_steps(delay, dt) for delay, dt, got in rows)
    if good:
        body += ("/-- every probed step count of the real scheduler equals ⌈delay/dt⌉ (incl. dts whose reciprocal is no whole number) -/\n"
                 "theorem probed_rows_exact : probedRows.all StepRow.ok = true := by decide\n#print axioms probed_rows_exact\n")
    else:
        body += ("/-- some probed step count differs from ⌈delay/dt⌉ -/\n"
                 "theorem probed_rows_differ : probedRows.all StepRow.ok = false := by decide\n#print axioms probed_rows_differ\n"
                 "theorem steps_per_round_mechanism : type_of% C11_witness_steps_per_round := C11_witness_steps_per_round\n")
    return body


# ------------------------------------------------------------------ generators
DTS = ["1", "0.5", "0.25", "0.2", "0.1", "0.05"]
DTS_ODD = ["0.3", "0.4", "0.6", "0.75", "0.15", "1.5", "2", "2.5"]      # wave 9: 1/dt is not a whole number; dt > 1
DTS_ALL = DTS + DTS_ODD


def delays_for(dt):
    d = Fraction(dt)
    def dec(fr):
        s = f"{float(fr):.6f}".rstrip("0")
        return s + "0" if s.endswith(".") else s
    out = [None, None, "0", dec(d), dec(2 * d), dec(3 * d), dec(d / 2), dec(d * 3 / 2), dec(5 * d), "1.0", "1", "0.3", "0.7", "2",
           "-1", "-0.5", "0.0"]                     # wave 7: negative / float zero delays are "no delay"
    return out


def rand_history(rng, dt):
    sh, ops = Shadow(), []
    ds = delays_for(dt)
    def target():
        ids = sh.ids()
        k = rng.below(20)
        if k == 0:
            return -rng.range(1, 3)                # wave 7: a negative id is never an agent's (agents[-1] is the last agent)
        if k == 1 and ids:
            return float(rng.choice(ids))          # wave 7: 2.0 is the id 2
        if ids and rng.chance(4, 5):
            return rng.choice(ids)
        return rng.below(sh.next + 2)           # deleted, never created, or by chance alive
    def then():
        return [[target(), rng.choice(ds)] for _ in range(rng.below(3))] if rng.chance(1, 4) else []
    def act_script():
        script = {}
        for i in sh.ids():
            if rng.chance(1, 4):
                script[str(i)] = [[target(), rng.choice(ds), then()] for _ in range(rng.range(1, 3))]
        for hook in ("B", "E"):                    # wave 7: sends from Model.begin_round / end_round
            if rng.chance(1, 8):
                script[hook] = [["send", target(), rng.choice(ds), []] for _ in range(rng.range(1, 2))]
        return script
    spr = round(1 / float(dt))
    for _ in range(rng.range(6, 45)):
        r = rng.below(20)
        if r == 19 and spr > 0 and rng.chance(1, 3):           # wave 7: a whole Model.run() (dt >= 2: run() has no steps)
            op = ["run", [act_script() for _ in range(spr * rng.range(1, 2))]]
            ops.append(op)
            continue
        if r < 3 or (not sh.live and r < 10):
            op = ["create", rng.below(2)]
        elif r < 5 and sh.live:
            k = rng.range(1, 2)
            op = ["delete", sorted({rng.choice(sh.ids()) if rng.chance(5, 6) else rng.below(sh.next + 2) for _ in range(k)})]
        elif r < 6:
            op = ["configure", [[rng.below(2), rng.range(0, 3)] for _ in range(rng.range(1, 2))]] if rng.chance(2, 3) else ["reset"]
        elif r < 11:
            op = ["send", target(), rng.choice(ds), then()]
        elif r < 12:
            op = ["broadcast", rng.below(2), rng.choice(ds)]
        else:
            op = ["step", act_script()] + (["model"] if rng.chance(1, 3) else [])      # wave 7: through Model.run_step
        sh.apply(op)
        ops.append(op)
    ops += [["step", {}]] * rng.range(2, 12)
    return ops


def row_counts(ops, dt, acc):
    """distribution of the generated inputs over the rows of the wave-7 coverage table (evidence notes)"""
    def bump(k):
        acc[k] = acc.get(k, 0) + 1
    def rid_kind(r):
        if r < 0:
            return "receiver:negative"
        if isinstance(r, float):
            return "receiver:float-equal-to-id"
        return "receiver:int"
    def delay_kind(d):
        if d is None:
            return "delay:none(Event)"
        f = Fraction(d)
        if f < 0:
            return "delay:negative"
        if f == 0:
            return "delay:zero-float" if "." in d else "delay:zero-int"
        q = f / Fraction(dt)
        return ("delay:multiple-of-dt" if q.denominator == 1 else "delay:non-multiple") + ("-float" if "." in d else "-int")
    def eff(e, in_script, where):
        e = norm_eff(e, in_script)
        if e[0] == "send":
            bump(rid_kind(e[1])); bump(delay_kind(e[2])); bump("send-from:" + where)
            for t in e[3]:
                eff(t, False, "handler")
            if e[4]:
                bump("event-name:other")
            if e[5]:
                bump("handler-raises:" + e[5])
        else:
            bump(f"{e[0]}-from:" + where)
    for op in ops:
        k = op[0]
        if k == "send":
            eff(op, True, "between-steps")
        elif k == "step":
            bump("step-via:" + ("Model.run_step" if len(op) > 2 and op[2] == "model" else "scheduler.run_step"))
            for a, effs in op[1].items():
                for e in effs:
                    eff(e, True, {"B": "begin_round", "E": "end_round"}.get(a, "act"))
        elif k == "run":
            bump("step-via:Model.run"); acc["steps-inside-Model.run"] = acc.get("steps-inside-Model.run", 0) + len(op[1])
            for sc in op[1]:
                for a, effs in sc.items():
                    for e in effs:
                        eff(e, True, {"B": "begin_round", "E": "end_round"}.get(a, "act"))
        elif k in ("broadcast", "random_events"):
            bump(k + "-between-steps"); bump(delay_kind(op[2] if k == "broadcast" else op[3]))
        elif k in ("delete", "configure", "reset", "create", "createT", "state"):
            bump(k + "-between-steps")


def rand_midstep_history(rng, dt):
    """Histories whose steps change the population from act() and from handlers (wave 2a)."""
    sh, ops = Shadow(), []
    ds = delays_for(dt)
    def target():
        ids = sh.ids()
        if ids and rng.chance(3, 4):
            return rng.choice(ids)
        return rng.below(sh.next + 3)           # deleted, never created, created later, or by chance alive
    def pop_eff():
        r = rng.below(8)
        if r < 3:
            return ["create", rng.below(2)]
        if r < 5:
            return ["delete", sorted({target() for _ in range(rng.range(1, 2))})]
        if r < 6:
            return ["configure", [[rng.below(2), rng.range(0, 3)] for _ in range(rng.range(1, 2))]]
        if r < 7:
            return ["reset"]
        return ["broadcast", rng.below(2), rng.choice(ds)]
    def effs(n, in_script):
        out = []
        for _ in range(n):
            if rng.chance(1, 2):
                out.append(pop_eff())
            else:
                th = effs(rng.below(3), False) if in_script and rng.chance(1, 3) else []
                out.append(["send", target(), rng.choice(ds), th] if in_script else ["send", target(), rng.choice(ds)])
        return out
    for _ in range(rng.range(3, 6)):
        sh.apply(["create", rng.below(2)]); ops.append(["create", sh.live[-1][1]])
    for _ in range(rng.range(5, 30)):
        r = rng.below(20)
        if r < 2:
            op = ["create", rng.below(2)]
        elif r < 3 and sh.live:
            op = ["delete", [rng.choice(sh.ids())]]
        elif r < 8:
            op = ["send", target(), rng.choice(ds), effs(rng.below(3), False) if rng.chance(1, 2) else []]
        elif r < 9:
            op = ["broadcast", rng.below(2), rng.choice(ds)]
        else:
            script = {}
            cand = sh.ids() + [sh.next, sh.next + 1]          # agents created during the step act in the same step
            for i in cand:
                if rng.chance(1, 3):
                    script[str(i)] = effs(rng.range(1, 3), True)
            op = ["step", script]
            for i in cand:                                     # approximate population after the step (targets only)
                for e in script.get(str(i), []):
                    if e[0] in ("create", "delete", "configure", "reset"):
                        sh.apply(e)
        if op[0] != "step":
            sh.apply(op)
        ops.append(op)
    ops += [["step", {}]] * rng.range(2, 8)
    return ops


def reconf_history(rng, dt):
    """Reconfiguration to the SAME agent count / reset followed by creations, with events queued across it (the
    class of the seeded defect `stale agent index`: anything cached per list identity or length goes stale here)."""
    sh, ops = Shadow(), []
    ds = delays_for(dt)
    counts = [rng.range(0, 3), rng.range(0, 3)]
    if sum(counts) == 0:
        counts[0] = 2
    def emit(op):
        sh.apply(op); ops.append(op)
    emit(["configure", [[0, counts[0]], [1, counts[1]]]])
    for _ in range(rng.range(2, 5)):
        for _ in range(rng.range(1, 5)):
            ids = sh.ids()
            rid = rng.choice(ids) if ids and rng.chance(3, 4) else rng.below(sh.next + 2)
            emit(["send", rid, rng.choice(ds), []])
        for _ in range(rng.range(0, 2)):
            emit(["step", {}])
        r = rng.below(4)
        if r == 0:
            emit(["configure", [[0, counts[0]], [1, counts[1]]]])                  # same types, same counts
        elif r == 1:
            emit(["configure", [[1, counts[1]], [0, counts[0]]]])                  # same count, other order
        elif r == 2:
            emit(["reset"])
            for t in (0, 1):
                for _ in range(counts[t]):
                    emit(["create", t])
        else:
            n = len(sh.live)
            emit(["delete", sh.ids()])
            for _ in range(n):
                emit(["create", rng.below(2)])
        for _ in range(rng.range(1, 4)):
            ids = sh.ids()
            old = rng.below(max(1, sh.next - len(ids)))                             # an id of the discarded population
            emit(["send", rng.choice(ids) if ids and rng.chance(2, 3) else old, rng.choice(ds), []])
        if rng.chance(1, 2):
            emit(["random_events", rng.below(2), rng.range(0, 4), rng.choice(ds), rng.below(10 ** 6)])
        emit(["step", {}])
    ops += [["step", {}]] * rng.range(2, 8)
    return ops


TABLES = [
    (0, [[0, [0]]]),                    # as a base agent
    (0, [[0, [0, 1]]]),                 # two names
    (0, [[0, [0]], [1, []]]),           # state 1 has an empty table: everything is popped and discarded there
    (1, [[0, [0]]]),                    # starts in a state without table
    (0, [[1, [0, 1]]]),                 # no table for the initial state
    (0, [[0, [1]], [1, [0]]]),          # the name that is handled depends on the state
]


def rand_xhistory(rng, dt):
    sh, ops = Shadow(), []
    ds = delays_for(dt)
    def target():
        ids = sh.ids()
        if ids and rng.chance(4, 5):
            return rng.choice(ids)
        return rng.below(sh.next + 2)
    def exc():
        r = rng.below(12)
        return "RuntimeError" if r == 0 else ("KeyError" if r < 3 else None)
    def name():
        return rng.choice([0, 0, 0, 0, 1, 2])
    def then():
        out = []
        for _ in range(rng.below(3) if rng.chance(1, 3) else 0):
            out.append(["state", rng.below(3)] if rng.chance(1, 2) else ["send", target(), rng.choice(ds), [], name(), exc()])
        return out
    def emit(op):
        sh.apply(op); ops.append(op)
    for _ in range(rng.range(5, 40)):
        r = rng.below(24)
        if r < 2 or (not sh.live and r < 10):
            emit(["create", rng.below(2)])
        elif r < 5 or (len(sh.live) < 2 and r < 12):
            st, tbl = rng.choice(TABLES)
            emit(["createT", rng.below(2), st, tbl])
        elif r < 6 and sh.live:
            emit(["delete", [rng.choice(sh.ids())]])
        elif r < 7:
            emit(["configure", [[rng.below(2), rng.range(0, 2)]]] if rng.chance(1, 2) else ["reset"])
        elif r < 10 and sh.live:
            emit(["state", rng.choice(sh.ids()), rng.below(3)])
        elif r < 16:
            emit(["send", target(), rng.choice(ds), then(), name(), exc()])
        elif r < 17:
            emit(["broadcast", rng.below(2), rng.choice(ds)])
        else:
            script = {}
            for i in sh.ids():
                if rng.chance(1, 5):
                    script[str(i)] = [["send", target(), rng.choice(ds), then(), name(), exc()] for _ in range(rng.range(1, 2))]
            emit(["step", script])
    for i in sh.ids():
        if rng.chance(1, 2):
            emit(["state", i, 0])
    ops += [["step", {}]] * rng.range(2, 8)
    return ops


# the four kernel-checked witnesses of Props/C11 (X_witness_*), replayed on the real Agent.handle_events
X_WITNESSES = [
    [["create", 0], ["state", 0, 1], ["send", 0, None, [], 0, None], ["step", {}], ["step", {}], ["state", 0, 0], ["step", {}]],
    [["create", 0], ["state", 0, 1], ["send", 0, None, [], 0, None], ["send", 0, "1", [], 0, None], ["step", {}], ["step", {}],
     ["state", 0, 0], ["step", {}]],
    [["create", 0], ["create", 0], ["send", 0, None, [], 0, "RuntimeError"], ["send", 1, None, [], 0, None],
     ["send", 1, "1", [], 0, None], ["step", {}], ["step", {}], ["step", {}]],
    [["create", 0], ["send", 0, None, [], 1, None], ["step", {}], ["state", 0, 1], ["send", 0, None, [], 0, None], ["step", {}],
     ["delete", [0]], ["step", {}]],
]
X_WITNESS_EXPECT = ["3:[0]", "3:[1, 0]", "1:[0] 2:[1] 3:[2]", ""]      # handler log "step:[seqs]" as the theorems state it


def small_histories(L, wide=False, flush=4):
    """All histories of length L over a small alphabet instantiated on the live population, each followed by
    flushing steps. `wide`: the alphabet also has reset and two steps whose act() changes the population."""
    out = []
    def alphabet(sh):
        ops = [["create", 0], ["step", {}], ["send", sh.next + 1, None, []]]
        ids = sh.ids()
        if wide:
            ops.append(["reset"])
        if ids:
            o, n = ids[0], ids[-1]
            ops += [["delete", [o]], ["send", n, None, []], ["send", n, "1", []], ["send", o, "2", []], ["configure", [[0, 2]]],
                    ["step", {str(o): [[n, "1", []], [n, None, []]]}]]
            if wide:
                ops += [["step", {str(o): [["create", 0], ["delete", [n]], ["send", n, None, []], ["send", sh.next, None, []]],
                                  str(sh.next): [["send", o, None, []]]}],
                        ["step", {str(n): [["configure", [[0, len(ids)]]], ["broadcast", 0, "1"], ["send", o, None, []]]}]]
        return ops
    def rec(prefix, sh, depth):
        if depth == L:
            out.append(prefix + [["step", {}]] * flush)
            return
        for op in alphabet(sh):
            s2 = Shadow(); s2.live = [list(a) for a in sh.live]; s2.next = sh.next
            if op[0] == "step":
                for i in sorted(op[1], key=int):
                    for e in op[1][i]:
                        if isinstance(e[0], str) and e[0] in ("create", "delete", "configure", "reset"):
                            s2.apply(e)
            else:
                s2.apply(op)
            rec(prefix + [op], s2, depth + 1)
    rec([["create", 0], ["create", 1]], Shadow_with(2), 0)
    return out


def Shadow_with(n):
    sh = Shadow()
    sh.apply(("create", 0)); sh.apply(("create", 1))
    return sh


def shrink(dt, ops, key, runner=None):
    runner = runner or run_history
    def fails(c):
        try:
            return any(k == key for k, _ in runner(dt, c)["viol"])
        except Exception:
            return False
    ops = [json.loads(json.dumps(o)) for o in ops]
    changed = True
    while changed:
        changed = False
        for i in range(len(ops)):
            cand = ops[:i] + ops[i + 1:]
            if cand and fails(cand):
                ops, changed = cand, True
                break
        if changed:
            continue
        for i, op in enumerate(ops):               # simplify scripts / chains
            cands = []
            if op[0] == "step" and op[1]:
                for a in list(op[1]):
                    c = json.loads(json.dumps(op)); del c[1][a]; cands.append(c)
                    for j in range(len(op[1][a])):
                        c = json.loads(json.dumps(op)); del c[1][a][j]; cands.append(c)
            if op[0] == "send" and len(op) > 3 and op[3]:
                c = json.loads(json.dumps(op)); c[3] = []; cands.append(c)
            for c in cands:
                cand = ops[:i] + [c] + ops[i + 1:]
                if fails(cand):
                    ops, changed = cand, True
                    break
            if changed:
                break
    return ops


def show(ops):
    return [json.dumps(o, separators=(",", ":")) for o in ops]


# ------------------------------------------------------------------ run
def run(chk):
    quiet_bptk_logging()
    facts = probe()
    chk.notes["facts"] = facts
    rows = probe_rows()
    chk.notes["probed_step_rows"] = {"rows": len(rows), "dts": ROW_DTS,
                                      "differ": [r for r in rows if r[2] != exact_steps(r[0], r[1])][:10]}
    ok, why = chk.prove(gen_lean(facts, rows))
    chk.cov["trusted_base"] = [
        "Lean 4.33 kernel; axioms propext, Classical.choice, Quot.sound (audited per run via #print axioms)",
        "hand-written model lean/Bptk/Core/C11.lean of enqueue_event/broadcast_event/random_events, SimultaneousScheduler.run_step "
        "(atomic `stepFn`; with user code interleaved `midStep`; with handler tables / raising handlers `xstepFn`), "
        "Scheduler.handle_delayed_event, Agent.receive_event/handle_events and create/delete/configure/reset; tied to the "
        "source by this check's correspondence run and by one probe per repaired mechanism",
        "delay -> steps: the model counts delays in steps; ceil(delay/dt) (Lean stepsOf, proved least k with k*dt >= delay and equal to "
        "the ceiling in Q) is compared with the real handle_delayed_event countdown on a lattice of decimal (delay, dt), on random "
        "decimals with up to 6 digits and quotients up to 10^6, and in every correspondence case; `floatKeep_exact` (wave 6) proves the float "
        "countdown ceil(round(delay/dt, 9)) / (k-1)*dt exact over C05's float adversary Fl (relative error u, monotone, idempotent) and "
        "C05's roundDec within StepBudget (doubles: quotient <= 10^6, denominator of the exact quotient <= 10^9, integers up to 10^6+1 "
        "representable); that IEEE doubles are such an Fl with u = 2^-53 is the trusted part",
        "decimal reading of Python floats (the harness writes delays/dt as short decimal strings and passes them as fractions to the model)",
        "random_events: the random indices are an oracle in the model; the harness seeds Python's `random`, reads the drawn receivers "
        "back and hands their indices to the model (reference check: every receiver is a live agent of the type, min(num, count) many)",
    ]
    chk.assumptions = [
        "full statement (C11_full, C11_midstep): every agent has a handler for every (state, event name) it receives and no handler "
        "raises; on the extended machine (handler tables, states without table, unknown names, raising handlers) only routing, "
        "never-early, at-most-once and conservation are claimed (C11_x_partial) - exact timing and order are shown to fail there "
        "by kernel-checked witnesses replayed on the real code",
        "population changes and sends may happen between steps, from act() and from handlers (C11_midstep; iteration semantics "
        "of `for agent in model.agents` as in C12); changes from begin_round/end_round are not modelled; every agent loop ends",
        "delay and dt are decimals with at most 6 digits, dt numerator <= 9*10^8 and quotient <= 10^6 (domain of delay_float_steps)",
        "ids are unique (C14; re-proved here as C11_ids_unique and in XClauses)",
    ]
    rng = chk.rng.fork("c11")
    cases = []                                    # (dt, ops, tag, mode)   mode: "base" | "x"
    L = 3 if chk.quick else 5
    cdir = os.path.join(VERIF, "corpus", "C11")          # minimised past failing inputs, run first
    for fn in sorted(os.listdir(cdir)) if os.path.isdir(cdir) else []:
        if fn.endswith(".json"):
            c = json.load(open(os.path.join(cdir, fn)))
            cases.append((c["dt"], c["ops"], "corpus", c.get("mode", "base")))
    n_corpus = len(cases)
    for ops in small_histories(L):
        cases.append(("1", ops, "exh", "base"))
    Lw = 3 if chk.quick else 4
    for ops in small_histories(Lw, wide=True):
        cases.append(("1", ops, "exh", "base"))
    for ops in small_histories(2 if chk.quick else 3, flush=8):       # wave 9: 1/dt no whole number (delay 1 = 3 steps, 2 = 5)
        cases.append(("0.4", ops, "exh", "base"))
    n_exh = len(cases) - n_corpus
    for w in X_WITNESSES:
        cases.append(("1", w, "xwitness", "x"))
    nrand = 400 if chk.quick else 20000
    for i in range(nrand):
        dt = DTS_ALL[(i // 8 * 3 + i) % len(DTS_ALL)]
        j = i % 8
        if j in (0, 1, 2):
            cases.append((dt, rand_history(rng, dt), "rand", "base"))
        elif j in (3, 4):
            cases.append((dt, rand_midstep_history(rng, dt), "rand-midstep", "base"))
        elif j == 5:
            cases.append((dt, reconf_history(rng, dt), "rand-reconf", "base"))
        else:
            cases.append((dt, rand_xhistory(rng, dt), "rand-x", "x"))
    for i in range(nrand // 20):                   # wave 7: two models alive at once, operations interleaved
        for _ in range(2):
            dt = rng.choice(DTS_ALL)
            cases.append((dt, rand_history(rng, dt) if rng.chance(2, 3) else reconf_history(rng, dt), "rand-pair", "base"))
    chk.cov["rule"] = (f"all histories of length {L} (after create a, create b; followed by 4 flushing steps) over the alphabet {{create, step, "
                       "step with two sends from act(), delete oldest, configure (to the same count), send to newest undelayed / delay 1 / oldest "
                       f"delay 2 / to an id that does not exist}}, all of length {Lw} over that alphabet plus {{reset, a step whose act() creates an "
                       "agent, deletes the newest and sends to both, a step whose act() reconfigures to the same count, broadcasts and sends}} "
                       f"({n_exh} histories, dt 1); the 4 kernel-checked extended witnesses; {nrand} seeded random histories over dt in {DTS_ALL}: 3/8 plain "
                       "(sends between steps, from act(), from handlers, broadcasts, receivers alive/deleted/never created, delays None/0/"
                       "multiples and non-multiples of dt), 2/8 with population changes DURING steps (create/delete/configure/reset/broadcast "
                       "from act() and from handlers, agents created in a step acting in it), 1/8 reconfiguration to the same count / reset + "
                       "creations / delete all + creations with events queued across it and random_events, 2/8 extended (handler tables, "
                       "states without table, unknown names, handlers raising KeyError / RuntimeError, state changes from handlers); a case is "
                       "(dt, history); non-trivial = at least one event handled after a deletion/configure/reset, or a delayed event handled, "
                       "or a mid-step population change, or (extended) an event held / an aborted step; wave 7: steps also through "
                       "Model.run_step and whole Model.run() calls, sends from begin_round/end_round, negative and float receiver ids, negative "
                       f"delays, and {nrand // 20} pairs of models alive at once with interleaved operations (rows: notes.coverage_rows)")
    chk.cov["exhaustive_histories"] = n_exh
    chk.cov["corpus_cases"] = n_corpus
    chk.cov["exhaustive"] = False
    req, real, index = [], [], []
    first = {}
    dist = {"ops": {}, "dt": {}, "kind": {}, "sent": 0, "handled": 0, "discarded": 0, "steps": 0, "midstep_steps": 0,
            "aborted_steps": 0, "held_at_end": 0}
    xwit_bad = None
    rows = {}
    pre, partner_of, first_pair = {}, {}, {}
    for ci, (dt, ops, tag, mode) in enumerate(cases):
        if tag == "rand-pair" and ci not in pre and ci + 1 < len(cases) and cases[ci + 1][2] == "rand-pair":
            pre[ci], pre[ci + 1] = run_pair(dt, ops, cases[ci + 1][0], cases[ci + 1][1])
            partner_of[ci], partner_of[ci + 1] = ci + 1, ci
            rows["two-models-interleaved(pairs)"] = rows.get("two-models-interleaved(pairs)", 0) + 1
    for ci, (dt, ops, tag, mode) in enumerate(cases):
        r = pre[ci] if ci in pre else (run_history(dt, ops) if mode == "base" else run_xhistory(dt, ops))
        row_counts(ops, dt, rows)
        index.append((len(req), dt, ops, mode))
        req += r["req"]; real += r["real"]
        for o in ops:
            dist["ops"][o[0]] = dist["ops"].get(o[0], 0) + 1
        dist["dt"][dt] = dist["dt"].get(dt, 0) + 1
        dist["kind"][tag] = dist["kind"].get(tag, 0) + 1
        dist["sent"] += r["nsent"]; dist["handled"] += r["nhandled"]; dist["steps"] += r["steps"]
        dist["discarded"] += r.get("ndropped", 0); dist["midstep_steps"] += r.get("midsteps", 0)
        dist["aborted_steps"] += r.get("aborted", 0); dist["held_at_end"] += r.get("held", 0)
        if mode == "base":
            nontriv = r["nhandled"] > 0 and (any(o[0] in ("delete", "configure", "reset") for o in ops) or
                                             any(o[0] == "send" and o[2] not in (None, "0") for o in ops) or r["midsteps"] > 0)
        else:
            nontriv = r["nhandled"] > 0 and (r["aborted"] > 0 or r["held"] > 0 or any(o[0] in ("state", "createT") for o in ops))
        chk.case((dt, mode, show(ops)), nontrivial=nontriv,
                 sample={"dt": dt, "mode": mode, "ops": show(ops)} if tag.startswith("rand") and len(ops) < 14 else None)
        if tag == "xwitness":
            hl = handled_of(r)
            got = " ".join(f"{st}:{[q for s2, _, q in hl if s2 == st]}" for st in sorted({h[0] for h in hl}))
            if got != X_WITNESS_EXPECT[ci - n_corpus - n_exh] and xwit_bad is None:
                xwit_bad = (ops, got, X_WITNESS_EXPECT[ci - n_corpus - n_exh])
        for k, text in r["viol"]:
            if k not in first:
                partner = (cases[partner_of[ci]][0], cases[partner_of[ci]][1]) if ci in partner_of else None
                first[k] = (dt, ops, text, mode, partner)
            if k not in first_pair and ci in partner_of:
                first_pair[k] = (dt, ops, text, mode, (cases[partner_of[ci]][0], cases[partner_of[ci]][1]))
    chk.cov["input_distribution"] = dist
    chk.notes["coverage_rows"] = dict(sorted(rows.items()))
    chk.notes["same_event_object_enqueued_twice"] = probe_same_object_twice()
    # ---- delay -> steps lattice: Lean stepsOf vs exact fractions vs the real countdown
    lat = []
    for dt in DTS + ["0.125", "0.04", "0.025", "0.02", "0.01", "0.3", "0.15", "0.7", "2", "1.5", "0.4", "0.6", "0.75", "2.5"]:
        d = Fraction(dt)
        for kk in range(0, 41 if chk.quick else 201):
            lat.append((str(float(kk * d)) if "." in dt else str(kk * int(dt)), dt))
        for j in range(1, 60 if chk.quick else 400):
            lat.append((f"{j / 100:.2f}", dt))
        lat += [("1.0", dt), ("2", dt), ("3.0", dt), ("10", dt)]
    # the domain of `delay_float_steps` beyond the lattice: long decimals, large quotients (<= 10^6), random
    for _ in range(300 if chk.quick else 5000):
        p = rng.range(1, 6)
        tn = rng.range(1, 10 ** p)
        dn = rng.below(min(10 ** 6 * tn, 10 ** 12) + 1) if rng.chance(1, 3) else rng.below(50 * tn + 1)
        lat.append((dec_str(dn, p), dec_str(tn, p)))
    lat_req = [f"steps {frac_str(a)} {frac_str(b)}" for a, b in lat]
    lat_real, lat_bad, lat_skipped = [], None, 0
    for a, b in lat:
        e = exact_steps(a, b)
        lat_real.append(str(e))
        c = first_eval(a, b) if e > 2000 else countdown_steps(a, b)
        if e > 2000 and c is not None and c != e and lat_bad is None:    # the shortcut reads event.delay back: confirm with the full countdown
            c = countdown_steps(a, b, cap=e + 2)
        if c is None:                                # helper not callable as before: only the behavioural measurement
            if e > 40:
                lat_skipped += 1
                continue
            c = e
        if c == e and e <= 40:                       # wave 9: the same pair through the real scheduler's run_step
            c = steps_via_scheduler(a, b, e + 3)
            c = 10 ** 9 if c is None else c
        if c != e and lat_bad is None:
            lat_bad = (a, b, c, e)
    chk.cov["delay_lattice_pairs"] = len(lat)
    chk.cov["delay_lattice_pairs_not_measurable"] = lat_skipped
    model = drive("C11", req + lat_req)
    model = [m.split(";steps=")[0] for m in model]
    # canonicalise the model's step lines the same way as the implementation's
    exp = real + lat_real
    sent_at = {}
    now = 0
    for i, (q, m) in enumerate(zip(req, model)):
        if q in ("new", "xnew"):
            sent_at = {}
            now = 0
        elif q in ("step", "xstep") or q.startswith("stepx "):
            if not m.startswith("step="):
                continue
            p = dict(x.split("=", 1) for x in m.split(";"))
            now = int(p["step"])
            hs = [] if p["h"] == "-" else [tuple(map(int, x.split(":"))) for x in p["h"].split(",")]
            h = canon_handled(hs, sent_at)                                       # when an event is discarded is not compared
            if q == "step":
                model[i] = f"step={p['step']};h={h}"
            elif q == "xstep":
                model[i] = f"step={p['step']};h={h};ab={p['ab']};in={p['in']}"
            else:
                model[i] = f"step={p['step']};h={h};e={p['e']};a={p['a']};stuck={p['stuck']}"
                if p["e"] != "-":
                    for x in p["e"].split(","):
                        sent_at[int(x.split(">")[0])] = now
        elif m.startswith("seq="):
            sent_at[int(m[4:])] = now
        elif m.startswith("seqs=") and m != "seqs=-":
            for x in m[5:].split(","):
                sent_at[int(x.split(">")[0])] = now
    chk.cov["traces_validated_against_impl"] = len(cases)
    diff = next((i for i, (a, b) in enumerate(zip(model, exp)) if a != b), None)
    if diff is None and len(model) != len(exp):
        diff = min(len(model), len(exp))
    if not chk.cov["samples"]:
        chk.cov["samples"].append({"dt": cases[0][0], "ops": show(cases[0][1])})
    # ---- decide
    for key, (dt, ops, text, mode, partner) in first.items():
        runner = run_history if mode == "base" else run_xhistory
        alone = any(k == key for k, _ in runner(dt, ops)["viol"])
        if not alone and partner is None and key in first_pair:       # state leaking between models: show it on a pair
            dt, ops, text, mode, partner = first_pair[key]
        if partner is not None and not alone:      # only with the second model alive: keep the pair
            chk.add_finding(key, f"dt={dt}, history {show(ops)} interleaved with a second model (dt={partner[0]}, {show(partner[1])}): {text}",
                            {"mode": "pair", "dt": dt, "ops": ops, "dt_b": partner[0], "ops_b": partner[1]})
            continue
        small = shrink(dt, ops, key, runner)
        r = runner(dt, small)
        t = next((t for k, t in r["viol"] if k == key), text)
        chk.add_finding(key, f"dt={dt}, history {show(small)}: {t}", {"dt": dt, "mode": mode, "ops": small, "violations": r["viol"]})
    if lat_bad is not None and "delay-steps" not in first:
        a, b, c, e = lat_bad
        chk.add_finding("delay-steps", f"handle_delayed_event keeps DelayedEvent(delay={a}) back for {c} steps with dt={b}; ceil(delay/dt) = {e}",
                        {"dt": b, "mode": "base", "ops": [["create", 0], ["send", 0, a, []]] + [["step", {}]] * (min(max(c, e), 3000) + 2)})
    for name, keyname in (("routesById", "wrong-receiver"), ("delayStepsExact", "delay-steps"), ("requeueFifo", "same-step-order"),
                          ("negativeIdDropped", "wrong-receiver"), ("queuePerModel", "foreign-event")):
        if name == "routesById" and "receiver-lookup-raises" in first:
            continue
        if not facts[name] and keyname not in first and not (keyname == "delay-steps" and lat_bad):
            chk.add_finding(keyname, f"probe {name} failed on the real code but no generated history violated the statement",
                            {"probe": name}, found_input=False)
    if not ok:
        chk.add_finding("obligation", f"proof obligations of C11 no longer check: {why}",
                        {"theorem": "Bptk.C11.Gen.holds / Bptk.Props.C11", "detail": why}, found_input=False)
    if xwit_bad is not None and not first:
        ops, got, want = xwit_bad
        chk.add_finding("correspondence", f"the kernel-checked extended witness {show(ops)} gives the handler log {got!r} on the real code, "
                                          f"the theorem states {want!r}",
                        {"correspondence": "Props/C11 X_witness_* vs Agent.handle_events", "dt": "1", "mode": "x", "ops": ops}, found_input=False)
    if diff is not None and not first:
        allreq = req + lat_req
        if diff >= len(req):
            chk.add_finding("correspondence", f"Lean stepsOf and exact ceil disagree on {allreq[diff]!r}",
                            {"correspondence": "Drive/C11 steps vs fractions.Fraction", "request": allreq[diff],
                             "model": model[diff] if diff < len(model) else None, "reference": exp[diff]}, found_input=False)
        else:
            start, dt, ops, mode = [x for x in index if x[0] <= diff][-1]
            small = shrink_corr(dt, ops, mode)
            chk.add_finding("correspondence", f"model and implementation disagree at protocol line {diff} ({allreq[diff]!r}) of history {show(ops)} dt={dt}"
                                              + (f"; shrunk to {show(small)}" if small is not None else ""),
                            {"correspondence": "Drive/C11 vs BPTK_Py SimultaneousScheduler / Agent.handle_events", "dt": dt, "mode": mode,
                             "ops": small if small is not None else ops, "line": diff - start,
                             "request_context": allreq[max(start, diff - 10):diff + 1],
                             "model": model[diff] if diff < len(model) else None, "impl": exp[diff] if diff < len(exp) else None},
                            found_input=False)


def probe_same_object_twice():
    """Observation, not part of the statement's send scripts: the countdown of a DelayedEvent lives in the event object
    (`event.delay` is rewritten every step), so ONE object enqueued twice counts down twice per step."""
    try:
        sim = Sim("1")
        sim.m.create_agent("a", {})
        from BPTK_Py import DelayedEvent
        e = DelayedEvent("ev", 0, 0, 4, {"seq": 0, "then": [], "exc": None})
        e.data["sim"] = sim.uid
        sim.sent[0] = {"rid": 0, "delay": "4", "sent_at": 0, "name": 0, "exc": None}
        sim.m.enqueue_event(e); sim.m.enqueue_event(e)
        for k in range(7):
            sim.step_no += 1
            sim.m.scheduler.run_step(sim.m, 0, k, None, True)
        return {"delay_steps": 4, "handled_in_steps": [h[0] for h in sim.handled], "expected_step_for_a_fresh_object": 5}
    except Exception as ex:
        return {"error": repr(ex)}


def handled_of(r):
    """(step, agent, seq) triples of an extended run, from its canonical step lines (witness comparison)."""
    out = []
    for q, a in zip(r["req"], r["real"]):
        if q != "xstep":
            continue
        head, rest = a.split(";h=", 1)
        st = int(head.split("=")[1])
        h = rest.rsplit(";ab=", 1)[0]
        if h == "-":
            continue
        for grp in h.split(";"):
            ag, seqs = grp.split(":")
            for sq in seqs.split(","):
                out.append((st, int(ag.split("@")[0]), int(sq)))
    return out


def dec_str(n, p):
    """n / 10^p as a decimal string with p digits after the point"""
    s_ = str(n).rjust(p + 1, "0")
    return s_[:-p] + "." + s_[-p:]


def first_eval(delay, dt):
    """Number of steps the real handle_delayed_event announces at its first evaluation (large quotients: the countdown
    itself is checked on the smaller ones): stored delay afterwards = (k-1)*dt."""
    from BPTK_Py import DelayedEvent, Scheduler
    try:
        s_ = Scheduler()
        e = DelayedEvent("ev", 0, 0, num(delay), None)
        if s_.handle_delayed_event(e, float(dt)) is not None:
            return 0
        return int(round(e.delay / float(dt))) + 1
    except Exception:
        return None


def model_vs_impl(r):
    """first differing protocol line of one run, or None"""
    model = [m.split(";steps=")[0] for m in drive("C11", r["req"])]
    sent_at, now = {}, 0
    for i, (q, m) in enumerate(zip(r["req"], model)):
        if q in ("step", "xstep") or q.startswith("stepx "):
            if not m.startswith("step="):
                continue
            p = dict(x.split("=", 1) for x in m.split(";"))
            now = int(p["step"])
            hs = [] if p["h"] == "-" else [tuple(map(int, x.split(":"))) for x in p["h"].split(",")]
            h = canon_handled(hs, sent_at)
            if q == "step":
                model[i] = f"step={p['step']};h={h}"
            elif q == "xstep":
                model[i] = f"step={p['step']};h={h};ab={p['ab']};in={p['in']}"
            else:
                model[i] = f"step={p['step']};h={h};e={p['e']};a={p['a']};stuck={p['stuck']}"
                if p["e"] != "-":
                    for x in p["e"].split(","):
                        sent_at[int(x.split(">")[0])] = now
        elif m.startswith("seq="):
            sent_at[int(m[4:])] = now
        elif m.startswith("seqs=") and m != "seqs=-":
            for x in m[5:].split(","):
                sent_at[int(x.split(">")[0])] = now
    for i, (a, b) in enumerate(zip(model, r["real"])):
        if a != b:
            return i, a, b
    return None


def shrink_corr(dt, ops, mode, budget=60):
    """greedy deletion of operations while model and implementation still disagree (bounded number of driver runs)"""
    runner = run_history if mode == "base" else run_xhistory
    def differs(c):
        try:
            return model_vs_impl(runner(dt, c)) is not None
        except Exception:
            return False
    try:
        if not differs(ops):
            return None
        ops = list(ops)
        i = 0
        while i < len(ops) and budget > 0:
            cand = ops[:i] + ops[i + 1:]
            budget -= 1
            if cand and differs(cand):
                ops = cand
            else:
                i += 1
        return ops
    except Exception:
        return None


def replay(path):
    quiet_bptk_logging()
    r = json.load(open(path))["replay"]
    if "ops" not in r:
        print("no concrete input stored:", r)
        f = probe()
        print("probes on the current tree:", f)
        return 0 if all(f.values()) else 1
    mode = r.get("mode", "base")
    if mode == "pair":
        ra, rb = run_pair(r["dt"], r["ops"], r["dt_b"], r["ops_b"])
        print("pair of models, interleaved:", show(r["ops"]), "|", show(r["ops_b"]))
        print("violations of the statement on the current tree:", ra["viol"], rb["viol"])
        return 1 if (ra["viol"] or rb["viol"]) else 0
    res = (run_history if mode == "base" else run_xhistory)(r["dt"], r["ops"])
    print("dt:", r["dt"], "mode:", mode)
    print("ops:", show(r["ops"]))
    print("violations of the statement on the current tree:", res["viol"])
    bad = bool(res["viol"])
    if not res["viol"] and ("line" in r or "correspondence" in r):
        d = model_vs_impl(res)
        print("model vs implementation, first difference:", d)
        bad = d is not None
    return 1 if bad else 0
