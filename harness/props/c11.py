"""C11 — agent events reach exactly the addressed agent, once, at the right step.

Probes (one per repaired mechanism) + Gen obligations + correspondence of the Lean model (Drive/C11) with the
real SimultaneousScheduler on generated (population history, send script, dt), using instrumented Agent
subclasses that log every handler invocation + an independent reference check of the property statement on
the real code (failing-input search, shrinking, replay) + a lattice check of the delay->steps conversion.

History format (JSON-able):
  ["create", ty] ["delete", [ids]] ["configure", [[ty, n], ...]] ["reset"]
  ["send", rid, delay, then]            enqueue_event between two steps
  ["broadcast", ty, delay]              broadcast_event between two steps
  ["step", {"<agent id>": [[rid, delay, then], ...]}]     run one step; the listed agents send from act()
delay: None (plain Event) or a decimal string ("0.3", "2"): DelayedEvent(delay=float/int of it);
then:  [[rid, delay], ...]  events the receiver sends from inside its handler when it handles the event.
"""
import json
import os
import math
from fractions import Fraction
from common import *

TYPES = ["a", "b"]


# ------------------------------------------------------------------ real side
def num(s):
    return int(s) if ("." not in s and "e" not in s.lower()) else float(s)


def exact_steps(delay, dt):
    """Reference: ceil(delay/dt) in exact arithmetic on the decimal strings; an undelayed event: 0."""
    if delay is None:
        return 0
    return max(0, math.ceil(Fraction(delay) / Fraction(dt)))


class Sim:
    """The real BPTK_Py model with logging agents."""

    def __init__(self, dt):
        from BPTK_Py import Model, Agent, DataCollector, SimultaneousScheduler
        sim = self

        class LogAgent(Agent):
            def initialize(self):
                self.register_event_handler(["active"], "ev", self.on_ev)

            def on_ev(self, event):
                sim.handled.append((sim.step_no, self.id, event.data["seq"]))
                for rid, delay in event.data["then"]:
                    sim.send(self.id, rid, delay, [])

            def act(self, time, round_no, step_no):
                for rid, delay, then in sim.script.get(str(self.id), []):
                    sim.send(self.id, rid, delay, then)

        self.dt = dt
        self.m = Model(starttime=0, stoptime=10 ** 6, dt=num(dt), name="c11", scheduler=SimultaneousScheduler(),
                       data_collector=DataCollector())
        for t in TYPES:
            self.m.register_agent_factory(t, (lambda tt: (lambda aid, model, props: LogAgent(aid, model, props, tt)))(t))
        self.nseq = 0
        self.step_no = 0           # number of steps started
        self.handled = []          # (step, agent id, seq) in handler order
        self.sent = {}             # seq -> dict(rid, delay, sent_at)
        self.issued = []           # sends since the last flush, in issue order: (seq, rid, delay)
        self.script = {}
        self.stats_base = 0

    def make_event(self, sender, rid, delay, then):
        from BPTK_Py import Event, DelayedEvent
        seq = self.nseq
        self.nseq += 1
        data = {"seq": seq, "then": [list(x) for x in then]}
        ev = Event("ev", sender, rid, data) if delay is None else DelayedEvent("ev", sender, rid, num(delay), data)
        self.sent[seq] = {"rid": rid, "delay": delay, "sent_at": self.step_no}
        self.issued.append((seq, rid, delay))
        return ev

    def send(self, sender, rid, delay, then):
        self.m.enqueue_event(self.make_event(sender, rid, delay, then))

    def pending(self):
        s = {e.data["seq"] for e in self.m.events}
        for a in self.m.agents:
            s |= {e.data["seq"] for e in a.events}
        return s

    def apply(self, op):
        """Runs one op. Returns the canonical reply line pieces: (kind, payload)."""
        m, k = self.m, op[0]
        self.issued = []
        if k == "create":
            m.create_agent(TYPES[op[1]], {})
        elif k == "delete":
            m.delete_agent(op[1][0]) if len(op[1]) == 1 else m.delete_agents(list(op[1]))
        elif k == "configure":
            m.configure_agents([{"name": TYPES[t], "count": n} for t, n in op[1]])
        elif k == "reset":
            m.reset()                          # also empties event_statistics
            self.stats_base = len(self.handled)
        elif k == "send":
            self.send(0, op[1], op[2], op[3])
        elif k == "broadcast":
            m.broadcast_event(TYPES[op[1]], lambda aid: self.make_event(0, aid, op[2], []))
        elif k == "step":
            self.script = op[1]
            before = {e.data["seq"] for e in m.events}
            n0 = len(self.handled)
            self.step_no += 1
            m.scheduler.run_step(m, 0, self.step_no - 1, None, True)
            self.script = {}
            hs = self.handled[n0:]
            gone = before - self.pending() - {h[2] for h in hs}
            return hs, sorted(gone)
        return None


def frac_str(delay):
    f = max(Fraction(0), Fraction(delay))
    return f"{f.numerator}/{f.denominator}"


def send_line(rid, delay):
    return f"send {rid} 0" if delay is None else f"sendq {rid} {frac_str(delay)}"


def canon_handled(hs, sent_at):
    """Only what the statement fixes: per (agent, step the event was sent in) the order of handling."""
    groups = {}
    for agent, seq in hs:
        groups.setdefault((agent, sent_at.get(seq, -1)), []).append(seq)
    return ";".join(f"{a}@{s}:" + ",".join(map(str, v)) for (a, s), v in sorted(groups.items())) or "-"


class Shadow:
    """Live population, independent of model and implementation (same bookkeeping as C14's reference)."""
    def __init__(self):
        self.live, self.next = [], 0     # [id, ty]
    def apply(self, op):
        k = op[0]
        if k == "create":
            self.live.append([self.next, op[1]]); self.next += 1
        elif k == "delete":
            self.live = [a for a in self.live if a[0] not in op[1]]
        elif k == "configure":
            self.live = []
            for t, n in op[1]:
                for _ in range(n):
                    self.apply(("create", t))
        elif k == "reset":
            self.live = []
    def ids(self):
        return [a[0] for a in self.live]


def run_history(dt, ops):
    """Real code on (dt, ops).
    Returns dict(req, real, viol, steps_started): request lines for the model with the implementation's canonical
    replies, and the violations of the property statement found by the reference check [(key, text)]."""
    sim, sh = Sim(dt), Shadow()
    req, real = ["new", f"dt {frac_str(dt)}"], ["ok", "ok"]
    viol = []
    live_at = {}                       # step -> ids alive during that step
    gone_log = []                      # (step, seqs that left the queue without being handled) - evidence only
    raised = None
    for op in ops:
        k = op[0]
        sh.apply(op)
        if k == "step":
            live_at[sim.step_no + 1] = sh.ids()
        try:
            out = sim.apply(op)
        except Exception as e:          # run_step must not raise on any history
            raised = (op, e)
            absent = sorted({v["rid"] for v in sim.sent.values()} - set(sh.ids()))
            viol.append(("receiver-lookup-raises" if isinstance(e, (IndexError, TypeError, AttributeError)) else "raises",
                         f"step {sim.step_no}: run_step raises {type(e).__name__}: {e} "
                         f"(live ids {sh.ids()}, receivers of sent events without a live agent: {absent})"))
            break
        sent_at = {s: v["sent_at"] for s, v in sim.sent.items()}
        if k == "create":
            req.append(f"create {op[1]}"); real.append("ok")
        elif k == "delete":
            req.append("delete " + (",".join(map(str, op[1])) or "-")); real.append("ok")
        elif k == "configure":
            req.append("configure " + (",".join(f"{t}:{n}" for t, n in op[1]) or "-")); real.append("ok")
        elif k == "reset":
            req.append("reset"); real.append("ok")
        elif k == "send":
            (seq, rid, delay), = sim.issued
            req.append(send_line(rid, delay)); real.append(f"seq={seq}")
        elif k == "broadcast":
            req.append(f"broadcastq {op[1]} {frac_str(op[2])}" if op[2] is not None else f"broadcast {op[1]} 0")
            real.append("seqs=" + (",".join(f"{s}>{r}" for s, r, _ in sim.issued) or "-"))
        elif k == "step":
            hs, gone = out
            req.append("step")
            real.append(f"step={sim.step_no};h={canon_handled([(a, s) for _, a, s in hs], sent_at)}")
            gone_log.append((sim.step_no, gone))
            for seq, rid, delay in sim.issued:       # sends made during the step, in the order they happened
                req.append(send_line(rid, delay)); real.append(f"seq={seq}")
    # ---- reference check of the statement on the handler log
    by_seq = {}
    pending = sim.pending()
    for st, agent, seq in sim.handled:
        by_seq.setdefault(seq, []).append((st, agent))
    for seq, v in sorted(sim.sent.items()):
        n = exact_steps(v["delay"], dt)
        due = v["sent_at"] + 1 + n
        hs = by_seq.get(seq, [])
        what = f"event #{seq} to id {v['rid']} sent in step {v['sent_at']}" + (f" with delay {v['delay']} (dt {dt}: {n} steps)" if v["delay"] is not None else "")
        for st, agent in hs:
            if agent != v["rid"]:
                viol.append(("wrong-receiver", f"{what} was handled by the agent with id {agent} in step {st} (live ids then {live_at.get(st)})"))
        if len(hs) > 1:
            viol.append(("not-once", f"{what} was handled {len(hs)} times: {hs}"))
        for st, agent in hs[:1]:
            if st != due and agent == v["rid"]:
                viol.append(("delay-steps" if n > 0 or v["delay"] is not None else "undelayed-step",
                             f"{what} was handled in step {st}, expected step {due}"))
        if not hs and due <= sim.step_no and raised is None and v["rid"] in live_at.get(due, []):
            if seq in pending:
                viol.append(("delay-steps", f"{what} is still queued after step {sim.step_no}, expected to be handled in step {due}"))
            else:
                # a delayed event that left the queue in a wrong step (receiver absent then) shows up here: same class
                viol.append(("delay-steps" if n > 0 else "lost",
                             f"{what} was never handled although id {v['rid']} was alive in step {due} ({sim.step_no} steps run)"))
    order = {}
    for st, agent, seq in sim.handled:
        order.setdefault((st, agent, sim.sent[seq]["sent_at"]), []).append(seq)
    for (st, agent, sa), seqs in sorted(order.items()):
        if seqs != sorted(seqs):
            viol.append(("same-step-order", f"agent {agent} handled the events sent to it in step {sa} in the order {seqs} (step {st}); send order is {sorted(seqs)}"))
            break
    # DataCollector.event_statistics counts the delivered events (every delivered event is handled here)
    try:
        recorded = sum(n for per in sim.m.data_collector.event_statistics.values() for n in per.values())
    except Exception:
        recorded = None
    if raised is None and recorded is not None and recorded != len(sim.handled) - sim.stats_base:
        viol.append(("event-statistics", f"DataCollector.event_statistics counts {recorded} delivered events, {len(sim.handled) - sim.stats_base} handler invocations were logged since the last reset"))
    return {"req": req, "real": real, "viol": viol, "steps": sim.step_no, "nsent": sim.nseq, "nhandled": len(sim.handled),
            "ndropped": sum(len(g) for _, g in gone_log)}


# ------------------------------------------------------------------ probes (one per repaired mechanism)
def probe():
    def handled(dt, ops):
        try:
            r = run_history(dt, ops)
        except Exception:
            return None
        return r
    f = {}
    r = handled("1", [["create", 0]] * 4 + [["delete", [1]], ["send", 2, None, []], ["send", 3, None, []], ["send", 1, None, []], ["step", {}]])
    f["routesById"] = r is not None and not r["viol"] and r["real"][-1] == "step=1;h=2@0:0;3@0:1"
    r = handled("0.1", [["create", 0], ["send", 0, "1.0", []]] + [["step", {}]] * 13)
    f["delayStepsExact"] = r is not None and not any(k == "delay-steps" for k, _ in r["viol"]) and r["nhandled"] == 1
    r = handled("1", [["create", 0], ["send", 0, "1", []], ["send", 0, "1", []], ["send", 0, "2", []], ["send", 0, "2", []]] + [["step", {}]] * 4)
    f["requeueFifo"] = r is not None and not any(k == "same-step-order" for k, _ in r["viol"]) and r["nhandled"] == 4
    return f


def countdown_steps(delay, dt, cap=100000):
    """How many times the real `Scheduler.handle_delayed_event` keeps a DelayedEvent(delay) back."""
    from BPTK_Py import DelayedEvent, Scheduler
    s = Scheduler()
    e = DelayedEvent("ev", 0, 0, num(delay), None)
    n = 0
    while s.handle_delayed_event(e, dt=float(dt)) is None:
        n += 1
        s.delayed_events = []
        if n > cap:
            break
    return n


def gen_lean(f):
    good = all(f.values())
    b = lambda x: "true" if x else "false"
    body = ("theorem model_applies : facts.good = true := by decide\n" if good else
            "theorem model_does_not_apply : facts.good = false := by decide\n")
    # the mechanism of the pinned tree behind each failed probe, as a kernel-checked witness (the harness replays
    # the same inputs on the implementation: corpus/C11)
    if not f["routesById"]:
        body += "theorem pinned_positional_lookup : type_of% C11_witness_positional := C11_witness_positional\n"
    if not f["delayStepsExact"]:
        body += "theorem pinned_float_countdown : type_of% C11_witness_float_countdown := C11_witness_float_countdown\n"
    if not f["requeueFifo"]:
        body += "theorem pinned_requeue_reversal : type_of% C11_witness_requeue_reversal := C11_witness_requeue_reversal\n"
    return ("import Bptk.Props.C11\n/-! GENERATED by harness/props/c11.py from /repo on every run — do not edit. -/\n"
            "namespace Bptk.C11.Gen\n"
            f"def facts : Facts := {{ routesById := {b(f['routesById'])}, delayStepsExact := {b(f['delayStepsExact'])}, "
            f"requeueFifo := {b(f['requeueFifo'])} }}\n" + body +
            "theorem holds : C11_full := C11_full_proved\n#print axioms holds\n"
            "end Bptk.C11.Gen\n")


# ------------------------------------------------------------------ generators
DTS = ["1", "0.5", "0.25", "0.2", "0.1", "0.05"]


def delays_for(dt):
    d = Fraction(dt)
    def dec(fr):
        s = f"{float(fr):.6f}".rstrip("0")
        return s + "0" if s.endswith(".") else s
    out = [None, None, "0", dec(d), dec(2 * d), dec(3 * d), dec(d / 2), dec(d * 3 / 2), dec(5 * d), "1.0", "1", "0.3", "0.7", "2"]
    return out


def rand_history(rng, dt):
    sh, ops = Shadow(), []
    ds = delays_for(dt)
    def target():
        ids = sh.ids()
        if ids and rng.chance(4, 5):
            return rng.choice(ids)
        return rng.below(sh.next + 2)           # deleted, never created, or by chance alive
    def then():
        return [[target(), rng.choice(ds)] for _ in range(rng.below(3))] if rng.chance(1, 4) else []
    for _ in range(rng.range(6, 45)):
        r = rng.below(20)
        if r < 3 or (not sh.live and r < 10):
            op = ["create", rng.below(2)]
        elif r < 5 and sh.live:
            k = rng.range(1, 2)
            op = ["delete", sorted({rng.choice(sh.ids()) if rng.chance(5, 6) else rng.below(sh.next + 2) for _ in range(k)})]
        elif r < 6:
            op = ["configure", [[rng.below(2), rng.range(0, 3)] for _ in range(rng.range(1, 2))]] if rng.chance(2, 3) else ["reset"]
        elif r < 11:
            op = ["send", target(), rng.choice(ds), then()]
        elif r < 12:
            op = ["broadcast", rng.below(2), rng.choice(ds)]
        else:
            script = {}
            for i in sh.ids():
                if rng.chance(1, 4):
                    script[str(i)] = [[target(), rng.choice(ds), then()] for _ in range(rng.range(1, 3))]
            op = ["step", script]
        sh.apply(op)
        ops.append(op)
    ops += [["step", {}]] * rng.range(2, 12)
    return ops


def small_histories(L):
    """All histories of length L over a small alphabet instantiated on the live population, each followed by
    flushing steps."""
    out = []
    def alphabet(sh):
        ops = [["create", 0], ["step", {}], ["send", sh.next + 1, None, []]]
        ids = sh.ids()
        if ids:
            o, n = ids[0], ids[-1]
            ops += [["delete", [o]], ["send", n, None, []], ["send", n, "1", []], ["send", o, "2", []], ["configure", [[0, 2]]],
                    ["step", {str(o): [[n, "1", []], [n, None, []]]}]]
        return ops
    def rec(prefix, sh, depth):
        if depth == L:
            out.append(prefix + [["step", {}]] * 4)
            return
        for op in alphabet(sh):
            s2 = Shadow(); s2.live = [list(a) for a in sh.live]; s2.next = sh.next
            s2.apply(op)
            rec(prefix + [op], s2, depth + 1)
    rec([["create", 0], ["create", 1]], Shadow_with(2), 0)
    return out


def Shadow_with(n):
    sh = Shadow()
    sh.apply(("create", 0)); sh.apply(("create", 1))
    return sh


def shrink(dt, ops, key):
    def fails(c):
        try:
            return any(k == key for k, _ in run_history(dt, c)["viol"])
        except Exception:
            return False
    ops = [json.loads(json.dumps(o)) for o in ops]
    changed = True
    while changed:
        changed = False
        for i in range(len(ops)):
            cand = ops[:i] + ops[i + 1:]
            if cand and fails(cand):
                ops, changed = cand, True
                break
        if changed:
            continue
        for i, op in enumerate(ops):               # simplify scripts / chains
            cands = []
            if op[0] == "step" and op[1]:
                for a in list(op[1]):
                    c = json.loads(json.dumps(op)); del c[1][a]; cands.append(c)
            if op[0] == "send" and op[3]:
                c = json.loads(json.dumps(op)); c[3] = []; cands.append(c)
            for c in cands:
                cand = ops[:i] + [c] + ops[i + 1:]
                if fails(cand):
                    ops, changed = cand, True
                    break
            if changed:
                break
    return ops


def show(ops):
    return [json.dumps(o, separators=(",", ":")) for o in ops]


# ------------------------------------------------------------------ run
def run(chk):
    quiet_bptk_logging()
    facts = probe()
    chk.notes["facts"] = facts
    ok, why = chk.prove(gen_lean(facts))
    chk.cov["trusted_base"] = [
        "Lean 4.33 kernel; axioms propext, Classical.choice, Quot.sound (audited per run via #print axioms)",
        "hand-written model lean/Bptk/Core/C11.lean of enqueue_event/broadcast_event, SimultaneousScheduler.run_step, "
        "Scheduler.handle_delayed_event, Agent.receive_event/handle_events and create/delete/configure/reset; tied to the "
        "source by this check's correspondence run and by one probe per repaired mechanism",
        "delay -> steps: the model counts delays in steps; ceil(delay/dt) (Lean stepsOf, proved least k with k*dt >= delay) is "
        "compared with the real handle_delayed_event countdown on a lattice of decimal (delay, dt) and in every correspondence case",
        "decimal reading of Python floats (the harness writes delays/dt as short decimal strings and passes them as fractions to the model)",
    ]
    chk.assumptions = [
        "every agent has a handler for every (state, event name) it receives (agents whose state has no handler table keep events queued; unknown names are discarded - code behaviour outside the claim)",
        "agents are created/deleted/reconfigured between steps (mid-step population changes are C12's subject); sends happen between steps, from act() and from handlers",
        "delay and dt are decimals with quotient below 10^6 (the repaired conversion rounds delay/dt to 9 decimals before ceil)",
        "ids are unique (C14)",
    ]
    rng = chk.rng.fork("c11")
    cases = []                                    # (dt, ops, tag)
    L = 3 if chk.quick else 5
    cdir = os.path.join(VERIF, "corpus", "C11")          # minimised past failing inputs, run first
    for fn in sorted(os.listdir(cdir)) if os.path.isdir(cdir) else []:
        if fn.endswith(".json"):
            c = json.load(open(os.path.join(cdir, fn)))
            cases.append((c["dt"], c["ops"], "corpus"))
    n_corpus = len(cases)
    for ops in small_histories(L):
        cases.append(("1", ops, "exh"))
    n_exh = len(cases) - n_corpus
    for i in range(350 if chk.quick else 20000):
        dt = DTS[i % len(DTS)]
        cases.append((dt, rand_history(rng, dt), "rand"))
    chk.cov["rule"] = (f"all histories of length {L} (after create a, create b; followed by 4 flushing steps) over the alphabet {{create, step, "
                       "step with two sends from act(), delete oldest, configure, send to newest undelayed / delay 1 / oldest delay 2 / to an id "
                       f"that does not exist}} ({n_exh} histories, dt 1), plus seeded random histories of 6..45 operations over dt in {DTS} with "
                       "sends between steps, from act(), from handlers (chains), broadcasts, receivers alive/deleted/never created, delays "
                       "None/0/multiples and non-multiples of dt; a case is (dt, history); non-trivial = at least one event handled after a "
                       "deletion/configure/reset or at least one delayed event handled")
    chk.cov["exhaustive_histories"] = n_exh
    chk.cov["corpus_cases"] = n_corpus
    chk.cov["exhaustive"] = False
    req, real, index = [], [], []
    first = {}
    dist = {"ops": {}, "dt": {}, "sent": 0, "handled": 0, "discarded": 0, "steps": 0}
    for dt, ops, tag in cases:
        r = run_history(dt, ops)
        index.append((len(req), dt, ops))
        req += r["req"]; real += r["real"]
        for o in ops:
            dist["ops"][o[0]] = dist["ops"].get(o[0], 0) + 1
        dist["dt"][dt] = dist["dt"].get(dt, 0) + 1
        dist["sent"] += r["nsent"]; dist["handled"] += r["nhandled"]; dist["steps"] += r["steps"]; dist["discarded"] += r["ndropped"]
        nontriv = r["nhandled"] > 0 and (any(o[0] in ("delete", "configure", "reset") for o in ops) or
                                         any(o[0] == "send" and o[2] not in (None, "0") for o in ops))
        chk.case((dt, show(ops)), nontrivial=nontriv, sample={"dt": dt, "ops": show(ops)} if tag == "rand" and len(ops) < 16 else None)
        for k, text in r["viol"]:
            if k not in first:
                first[k] = (dt, ops, text)
    chk.cov["input_distribution"] = dist
    # ---- delay -> steps lattice: Lean stepsOf vs exact fractions vs the real countdown
    lat = []
    for dt in DTS + ["0.125", "0.04", "0.025", "0.02", "0.01", "0.3", "0.15", "0.7", "2", "1.5"]:
        d = Fraction(dt)
        for kk in range(0, 41 if chk.quick else 201):
            lat.append((str(float(kk * d)) if "." in dt else str(kk * int(dt)), dt))
        for j in range(1, 60 if chk.quick else 400):
            lat.append((f"{j / 100:.2f}", dt))
        lat += [("1.0", dt), ("2", dt), ("3.0", dt), ("10", dt)]
    lat_req = [f"steps {frac_str(a)} {frac_str(b)}" for a, b in lat]
    lat_real, lat_bad = [], None
    for a, b in lat:
        e = exact_steps(a, b)
        lat_real.append(str(e))
        c = countdown_steps(a, b)
        if c != e and lat_bad is None:
            lat_bad = (a, b, c, e)
    chk.cov["delay_lattice_pairs"] = len(lat)
    model = drive("C11", req + lat_req)
    model = [m.split(";steps=")[0] for m in model]
    # canonicalise the model's step lines the same way as the implementation's
    exp = real + lat_real
    sent_at = {}
    for i, (q, m) in enumerate(zip(req, model)):
        if q == "new":
            sent_at = {}
            now = 0
        elif q == "step" and m.startswith("step="):
            p = dict(x.split("=", 1) for x in m.split(";"))
            now = int(p["step"])
            hs = [] if p["h"] == "-" else [tuple(map(int, x.split(":"))) for x in p["h"].split(",")]
            model[i] = f"step={p['step']};h={canon_handled(hs, sent_at)}"      # when an event is discarded is not compared
        elif m.startswith("seq="):
            sent_at[int(m[4:])] = now
        elif m.startswith("seqs=") and m != "seqs=-":
            for x in m[5:].split(","):
                sent_at[int(x.split(">")[0])] = now
    chk.cov["traces_validated_against_impl"] = len(cases)
    diff = next((i for i, (a, b) in enumerate(zip(model, exp)) if a != b), None)
    if diff is None and len(model) != len(exp):
        diff = min(len(model), len(exp))
    if not chk.cov["samples"]:
        chk.cov["samples"].append({"dt": cases[0][0], "ops": show(cases[0][1])})
    # ---- decide
    for key, (dt, ops, text) in first.items():
        small = shrink(dt, ops, key)
        r = run_history(dt, small)
        t = next((t for k, t in r["viol"] if k == key), text)
        chk.add_finding(key, f"dt={dt}, history {show(small)}: {t}", {"dt": dt, "ops": small, "violations": r["viol"]})
    if lat_bad is not None and "delay-steps" not in first:
        a, b, c, e = lat_bad
        chk.add_finding("delay-steps", f"handle_delayed_event keeps DelayedEvent(delay={a}) back for {c} steps with dt={b}; ceil(delay/dt) = {e}",
                        {"dt": b, "ops": [["create", 0], ["send", 0, a, []]] + [["step", {}]] * (max(c, e) + 2)})
    for name, keyname in (("routesById", "wrong-receiver"), ("delayStepsExact", "delay-steps"), ("requeueFifo", "same-step-order")):
        if name == "routesById" and "receiver-lookup-raises" in first:
            continue
        if not facts[name] and keyname not in first and not (keyname == "delay-steps" and lat_bad):
            chk.add_finding(keyname, f"probe {name} failed on the real code but no generated history violated the statement",
                            {"probe": name}, found_input=False)
    if not ok:
        chk.add_finding("obligation", f"proof obligations of C11 no longer check: {why}",
                        {"theorem": "Bptk.C11.Gen.holds / Bptk.Props.C11", "detail": why}, found_input=False)
    if diff is not None and not first:
        allreq = req + lat_req
        if diff >= len(req):
            chk.add_finding("correspondence", f"Lean stepsOf and exact ceil disagree on {allreq[diff]!r}",
                            {"correspondence": "Drive/C11 steps vs fractions.Fraction", "request": allreq[diff],
                             "model": model[diff] if diff < len(model) else None, "reference": exp[diff]}, found_input=False)
        else:
            start, dt, ops = [x for x in index if x[0] <= diff][-1]
            chk.add_finding("correspondence", f"model and implementation disagree at protocol line {diff} ({allreq[diff]!r}) of history {show(ops)} dt={dt}",
                            {"correspondence": "Drive/C11 vs BPTK_Py SimultaneousScheduler", "dt": dt, "ops": ops, "line": diff - start,
                             "request_context": allreq[max(start, diff - 10):diff + 1],
                             "model": model[diff] if diff < len(model) else None, "impl": exp[diff] if diff < len(exp) else None},
                            found_input=False)


def replay(path):
    quiet_bptk_logging()
    r = json.load(open(path))["replay"]
    if "ops" not in r:
        print("no concrete input stored:", r)
        f = probe()
        print("probes on the current tree:", f)
        return 0 if all(f.values()) else 1
    res = run_history(r["dt"], r["ops"])
    print("dt:", r["dt"])
    print("ops:", show(r["ops"]))
    print("violations of the statement on the current tree:", res["viol"])
    if not res["viol"] and "line" in r:
        model = drive("C11", res["req"])
        print("implementation:", res["real"][-6:])
        print("model         :", model[-6:])
    return 1 if res["viol"] else 0
