"""C12 — an agent-based run executes every step once, in order, for every agent.

Probe of the progress computation + Gen obligation + correspondence (call-logging Model/Agent/DataCollector
subclasses vs Drive/C12 on whole runs and externally driven single steps, with programs that create and
delete agents inside the callbacks) + independent reference check of the statement on the real call log +
a few runs through bptk.run_scenarios (HybridRunner's skip rule)."""
import contextlib, io, json, threading
from common import *

FUEL = 5000
NS = [1, 2, 3, 4, 5, 7, 8, 10, 16]
KEY = "progress-stop-nonpositive"


# ------------------------------------------------------------------ instrumented real classes
def classes():
    from BPTK_Py import Model, Agent, DataCollector

    class LogAgent(Agent):
        def handle_events(self, time, sim_round, step):
            self.model._log.append(("H", sim_round, step, time, self.id))
            super().handle_events(time, sim_round, step)
            self.model._do("H", sim_round, step, self.id)

        def act(self, time, round_no, step_no):
            self.model._log.append(("A", round_no, step_no, time, self.id))
            self.model._do("A", round_no, step_no, self.id)

    class LogCollector(DataCollector):
        def collect_agent_statistics(self, time, agents):
            sch = self._m.scheduler
            self._m._log.append(("C", sch.current_round, sch.current_step, time, [a.id for a in agents],
                                 [a.id for a in self._m.agents]))
            super().collect_agent_statistics(time, agents)

    class LogModel(Model):
        def setup(self, prog):
            self._log = []
            self._prog = prog
            self._entry = {}
            self.register_agent_factory("a", lambda aid, model, props: LogAgent(aid, model, props, "a"))
            self.register_agent_factory("b", lambda aid, model, props: LogAgent(aid, model, props, "b"))

        def _do(self, kind, r, s, a):
            for act in self._prog.get((kind, r, s, a), ()):
                if act == "c":
                    self.create_agent("a", {})
                elif act == "C":                       # wave 7: an agent of the second type (the scheduler must not order by type)
                    self.create_agent("b", {})
                elif act == "r":                       # wave 7: configure_agents([]) removes everybody (model.agents rebound to a new empty list)
                    self.configure_agents([])
                elif act[0] in "eE":                   # wave 7: events pending at the next step (the scheduler's routing table exists then)
                    from BPTK_Py import Event, DelayedEvent
                    rid = int(act[1:])
                    self.enqueue_event(Event("ping", 0, rid) if act[0] == "e" else DelayedEvent("ping", 0, rid, 1))
                elif act == "x":                       # cancellation: the public flag the scheduler tests before every step
                    self.scheduler.running = False
                else:
                    ids = [int(x) for x in act[1:].split(".")] if len(act) > 1 else []
                    if len(ids) == 1:
                        self.delete_agent(ids[0])
                    else:
                        self.delete_agents(ids)

        def begin_round(self, time, sim_round, step):
            self._log.append(("B", sim_round, step, time))
            self._steps_with_events = getattr(self, "_steps_with_events", 0) + bool(getattr(self, "_pending_at_entry", 0))
            self._do("B", sim_round, step, 0)
            # population and next id when the agent loop is entered (reference check only)
            self._log.append(("entry", [a.id for a in self.agents], self.next_agent_id))

        def end_round(self, time, sim_round, step):
            self._log.append(("E", sim_round, step, time))
            self._do("E", sim_round, step, 0)
            # events the next step will find (evidence only)
            self._pending_at_entry = len(getattr(self, "events", ())) + len(getattr(self.scheduler, "delayed_events", ()))

    return LogModel, LogAgent, LogCollector


def new_model(case):
    from BPTK_Py import SimultaneousScheduler
    LogModel, _, LogCollector = classes()
    dc = LogCollector()
    m = LogModel(name="c12", scheduler=SimultaneousScheduler(), data_collector=dc)
    dc._m = m
    prog = {}
    for k, r, s, a, acts in case["prog"]:
        prog.setdefault((k, r, s, a), []).extend(acts)
    m.setup(prog)
    dt = case_dt(case)
    assert round(1 / dt) == case["n"]
    m.run_specs(case["start"], case["stop"], dt)
    for i in range(case["k0"]):
        m.create_agent("a" if i % 2 == 0 else "b", {})      # wave 7: two agent types interleaved in creation order
    return m, dt


def case_dt(case):
    """dt as the caller passes it: a float 1/n, or (wave 7, value kind) the int 1"""
    return 1 if (case["n"] == 1 and case.get("dt_int")) else 1 / case["n"]


class Widget:
    """stand-in for the progress widget Model.run(show_progress_widget=True) hands to the scheduler"""
    value = None


def map_act(x):
    """program action -> what the driver's Prog sees: events do nothing to the population, both agent types are `create`,
    configure_agents([]) deletes every id"""
    if x == "C":
        return "c"
    if x == "r":
        return "d" + ".".join(map(str, range(400)))
    return x


def model_acts(acts):
    return [map_act(x) for x in acts if x != "x" and x[0] not in "eE"]


def ev_str(e):
    h = f"/{e[1]}/{e[2]}/{fbits(e[3])}"
    if e[0] in ("B", "E"):
        return e[0] + h
    if e[0] in ("H", "A"):
        return e[0] + h + f"/{e[4]}"
    return "C" + h + "/" + ".".join(map(str, e[4]))


def status_real(m, evs, crashed, span, keys_from=None):
    p = m.scheduler.progress
    if keys_from is None:
        keys = sorted(fbits(k) for k in m.data_collector.agent_statistics.keys())
    else:      # history mode: the times at which statistics were taken since the run specs were last set
        keys = sorted({fbits(e[3]) for e in keys_from if e[0] == "C"})
    return (";".join(ev_str(e) for e in evs if e[0] != "entry") +
            f"|progress={fbits(p) if span else '%.9f' % p}|skipped={1 if p < 1.0 else 0}|crashed={1 if crashed else 0}|stuck=0"
            f"|keys={','.join(keys)}|pop={'.'.join(str(a.id) for a in m.agents)}|next={m.next_agent_id}"
            f"|running={1 if m.scheduler.running else 0}")


def canon_model(line, span):
    """driver reply -> same canonical form as status_real (progress fraction -> float, keys sorted)."""
    parts = line.split("|")
    out = []
    for p in parts:
        if p.startswith("progress="):
            a, b = p[9:].split("/")
            x = int(a) / int(b)
            p = "progress=" + (fbits(x) if span else "%.9f" % x)
        elif p.startswith("keys="):
            p = "keys=" + ",".join(sorted(k for k in p[5:].split(",") if k))
        out.append(p)
    return "|".join(out)


def run_real(case, span):
    """returns (reply lines in driver format, raw log, crashed?, model)."""
    m, dt = new_model(case)
    lines = []
    crashed = False
    if case["mode"] == "run":
        try:
            if case.get("widget"):          # what Model.run(show_progress_widget=True) does, without ipywidgets
                m._widget = Widget()
                m.scheduler.run(m, m._widget, bool(case["collect"]))
            else:
                m.run(collect_data=bool(case["collect"]))
        except ZeroDivisionError:
            crashed = True
        lines.append(status_real(m, m._log, crashed, span))
        if case.get("rerun") and not crashed:          # `run` again: the flag is never set back
            n0 = len(m._log)
            m.run(collect_data=bool(case["collect"]))
            lines.append(status_real(m, m._log[n0:], crashed, span))
    else:
        for st in case["steps"]:
            n0 = len(m._log)
            try:
                if st[0] == "model":
                    m.run_step(st[1], collect_data=bool(case["collect"]))
                else:
                    m.scheduler.run_step(m, st[1], st[2], None, bool(case["collect"]))
            except ZeroDivisionError:
                crashed = True
            lines.append(status_real(m, m._log[n0:], crashed, span))
    return lines, m._log, crashed, m, dt


def cancel_positions(case):
    """steps in which begin_round / end_round clear scheduler.running (these callbacks run in every executed step)"""
    return sorted({(r, s) for k, r, s, a, acts in case["prog"] if k in "BE" and "x" in acts})


def create_bound(case):
    """(N, c) of the theorem `agentLoop_terminates` for this program table: every agent creates at most c agents in its
    handle_events + act of one step, agents with id >= N create nobody."""
    per = {}
    for k, r, s, a, acts in case["prog"]:
        if k in "HA":
            per[(r, s, a)] = per.get((r, s, a), 0) + sum(1 for x in acts if x in ("c", "C"))
    c = max(per.values(), default=0)
    n = max((a + 1 for (r, s, a), v in per.items() if v > 0), default=0)
    return n, c


def requests(case, fuel=FUEL):
    prog = ";".join(f"{k}:{r}:{s}:{a}:{','.join(model_acts(acts))}" for k, r, s, a, acts in case["prog"]) or "-"
    req = [f"prog {prog}",
           f"new {case['start']} {case['stop']} {case['n']} {case['collect']} {case['k0']} {fuel} {fbits(1 / case['n'])}"]
    if case["mode"] == "run":
        cp = ";".join(f"{r}:{s}" for r, s in cancel_positions(case)) or "-"
        req.append("run" if cp == "-" and not case.get("rerun") else f"runc {cp}")
        if case.get("rerun"):
            req.append(f"rerun {cp}")
    else:
        for st in case["steps"]:
            req.append(f"step 0 {st[1]}" if st[0] == "model" else f"step {st[1]} {st[2]}")
    return req


# ------------------------------------------------------------------ wave 3: histories on ONE model and scheduler
def seg_case(case, seg):
    """the run specs in force during a segment, as a case of the fresh-model kind (for spec_check)"""
    c = {"start": seg["start"], "stop": seg["stop"], "n": seg["n"], "collect": seg["collect"], "k0": case["k0"], "prog": case["prog"],
         "mode": "run" if seg["kind"] == "run" else "steps"}
    if seg["kind"] != "run":
        c["steps"] = seg["steps"]
        c["history_steps"] = True
    return c


def run_history(case, span):
    """model.run_specs(...) then run / externally driven steps, segment after segment, on the same model and scheduler.
    Returns (reply lines per segment, first violation (key, text) against the CURRENT run specs or None, model, steps executed)."""
    s0 = case["segments"][0]
    m, _ = new_model({"start": s0["start"], "stop": s0["stop"], "n": s0["n"], "k0": case["k0"], "prog": case["prog"]})
    lines, first, nsteps = [], None, 0
    for i, seg in enumerate(case["segments"]):
        dt = 1 / seg["n"]
        assert round(1 / dt) == seg["n"]
        m.run_specs(seg["start"], seg["stop"], dt)
        mark = len(m._log)
        crashed = False
        seg_lines = []
        if seg["kind"] == "run":
            try:
                m.run(collect_data=bool(seg["collect"]))
            except ZeroDivisionError:
                crashed = True
            seg_lines.append(status_real(m, m._log[mark:], crashed, span, m._log[mark:]))
        else:
            for st in seg["steps"]:
                n0 = len(m._log)
                try:
                    if st[0] == "model":
                        m.run_step(st[1], collect_data=bool(seg["collect"]))
                    else:
                        m.scheduler.run_step(m, st[1], st[2], None, bool(seg["collect"]))
                except ZeroDivisionError:
                    crashed = True
                seg_lines.append(status_real(m, m._log[n0:], crashed, span, m._log[mark:]))
        lines.append(seg_lines)
        nsteps += sum(1 for e in m._log[mark:] if e[0] == "B")
        v = spec_check(seg_case(case, seg), m._log[mark:], crashed, m, dt)
        if v and first is None:
            kind = "run" if seg["kind"] == "run" else "externally driven steps"
            first = (v[0], f"call #{i + 1} on the same model and scheduler ({kind} after run_specs({seg['start']}, {seg['stop']}, {dt})): {v[1]}")
        if crashed:
            break
    return lines, first, m, nsteps


def requests_history(case, fuel):
    prog = ";".join(f"{k}:{r}:{s}:{a}:{','.join(model_acts(acts))}" for k, r, s, a, acts in case["prog"]) or "-"
    s0 = case["segments"][0]
    req = [f"prog {prog}", f"new {s0['start']} {s0['stop']} {s0['n']} {s0['collect']} {case['k0']} {fuel} {fbits(1 / s0['n'])}"]
    for seg in case["segments"]:
        req.append(f"respec {seg['start']} {seg['stop']} {seg['n']} {seg['collect']} {fuel} {fbits(1 / seg['n'])}")
        if seg["kind"] == "run":
            req.append("hrun")
        else:
            for st in seg["steps"]:
                req.append(f"hstep 0 {st[1]}" if st[0] == "model" else f"hstep {st[1]} {st[2]}")
    return req


def gen_history_cases(chk, rng):
    cases = []
    def seg(start, stop, n, collect, kind="run", steps=None):
        d = {"start": start, "stop": stop, "n": n, "collect": collect, "kind": kind}
        if kind != "run":
            d["steps"] = steps
        return d
    # systematic: dt changed in both directions between two calls, start/stop changed, with and without data collection;
    # the second call a run or externally driven steps; the first call a run or a single step
    for (n1, n2) in [(1, 2), (2, 1), (2, 4), (4, 1), (1, 3), (3, 2), (2, 2)]:
        for c1 in (0, 1):
            for c2 in (0, 1):
                for (a2, b2) in [(0, 1), (1, 2), (-1, 0)]:
                    cases.append({"mode": "history", "k0": 2, "prog": [], "segments": [seg(0, 1, n1, c1), seg(a2, b2, n2, c2)]})
                cases.append({"mode": "history", "k0": 1, "prog": [["A", 0, 0, 0, ["c"]]], "segments": [
                    seg(0, 1, n1, c1, "steps", [["sched", 0, 0]]), seg(0, 1, n2, c2)]})
                cases.append({"mode": "history", "k0": 1, "prog": [], "segments": [
                    seg(0, 0, n1, c1), seg(0, 1, n2, c2, "steps", [["sched", r, s_] for r in (0, 1) for s_ in range(n2)])]})
                cases.append({"mode": "history", "k0": 1, "prog": [], "segments": [
                    seg(0, 0, n1, c1), seg(0, 0, n2, c2, "steps", [["model", s_] for s_ in range(n2)]), seg(1, 1, n1, c1)]})
    # random histories of 2-4 calls with programs
    for _ in range(40 if chk.quick else 800):
        k0 = rng.range(0, 3)
        segs, pos = [], []
        for _ in range(rng.range(2, 4)):
            start = rng.range(-2, 2)
            stop = start + rng.range(0, 2)
            n = rng.choice([1, 2, 3, 4, 5, 8])
            if rng.chance(2, 3):
                segs.append(seg(start, stop, n, rng.below(2)))
                pos += [(r, s_) for r in range(start, stop + 1) for s_ in range(n)]
            else:
                steps = []
                for _ in range(rng.range(1, 4)):
                    steps.append(["model", rng.below(n + 1)] if rng.chance(1, 2) else ["sched", rng.range(start, stop), rng.below(n)])
                segs.append(seg(start, stop, n, rng.below(2), "steps", steps))
                pos += [(0, st[1]) if st[0] == "model" else (st[1], st[2]) for st in steps]
        cases.append({"mode": "history", "k0": k0, "prog": gen_prog(rng, sorted(set(pos)), k0, 25), "segments": segs})
    return cases


def run_shared_scheduler(case, span):
    """wave 7: ONE scheduler object serving TWO models (own populations, own run specs), called alternately; every call is checked
    against the specification for the model and run specs it was made with (reference only). Returns first violation or None."""
    segs = case["segments"]
    models = []
    for i in (0, 1):
        s0 = next(sg for sg in segs if sg["model"] == i)
        m, _ = new_model({"start": s0["start"], "stop": s0["stop"], "n": s0["n"], "k0": case["k0"] + i, "prog": case["prog"]})
        models.append(m)
    models[1].scheduler = models[0].scheduler
    for i, seg in enumerate(segs):
        m = models[seg["model"]]
        dt = 1 / seg["n"]
        m.run_specs(seg["start"], seg["stop"], dt)
        mark, crashed = len(m._log), False
        try:
            if seg["kind"] == "run":
                m.run(collect_data=bool(seg["collect"]))
            else:
                for st in seg["steps"]:
                    m.scheduler.run_step(m, st[1], st[2], None, bool(seg["collect"]))
        except ZeroDivisionError:
            crashed = True
        v = spec_check(dict(seg_case(dict(case, k0=case["k0"] + seg["model"]), seg)), m._log[mark:], crashed, m, dt)
        if v:
            return (v[0], f"call #{i + 1} (model {seg['model'] + 1} of two models sharing one scheduler object, run_specs({seg['start']}, {seg['stop']}, {dt})): {v[1]}")
    return None


def gen_shared_scheduler_cases():
    cases = []
    def seg(mi, start, stop, n, collect, kind="run", steps=None):
        d = {"model": mi, "start": start, "stop": stop, "n": n, "collect": collect, "kind": kind}
        if steps is not None:
            d["steps"] = steps
        return d
    for (n1, n2) in [(1, 2), (2, 1), (4, 2), (2, 2)]:
        for c in (0, 1):
            cases.append({"mode": "shared", "k0": 1, "prog": [["A", 0, 0, 0, ["c"]]], "segments": [
                seg(0, 0, 1, n1, c), seg(1, -1, 0, n2, 1 - c), seg(0, 0, 1, n1, c), seg(1, 0, 0, n2, c, "steps", [["sched", 0, s_] for s_ in range(n2)])]})
    return cases


def violation_of(case, span):
    """(key, text) or None for a case of either kind, on the current tree"""
    if case.get("mode") == "history":
        return run_history(case, span)[1]
    if case.get("mode") == "shared":
        return run_shared_scheduler(case, span)
    _, lg, cr, mm, d = run_real(case, span)
    return spec_check(case, lg, cr, mm, d)


# ------------------------------------------------------------------ reference check (statement of C12)
def grid(case):
    return [(r, s) for r in range(case["start"], case["stop"] + 1) for s in range(case["n"])]


def blocks_of(log):
    """split the raw log into step blocks; returns list of dicts or raises ValueError(text)."""
    out, cur = [], None
    for e in log:
        if e[0] == "B":
            cur = {"pos": (e[1], e[2]), "time": e[3], "seq": ["B"], "acted": [], "entry": None, "collect": [], "events": [e]}
            out.append(cur)
            continue
        if cur is None:
            raise ValueError(f"callback {e[0]} before any begin_round")
        if e[0] == "entry":
            cur["entry"] = (e[1], e[2])
            continue
        cur["events"].append(e)
        cur["seq"].append(e[0])
        if e[0] == "A":
            cur["acted"].append(e[4])
        if e[0] == "C":
            cur["collect"].append(e)
    return out


def check_block(b, dt, want_collect):
    """the per-step clause; returns None or text."""
    r, s = b["pos"]
    for e in b["events"]:
        if (e[1], e[2]) != (r, s):
            return f"callback {e[0]} of step {(e[1], e[2])} inside step {(r, s)}"
        if e[3] != r + s * dt:
            return f"time label {e[3]!r} of {e[0]} at round {r} step {s} is not round + step*dt = {r + s * dt!r}"
    seq, k = b["seq"], len(b["acted"])
    expect = ["B"] + ["H", "A"] * k + ["E"] + (["C"] if want_collect else [])
    if seq != expect:
        return f"callback order in step {(r, s)} is {''.join(seq)}, expected {''.join(expect)}"
    ha = [e[4] for e in b["events"] if e[0] in ("H", "A")]
    if ha != [x for a in b["acted"] for x in (a, a)]:
        return f"handle_events/act not paired per agent in step {(r, s)}: {ha}"
    acted = b["acted"]
    if any(x >= y for x, y in zip(acted, acted[1:])):
        return f"agents act out of creation order or twice in step {(r, s)}: {acted}"
    live, nxt = b["entry"]
    if acted[:len(live)] != live:
        return f"live agents {live} did not all act first, in order, in step {(r, s)}: acted {acted}"
    if any(x < nxt for x in acted[len(live):]):
        return f"an agent that was neither live nor created in step {(r, s)} acted: {acted} (live {live}, next id {nxt})"
    for c in b["collect"]:
        if c[4] != c[5]:
            return f"statistics of step {(r, s)} taken over {c[4]}, population is {c[5]}"
    return None


def spec_check(case, log, crashed, m, dt):
    """returns None or (key, text)."""
    whole = case["mode"] == "run"
    if crashed:
        return (KEY, f"run_specs({case['start']}, {case['stop']}, {dt}): run_step raises ZeroDivisionError "
                     f"while computing scheduler.progress")
    try:
        bl = blocks_of(log)
    except ValueError as e:
        return ("callback-order", str(e))
    cancelled_early = False
    if whole and case.get("rerun"):
        # the second `run` (blocks after the first run's statistics were reset) is checked by the correspondence only
        first_run = []
        seen = set()
        for b in bl:
            if b["pos"] in seen:
                break
            seen.add(b["pos"]); first_run.append(b)
        bl = first_run
    if whole:
        g = grid(case)
        cps = set(cancel_positions(case))
        if cps & set(g):
            # cancellation is outside the statement: what the statement still fixes is that the executed steps are an initial
            # segment of the grid (each once, in order) that includes the step in which the flag was cleared; where exactly the
            # run stops after that is compared with the model as evidence only (notes.cancel_model)
            k = min(i for i, p in enumerate(g) if p in cps)
            got = [b["pos"] for b in bl]
            cancelled_early = len(got) < len(g)
            if len(got) >= k + 1 and got == g[:len(got)]:
                g = got
            else:
                g = g[:k + 1]
        if [b["pos"] for b in bl] != g:
            return ("steps", f"steps executed {[b['pos'] for b in bl][:12]}… expected the grid {g[:12]}… "
                             f"({len(bl)} vs {len(g)} steps)")
        if any(x["time"] >= y["time"] for x, y in zip(bl, bl[1:])):
            return ("steps", "time labels do not increase strictly")
    else:
        want = [(0, st[1]) if st[0] == "model" else (st[1], st[2]) for st in case["steps"]]
        if [b["pos"] for b in bl] != want:
            return ("steps", f"externally driven steps {want} executed as {[b['pos'] for b in bl]}")
    last = (case["stop"], case["n"] - 1)
    for b in bl:
        t = check_block(b, dt, bool(case["collect"]) or b["pos"] == last)
        if t:
            return ("callback-order", t)
    keys = set(m.data_collector.agent_statistics.keys())
    want_keys = {b["time"] for b in bl if b["collect"]}
    if keys != want_keys and not case.get("rerun") and not case.get("history_steps"):
        return ("collect", f"agent_statistics has times {sorted(keys)}, statistics were taken at {sorted(want_keys)}")
    if whole and case["start"] <= case["stop"] and m.scheduler.progress < 1.0 and not cancelled_early and not case.get("rerun"):
        return (KEY, f"run_specs({case['start']}, {case['stop']}, {dt}): all {len(bl)} steps ran but scheduler.progress "
                     f"ends at {m.scheduler.progress} < 1.0, so HybridRunner.run_scenario skips the scenario")
    return None


# ------------------------------------------------------------------ probes
def probe():
    facts = {"progressBySpan": True, "detail": []}
    for spec in [(0, 0, 2), (-2, 0, 2), (-3, -1, 2), (1, 3, 2)]:
        case = {"start": spec[0], "stop": spec[1], "n": spec[2], "collect": 1, "k0": 1, "prog": [], "mode": "run"}
        _, log, crashed, m, dt = run_real(case, True)
        ok = (not crashed) and m.scheduler.progress >= 1.0
        facts["detail"].append({"run_specs": [spec[0], spec[1], dt], "crashed": crashed,
                                "final_progress": m.scheduler.progress, "steps": len(blocks_of(log))})
        if not ok:
            facts["progressBySpan"] = False
    # steps per round follow the run specs in force: run with dt 1, change dt to 0.5 on the same model and scheduler, run again
    hist = {"mode": "history", "k0": 1, "prog": [], "segments": [
        {"start": 0, "stop": 0, "n": 1, "collect": 1, "kind": "run"}, {"start": 0, "stop": 0, "n": 2, "collect": 1, "kind": "run"},
        {"start": 0, "stop": 0, "n": 1, "collect": 1, "kind": "run"}]}
    try:
        hl, hv, hm, _ = run_history(hist, True)
        second = hl[1][0].split("|")[0].count("B/") if len(hl) > 1 else None
        third = hl[2][0].split("|")[0].count("B/") if len(hl) > 2 else None
    except Exception as e:
        second = third = f"raises {type(e).__name__}"
    facts["stepsFromSpecs"] = (second == 2 and third == 1)
    facts["history_probe"] = {"steps_of_second_run_dt_0.5": second, "steps_of_third_run_dt_1": third}
    # the only non-terminating case: EVERY agent creates an agent when it acts. The real `for agent in model.agents` keeps finding a new
    # last element; a watchdog in act() stops it after K acts so that the probe returns (the loop itself would not)
    facts["unbounded"] = unbounded_probe(40)
    # wave 7: a step that starts with pending events (immediate and delayed, sent in the previous step) for a population of two agent
    # types in interleaved creation order: the agents still act in list order, each once
    case = {"start": 0, "stop": 0, "n": 2, "collect": 1, "k0": 3, "mode": "run", "prog": [["E", 0, 0, 0, ["e2", "E0", "e1"]]]}
    _, log, crashed, m, dt = run_real(case, True)
    bl = blocks_of(log)
    facts["order_probe"] = {"acted_step_0_1": bl[1]["acted"] if len(bl) > 1 else None,
                            "pending_events_at_entry": getattr(m, "_steps_with_events", 0), "types": [a.agent_type for a in m.agents]}
    # mid-step iteration semantics on the real scheduler: agent 0 creates agent 2 (acts in this step), agent 2 creates agent 3
    # (nested, acts in this step), deletes agent 0 (the list object is rebound) and creates agent 4 (acts from the next step on)
    case = {"start": 1, "stop": 1, "n": 1, "collect": 1, "k0": 2, "mode": "run",
            "prog": [["A", 1, 0, 0, ["c"]], ["A", 1, 0, 2, ["c", "d0", "c"]]]}
    _, log, crashed, m, dt = run_real(case, True)
    bl = blocks_of(log)
    facts["midstep"] = {"acted": bl[0]["acted"] if bl else None, "pop": [a.id for a in m.agents], "next": m.next_agent_id,
                        "bound": list(create_bound(case))}
    return facts


def unbounded_probe(k):
    from BPTK_Py import Model, Agent, SimultaneousScheduler, DataCollector

    class Watchdog(Exception):
        pass

    class Spawner(Agent):
        def act(self, time, round_no, step_no):
            self.model._acted.append(self.id)
            if len(self.model._acted) >= k:
                raise Watchdog()
            self.model.create_agent("a", {})

    m = Model(name="c12u", scheduler=SimultaneousScheduler(), data_collector=DataCollector())
    m._acted = []
    m.register_agent_factory("a", lambda aid, model, props: Spawner(aid, model, props, "a"))
    m.run_specs(0, 0, 1)
    m.create_agent("a", {})
    stopped_by = "the loop ended by itself"
    try:
        m.scheduler.run_step(m, 0, 0, None, True)
    except Watchdog:
        stopped_by = "watchdog"
    return {"k": k, "acted": m._acted, "stopped_by": stopped_by, "agents_alive": len(m.agents)}


def gen_lean(facts):
    good = facts["progressBySpan"]
    body = ("theorem holds : C12_full cfg := C12_full_of_good cfg (by decide)\n#print axioms holds\n" if good else
            "theorem violated : ¬ C12_full cfg := C12_witness_zero cfg (by decide)\n"
            "theorem violated_negative_stop : ¬ C12_full cfg := C12_witness_negative cfg (by decide)\n"
            "#print axioms violated\n#print axioms violated_negative_stop\n#print axioms C12_partial\n")
    hgood = facts.get("stepsFromSpecs", True)
    body += f"def hcfg : SchedCfg := {{ stepsFromSpecs := {'true' if hgood else 'false'} }}\n"
    if good and hgood:
        body += "theorem history_holds : C12_history cfg hcfg := C12_history_of_good cfg (by decide) hcfg (by decide)\n#print axioms history_holds\n"
    elif good:
        body += ("theorem history_violated : ¬ C12_history cfg hcfg := C12_history_witness cfg (by decide) hcfg (by decide)\n"
                 "#print axioms history_violated\n")
    ub = facts.get("unbounded") or {}
    if ub.get("stopped_by") == "watchdog":
        lst_ = "[" + ", ".join(map(str, ub["acted"])) + "]"
        body += ("def spawnProg : Prog := { quietProg with act := fun _ _ _ => [.create] }\n"
                 "/-- every agent creates an agent when it acts: the real loop was still visiting fresh agents when the probe's watchdog stopped it after\n"
                 f"{ub['k']} acts; the model with fuel {ub['k']} has visited the same ids and is still not done (`stuck`) — and is so for EVERY fuel (agentLoop_diverges) -/\n"
                 f"theorem unbounded_probe : (agentLoop spawnProg 0 0 {ub['k']} ⟨[0], true, ⟨[0], 1⟩⟩ []).1 = {lst_} ∧\n"
                 f"    (agentLoop spawnProg 0 0 {ub['k']} ⟨[0], true, ⟨[0], 1⟩⟩ []).2.2 = true := by decide\n"
                 "theorem unbounded_forever : ∀ fuel, (agentLoop spawnProg 0 0 fuel ⟨[0], true, ⟨[0], 1⟩⟩ []).2.2 = true :=\n"
                 "  fun fuel => agentLoop_diverges spawnProg 0 0 (fun _ => ⟨rfl, rfl⟩) fuel _ [] rfl (by simp)\n"
                 "#print axioms unbounded_probe\n#print axioms unbounded_forever\n")
    op = facts.get("order_probe") or {}
    if op.get("acted_step_0_1") is not None:
        body += ("/-- with events pending at entry and two agent types interleaved the real scheduler lets the agents act in list order -/\n"
                 "theorem order_probe : (stepOut quietProg { start := 0, stop := 0, n := 2, collectOn := true, fuel := 3 } ⟨[0, 1, 2], 3⟩ 0 1).acted = "
                 + "[" + ", ".join(map(str, op["acted_step_0_1"])) + "] := by decide\n#print axioms order_probe\n")
    ms = facts.get("midstep") or {}
    mid = ""
    if ms.get("acted") is not None:
        n_, c_ = ms["bound"]
        lst = lambda xs: "[" + ", ".join(map(str, xs)) + "]"
        mid = ("def probeProg : Prog := { quietProg with act := fun r s a => if r = 1 ∧ s = 0 ∧ a = 0 then [.create] else\n"
               "  if r = 1 ∧ s = 0 ∧ a = 2 then [.create, .delete [0], .create] else [] }\n"
               f"def probeSpec : Spec := {{ start := 1, stop := 1, n := 1, collectOn := true, fuel := 2 + {c_} * {n_} }}\n"
               "/-- what the real scheduler did on the nested create / delete / create program (acting agents, final population) is what the\n"
               "model computes, with exactly the fuel `L + c·N` of `agentLoop_terminates` -/\n"
               f"theorem midstep_probe : (stepOut probeProg probeSpec ⟨[0, 1], 2⟩ 1 0).acted = {lst(ms['acted'])} ∧\n"
               f"    (stepOut probeProg probeSpec ⟨[0, 1], 2⟩ 1 0).pop = ⟨{lst(ms['pop'])}, {ms['next']}⟩ ∧\n"
               "    (stepOut probeProg probeSpec ⟨[0, 1], 2⟩ 1 0).stuck = false := by decide\n#print axioms midstep_probe\n")
    return ("import Bptk.Props.C12\n/-! GENERATED by harness/props/c12.py from /repo on every run — do not edit. -/\n"
            "namespace Bptk.C12.Gen\n"
            f"def cfg : Cfg := {{ progressBySpan := {'true' if good else 'false'} }}\n" + body + mid + "end Bptk.C12.Gen\n")


# ------------------------------------------------------------------ generators
def gen_prog(rng, positions, k0, density):
    """program entries at the given (r, s) positions; ids it may address: 0 .. k0 + created."""
    prog, bound = [], k0
    for (r, s) in positions:
        if not rng.chance(density, 100):
            continue
        for _ in range(rng.range(1, 3)):
            kind = rng.choice(["A", "A", "A", "H", "B", "E"])
            a = 0 if kind in "BE" else rng.below(bound + 2)
            acts = []
            for _ in range(rng.range(1, 3)):
                q = rng.below(16)
                if q == 0:
                    acts.append(rng.choice("eE") + str(rng.below(bound + 1)))
                elif q == 1 and kind in "BE":
                    acts.append("r")
                elif q < 9:
                    acts.append(rng.choice(["c", "c", "C"])); bound += 1
                else:
                    k = rng.range(0, 2)
                    acts.append("d" + ".".join(str(rng.below(bound + 2)) for _ in range(k)))
            prog.append([kind, r, s, a, acts])
    return prog


def gen_midstep_cases():
    """systematic: an agent created / deleted during a step at every position of the acting agent (first / middle / last) and of
    the deleted agent (first / middle / last / the acting agent itself), in handle_events and in act; nested creations (the agent
    created in this step creates the next one, to depth 3, one or two creations each, optionally with a deletion in between)."""
    cases = []
    def run_case(k0, prog):
        return {"start": 1, "stop": 2, "n": 2, "collect": 1, "k0": k0, "prog": prog, "mode": "run", "midstep": True}
    for k0 in (1, 2, 3, 4):
        where = sorted({0, k0 // 2, k0 - 1})
        for a in where:
            for kind in ("H", "A"):
                variants = [["c"], [f"d{a}"], ["c", f"d{a}", "c"], [f"d{a}", "c"]]
                for t in where:
                    variants += [[f"d{t}"], ["c", f"d{t}"], [f"d{t}", "c"], [f"d{t}.{a}"], ["c", f"d{k0}"]]
                seen = set()
                for acts in variants:
                    if tuple(acts) not in seen:
                        seen.add(tuple(acts))
                        cases.append(run_case(k0, [[kind, 1, 0, a, acts]]))
    for k0 in (1, 2, 3):
        for a in sorted({0, k0 - 1}):
            for depth in (1, 2, 3):
                chain = [["A", 1, 1, a, ["c"]]] + [["A" if j % 2 else "H", 1, 1, k0 + j, ["c"]] for j in range(depth)]
                cases.append(run_case(k0, chain))
                cases.append(run_case(k0, chain[:1] + [["H", 1, 1, k0, ["d0"]]] + chain[1:]))
                cases.append(run_case(k0, chain[:2] + [["A", 1, 1, k0 + 1, [f"d{k0 + 1}"]]] + chain[2:]))
                cases.append(run_case(k0, [["A", 1, 1, a, ["c", "c"]]] + [["A", 1, 1, k0 + j, ["c", "c"]] for j in range(depth)]))
    return cases


def gen_negative_cases():
    """wave 6: negative start times with dt in {1, 0.5, 0.25}, data collection on and off: whole runs (quiet and with a create/delete
    program in a negative round), the whole grid driven externally step by step through scheduler.run_step(model, r, s), and
    Model.run_step(s) for every step of a round."""
    cases = []
    for start in (-3, -2, -1):
        for stop in sorted({start, start + 1, 0}):
            for n in (1, 2, 4):
                for collect in (0, 1):
                    g = [(r, s) for r in range(start, stop + 1) for s in range(n)]
                    base = {"start": start, "stop": stop, "n": n, "collect": collect, "k0": 2, "negative": True}
                    cases.append(dict(base, prog=[], mode="run"))
                    cases.append(dict(base, prog=[["A", start, n - 1, 0, ["c", "d1"]], ["E", stop, 0, 0, ["c"]]], mode="run"))
                    cases.append(dict(base, prog=[["A", start, 0, 1, ["c"]]], mode="steps", steps=[["sched", r, s] for r, s in g]))
                    cases.append(dict(base, prog=[], mode="steps", steps=[["model", s] for s in range(n)]))
    return cases


def gen_wave7_cases():
    """value kinds (dt the int 1, many steps per round, 1/dt = 7 or 16, a large start time), events pending when a step starts (sent in
    the previous step, immediate and delayed, to the first / last / a deleted agent), agents of two types interleaved with creations of
    both types, configure_agents([]) in begin_round / end_round, a progress widget object."""
    cases = []
    for collect in (0, 1):
        for (a, b) in [(0, 1), (-1, 0), (2, 2)]:
            cases.append({"start": a, "stop": b, "n": 1, "collect": collect, "k0": 3, "prog": [["A", a, 0, 1, ["C", "c"]]], "mode": "run", "dt_int": 1})
            cases.append({"start": a, "stop": b, "n": 1, "collect": collect, "k0": 2, "prog": [], "mode": "steps", "dt_int": 1,
                          "steps": [["sched", a, 0], ["model", 0]]})
        for (a, b, n) in [(0, 0, 100), (-1, -1, 16), (5, 5, 7), (1000000, 1000001, 4), (-1000000, -1000000, 8)]:
            cases.append({"start": a, "stop": b, "n": n, "collect": collect, "k0": 1, "prog": [["A", a, n - 1, 0, ["c"]]], "mode": "run"})
        for k0 in (2, 3):
            for tgt in (0, k0 - 1, k0):          # receiver: first, last, an agent created later in the sending step
                for ev in "eE":
                    cases.append({"start": 0, "stop": 1, "n": 2, "collect": collect, "k0": k0, "mode": "run",
                                  "prog": [["A", 0, 0, 0, [f"{ev}{tgt}", "C", f"{ev}0"]], ["A", 0, 1, k0 - 1, ["d0"]], ["E", 1, 0, 0, [f"{ev}1"]]]})
        for kind in "BE":
            cases.append({"start": 0, "stop": 1, "n": 2, "collect": collect, "k0": 3, "mode": "run",
                          "prog": [[kind, 0, 1, 0, ["r"]], ["A", 1, 0, 0, ["c"]], ["B", 1, 0, 0, ["C", "c"]]]})
            cases.append({"start": 0, "stop": 0, "n": 2, "collect": collect, "k0": 2, "mode": "run",
                          "prog": [[kind, 0, 0, 0, ["c", "r", "C"]]]})
        for n in (1, 2):
            cases.append({"start": -1, "stop": 0, "n": n, "collect": collect, "k0": 2, "prog": [["A", 0, 0, 1, ["c"]]], "mode": "run", "widget": 1})
    for c in cases:
        c["wave7"] = True
    return cases


def gen_cancel_cases():
    """scheduler.running cleared in begin_round / end_round of every position of a 2x2 and a 1x3 grid, once also twice, with and
    without a second `run` afterwards (the flag is never set back)."""
    cases = []
    for (start, stop, n) in [(1, 2, 2), (0, 0, 3), (-1, 0, 1)]:
        g = [(r, s) for r in range(start, stop + 1) for s in range(n)]
        for (r, s) in g:
            for kind in "BE":
                for rerun in (0, 1):
                    cases.append({"start": start, "stop": stop, "n": n, "collect": 1, "k0": 2, "mode": "run", "rerun": rerun,
                                  "prog": [[kind, r, s, 0, ["x"]], ["A", r, s, 0, ["c"]]]})
        cases.append({"start": start, "stop": stop, "n": n, "collect": 0, "k0": 1, "mode": "run", "rerun": 1,
                      "prog": [["B", g[0][0], g[0][1], 0, ["x"]], ["E", g[-1][0], g[-1][1], 0, ["x"]]]})
        cases.append({"start": start, "stop": stop, "n": n, "collect": 1, "k0": 1, "mode": "run", "rerun": 1, "prog": []})
    return cases


def gen_cases(chk):
    rng = chk.rng.fork("c12")
    cases = []
    # exhaustive small run specs, quiet program, both switch settings
    for start in range(-3, 3):
        for stop in range(start - 1, start + 3):
            for n in (1, 2, 3):
                for collect in (0, 1):
                    cases.append({"start": start, "stop": stop, "n": n, "collect": collect, "k0": 2, "prog": [], "mode": "run"})
    n_exh = len(cases)
    # the three documented run specs with a program
    for (a, b) in [(0, 0), (-2, 0), (-3, -1)]:
        cases.append({"start": a, "stop": b, "n": 2, "collect": 0, "k0": 2,
                      "prog": [["A", a, 0, 0, ["c", "d1", "c"]]], "mode": "run"})
    cases += gen_midstep_cases()
    cases += gen_cancel_cases()
    cases += gen_negative_cases()
    cases += gen_wave7_cases()
    # random whole runs with programs
    for _ in range(120 if chk.quick else 2500):
        start = rng.range(-6, 6)
        stop = start + rng.range(-1, 5) if rng.chance(4, 5) else rng.range(-6, 8)
        n = rng.choice(NS)
        k0 = rng.range(0, 5)
        pos = [(r, s) for r in range(start, stop + 1) for s in range(n)]
        prog = gen_prog(rng, pos, k0, rng.choice([0, 10, 30, 60]))
        if pos and rng.chance(1, 5):          # cancellation somewhere in the run
            r, s = rng.choice(pos)
            prog.append([rng.choice("BE"), r, s, 0, ["x"]])
        cases.append({"start": start, "stop": stop, "n": n, "collect": rng.below(2), "k0": k0,
                      "prog": prog, "mode": "run", "rerun": 1 if rng.chance(1, 8) else 0})
    # externally driven single steps (Model.run_step(s) = round 0; scheduler.run_step(model, r, s))
    for _ in range(60 if chk.quick else 1200):
        start = rng.range(-4, 4)
        stop = start + rng.range(-2, 4)
        n = rng.choice(NS)
        k0 = rng.range(0, 4)
        steps = []
        for _ in range(rng.range(1, 8)):
            if rng.chance(1, 2):
                steps.append(["model", rng.below(n + 2)])
            else:
                steps.append(["sched", rng.range(start - 1, stop + 1), rng.below(n + 1)])
        pos = [(0, st[1]) if st[0] == "model" else (st[1], st[2]) for st in steps]
        cases.append({"start": start, "stop": stop, "n": n, "collect": rng.below(2), "k0": k0,
                      "prog": gen_prog(rng, sorted(set(pos)), k0, 50), "mode": "steps", "steps": steps})
    return cases, n_exh


def shrink_case(case, fails):
    case = json.loads(json.dumps(case))
    changed = True
    while changed:
        changed = False
        for field in ("prog", "steps"):
            xs = case.get(field) or []
            for i in range(len(xs)):
                cand = dict(case); cand[field] = xs[:i] + xs[i + 1:]
                if (field != "steps" or cand[field]) and fails(cand):
                    case, changed = cand, True
                    break
            if changed:
                break
        if not changed and case.get("mode") in ("history", "shared"):
            segs = case["segments"]
            for i in range(len(segs)):
                if len(segs) > 1:
                    cand = dict(case); cand["segments"] = segs[:i] + segs[i + 1:]
                    if fails(cand):
                        case, changed = cand, True
                        break
                for j in range(len(segs[i].get("steps") or [])):
                    if len(segs[i]["steps"]) > 1:
                        sg = dict(segs[i]); sg["steps"] = segs[i]["steps"][:j] + segs[i]["steps"][j + 1:]
                        cand = dict(case); cand["segments"] = segs[:i] + [sg] + segs[i + 1:]
                        if fails(cand):
                            case, changed = cand, True
                            break
                if changed:
                    break
        if not changed and case["k0"] > 0:
            cand = dict(case); cand["k0"] = case["k0"] - 1
            if fails(cand):
                case, changed = cand, True
    return case


# ------------------------------------------------------------------ through bptk.run_scenarios
def bptk_level(specs):
    """runs scenarios through bptk.run_scenarios; returns list of (spec, observed index or None)."""
    from BPTK_Py.bptk import bptk
    from BPTK_Py import Model, Agent
    import BPTK_Py.logger.logger as L

    class M(Model):
        def instantiate_model(self):
            self.register_agent_factory("a", lambda i, mod, p: Agent(i, mod, p, "a"))

    out = []
    hook = threading.excepthook
    threading.excepthook = lambda args: None
    buf = io.StringIO()
    try:
        with contextlib.redirect_stdout(buf):
            b = bptk(configuration={"set_scenario_monitor": False, "set_model_monitor": False, "log_modes": []})
            L.loglevel, L.logmodes = "ERROR", []
            try:
                for i, (start, stop, n) in enumerate(specs):
                    nm = f"smC12x{i}"
                    b.register_scenario_manager({nm: {"type": "abm", "model": M(name="c12"), "scenarios": {"sc": {
                        "runspecs": {"starttime": start, "stoptime": stop, "dt": 1 / n}, "properties": {},
                        "agents": [{"name": "a", "count": 2}]}}}})
                    try:
                        df = b.run_scenarios(scenarios=["sc"], scenario_managers=[nm], agents=["a"], agent_states=["active"],
                                             agent_properties=[], agent_property_types=[], equations=[], series_names={},
                                             return_format="df")
                        first = None if df is None else [(float(t), int(v)) for t, v in df[f"{nm}_sc_a_active"].items()]
                        # wave 7, second use: asking again returns the same rows (the finished scenario is neither skipped nor run twice)
                        df2 = b.run_scenarios(scenarios=["sc"], scenario_managers=[nm], agents=["a"], agent_states=["active"],
                                              agent_properties=[], agent_property_types=[], equations=[], series_names={},
                                              return_format="df")
                        second = None if df2 is None else [(float(t), int(v)) for t, v in df2[f"{nm}_sc_a_active"].items()]
                        out.append(((start, stop, n), first if first == second else ("second call differs", first, second)))
                    except Exception as e:
                        out.append(((start, stop, n), f"raises {type(e).__name__}"))
            finally:
                b.destroy()
    finally:
        threading.excepthook = hook
    return out


# ------------------------------------------------------------------ the check
def run(chk):
    quiet_bptk_logging()
    facts = probe()
    span = facts["progressBySpan"]
    chk.notes["cfg"] = facts
    ok, why = chk.prove(gen_lean(facts))
    chk.cov["trusted_base"] = [
        "Lean 4.33 kernel; axioms propext, Classical.choice, Quot.sound (audited per run via #print axioms)",
        "hand-written model lean/Bptk/Core/C12.lean of SimultaneousScheduler.run/run_step, Model.run/run_step, the collect_data rule and "
        "HybridRunner's `progress < 1.0` skip rule; tied to /repo by the probe of the progress formula and by the correspondence of this check",
        "CPython list-iterator semantics (`for agent in model.agents` over the object bound at loop entry; create_agent appends, "
        "delete_agents rebinds) as modelled by LoopSt.aliased; validated by the correspondence on programs that create/delete mid-step",
        "user callbacks are modelled by their effect on the population (create/delete) only; event routing is C11",
        "scheduler history model (Sched, callOn): what survives between calls is the population (and, in the defective branch probed as "
        "SchedCfg.stepsFromSpecs = false, a cached steps-per-round); C12_history: every call equals the call on a fresh scheduler",
    ]
    chk.notes["unbounded_creation"] = facts.get("unbounded")
    chk.assumptions = ["integer starttime/stoptime (range() requires it), dt = 1/n with round(1/dt) = n ≥ 1",
                       "termination of a step is proved (agentLoop_terminates / run_terminates) under the explicit bound CreateBound N c: every agent creates "
                       "at most c agents in its handle_events+act of a step and agents with id ≥ N create nobody; the driver runs every case with exactly the "
                       "theorem's fuel L + c·N (N, c computed from the program table); without such a bound Python itself never leaves the step",
                       "cancellation (scheduler.running cleared by a callback) is outside the statement; it is modelled (runC, CancelClauses) and compared as "
                       "evidence (notes.cancel_model), the reference check only requires an initial segment of the grid there",
                       "float time labels: label_exact_pow2 (ℚ, any rounding that fixes representable numbers) for 1/dt a power of two, |round·n + step| < 2^53; "
                       "IEEE doubles as an instance are trusted (checked on every label of every run: labels_pow2_on_grid)",
                       "total number of steps < 2^53 (done/total < 1.0 in floats iff done < total)"]
    cases, n_exh = gen_cases(chk)
    chk.cov["rule"] = ("wave 3: + histories on ONE model and scheduler: run, Model.run_specs with another dt (both directions) / start / stop, run again or "
                       "externally driven steps, with and without data collection; every call is checked against the specification for the run specs in "
                       "force and against the model's callOn; wave 2: + systematic mid-step programs (create / delete of the first, middle, last agent and of the acting agent itself by the "
                       "first, middle, last acting agent, in handle_events and act; nested creations to depth 3 with one or two creations each, optionally with a "
                       "deletion inside the chain), runs cancelled through scheduler.running in begin_round / end_round of every grid position (with and without a "
                       "second run), random runs with a cancellation (1/5) and a second run (1/8); every case is driven with the fuel bound of the termination "
                       f"theorem; || all run specs start∈[-3,2], stop∈[start-1,start+2], n∈{{1,2,3}}, both collect settings with a quiet program ({n_exh} runs), "
                       "the three documented stop≤0 specs with a mid-step create/delete program, seeded random whole runs (start∈[-6,6], n∈"
                       f"{NS}, 0–5 agents, programs creating/deleting agents in begin_round/handle_events/act/end_round) and seeded random "
                       "sequences of externally driven steps (Model.run_step(s) and scheduler.run_step(model,r,s)); a case is the canonical "
                       "JSON of (specs, program, step list); non-trivial = at least one step executed")
    req = [f"cfg progressBySpan {1 if span else 0}", f"hcfg stepsFromSpecs {1 if facts.get('stepsFromSpecs', True) else 0}"]
    real = ["ok", "ok"]
    owner = [None, None]
    label_fail = None
    soft = [False, False]            # lines of cancelled runs: compared as evidence, never a finding
    first_spec = None
    dist = {"run": 0, "steps": 0, "with_program": 0, "stop<=0": 0, "empty_span": 0, "steps_total": 0, "n": {}, "max_fuel_bound": 0,
            "labels_pow2_on_grid": 0, "labels_other_on_grid": 0, "labels_other_off_grid": 0, "nested_creation_steps": 0, "cancelled_runs": 0, "reruns": 0, "midstep_systematic": 0, "negative_start_systematic": 0,
            "kinds": {k: 0 for k in ("wave7_systematic", "dt_int", "progress_widget", "widget_value_is_final_progress", "events_sent",
                                     "steps_with_pending_events", "second_type_created", "two_types_in_population",
                                     "configure_agents_in_callback", "n>=16", "abs(start)>=1e6", "shared_scheduler_histories")}}
    for ci, case in enumerate(cases):
        lines, log, crashed, m, dt = run_real(case, span)
        bn, bc = create_bound(case)
        fuel = m.next_agent_id + bc * bn          # the theorem's bound L + c*N with L <= number of ids ever given out
        dist["max_fuel_bound"] = max(dist["max_fuel_bound"], fuel)
        dist["nested_creation_steps"] += any(len(b["acted"]) > len(b["entry"][0]) + 1 for b in blocks_of(log) if b["entry"])
        dist["cancelled_runs"] += bool(case["mode"] == "run" and cancel_positions(case))
        dist["reruns"] += bool(case.get("rerun"))
        dist["midstep_systematic"] += bool(case.get("midstep"))
        dist["negative_start_systematic"] += bool(case.get("negative"))
        acts_all = [x for e in case["prog"] for x in e[4]]
        kinds = dist["kinds"]
        kinds["wave7_systematic"] += bool(case.get("wave7"))
        kinds["dt_int"] += bool(case.get("dt_int"))
        kinds["progress_widget"] += bool(case.get("widget"))
        kinds["events_sent"] += any(x[0] in "eE" for x in acts_all)
        kinds["steps_with_pending_events"] += getattr(m, "_steps_with_events", 0)
        kinds["second_type_created"] += any(x == "C" for x in acts_all)
        kinds["two_types_in_population"] += len({a.agent_type for a in m.agents}) > 1 or case["k0"] > 1
        kinds["configure_agents_in_callback"] += any(x == "r" for x in acts_all)
        kinds["n>=16"] += case["n"] >= 16
        kinds["abs(start)>=1e6"] += abs(case["start"]) >= 10 ** 6
        if case.get("widget"):
            kinds["widget_value_is_final_progress"] += (m._widget.value == m.scheduler.progress)
        from fractions import Fraction
        for e in log:
            if e[0] == "B":
                exact = Fraction(e[3]) == Fraction(e[1]) + Fraction(e[2], case["n"])
                pow2 = case["n"] & (case["n"] - 1) == 0
                dist["labels_pow2_on_grid" if pow2 else ("labels_other_on_grid" if exact else "labels_other_off_grid")] += 1
                if pow2 and not exact and label_fail is None:      # label_exact_pow2 instantiated at IEEE doubles
                    label_fail = (case, e)
        rq = requests(case, fuel)
        req += rq
        real += ["ok", "ok"] + lines
        owner += [ci] * len(rq)
        soft += [bool(case["mode"] == "run" and cancel_positions(case))] * len(rq)
        nsteps = sum(1 for e in log if e[0] == "B")
        dist[case["mode"]] += 1
        dist["with_program"] += bool(case["prog"])
        dist["stop<=0"] += case["stop"] <= 0
        dist["empty_span"] += case["stop"] < case["start"]
        dist["steps_total"] += nsteps
        dist["n"][case["n"]] = dist["n"].get(case["n"], 0) + 1
        chk.case(json.dumps(case, sort_keys=True), nontrivial=nsteps > 0,
                 sample=case if (case["prog"] and len(json.dumps(case)) < 400) else None)
        v = spec_check(case, log, crashed, m, dt)
        if v and first_spec is None:
            first_spec = (case, v)
    # ---- wave 3: histories on one model and scheduler (run specs changed between calls)
    hcases = gen_history_cases(chk, chk.rng.fork("c12-history"))
    dist["history_cases"] = len(hcases)
    dist["history_calls"] = 0
    dist["history_dt_changes"] = 0
    for hc in hcases:
        lines, v, m, nsteps = run_history(hc, span)
        bn, bc = create_bound(hc)
        fuel = m.next_agent_id + bc * bn
        rq = requests_history(hc, fuel)
        flat = ["ok", "ok"]
        for seg, sl in zip(hc["segments"], lines):
            flat += ["ok"] + sl
        # a crash ends the real history early: cut the requests to what was executed
        rq = rq[:len(flat)]
        cases.append(hc)
        req += rq
        real += flat
        owner += [len(cases) - 1] * len(rq)
        soft += [False] * len(rq)
        dist["history_calls"] += len(hc["segments"])
        dist["history_dt_changes"] += sum(1 for a, b in zip(hc["segments"], hc["segments"][1:]) if a["n"] != b["n"])
        dist["steps_total"] += nsteps
        chk.case(json.dumps(hc, sort_keys=True), nontrivial=nsteps > 0, sample=hc if len(json.dumps(hc)) < 400 else None)
        if v and first_spec is None:
            first_spec = (hc, v)
    for sc_ in gen_shared_scheduler_cases():
        v = run_shared_scheduler(sc_, span)
        dist["kinds"]["shared_scheduler_histories"] += 1
        chk.case(json.dumps(sc_, sort_keys=True), nontrivial=True)
        if v and first_spec is None:
            first_spec = (sc_, v)
    chk.cov["input_distribution"] = dist
    model = [canon_model(l, span) if "|" in l else l for l in drive("C12", req)]
    chk.cov["traces_validated_against_impl"] = len(cases)
    diff = next((i for i, (a, b) in enumerate(zip(model, real)) if a != b and not soft[i]), None)
    if diff is None and len(model) != len(real):
        diff = min(len(model), len(real))
    chk.notes["correspondence_first_diff"] = diff
    soft_diffs = [i for i, (a, b) in enumerate(zip(model, real)) if a != b and soft[i]]
    chk.notes["cancel_model"] = {"lines_compared": sum(soft), "disagreements": len(soft_diffs),
                                 "first": ({"request": req[soft_diffs[0]], "case": cases[owner[soft_diffs[0]]]} if soft_diffs else None),
                                 "meaning": "runs in which begin_round/end_round clear scheduler.running: the model (runC: the run stops after the "
                                            "step in progress, the flag is never set back) against the implementation; outside the statement, never a finding"}
    # through bptk.run_scenarios: a finished scenario is reported, with one row per grid time
    specs = [(1, 3, 2), (0, 0, 2), (-2, 0, 2), (-3, -1, 2), (-1, 1, 1), (0, 2, 4)]
    bl = bptk_level(specs)
    chk.notes["bptk_level"] = [{"spec": s, "rows": (len(o) if isinstance(o, list) else o)} for s, o in bl]
    bptk_fail = None
    for (start, stop, n), obs in bl:
        want = [(float(r + s * (1 / n)), 2) for r in range(start, stop + 1) for s in range(n)]
        chk.case(("bptk", start, stop, n), nontrivial=True)
        if obs != want and bptk_fail is None:
            bptk_fail = ((start, stop, n), obs, want)
    # --- decide
    if first_spec is not None:
        case, (key, _) = first_spec
        def fails(c):
            try:
                v = violation_of(c, span)
            except Exception:
                return False
            return v is not None and v[0] == key
        small = shrink_case(case, fails)
        chk.add_finding(key, violation_of(small, span)[1], dict({"case": small}, **({} if ok else {"broken_obligation": why})))
    if bptk_fail is not None and first_spec is None:
        (start, stop, n), obs, want = bptk_fail
        chk.add_finding(KEY if stop <= 0 else "runner-skips-finished-scenario",
                        f"bptk.run_scenarios on an agent-based scenario with run_specs({start}, {stop}, {1 / n}) returns {obs}, expected one row per step {want}",
                        {"bptk": [start, stop, n]})
    if not span and first_spec is None and bptk_fail is None:
        chk.add_finding(KEY, f"probe: {facts['detail']}", {"case": {"start": 0, "stop": 0, "n": 2, "collect": 1, "k0": 1, "prog": [], "mode": "run"}})
    if label_fail is not None and first_spec is None:
        case, e = label_fail
        chk.add_finding("time-label", f"run_specs({case['start']}, {case['stop']}, 1/{case['n']}): time label of round {e[1]} step {e[2]} is {e[3]!r}, "
                        f"not the grid point {e[1]} + {e[2]}/{case['n']} (exact for a binary dt: label_exact_pow2)", {"case": case})
    if not ok and first_spec is None:      # otherwise the failing-input search succeeded: reported once, with the input
        chk.add_finding("obligation", f"proof obligations of C12 no longer check: {why}",
                        {"theorem": "Bptk.C12.Gen.holds / Bptk.Props.C12", "detail": why}, found_input=False)
    if diff is not None and first_spec is None:
        ci = owner[diff] if diff < len(owner) else None
        chk.add_finding("correspondence", f"model and implementation disagree at protocol line {diff}: request {req[diff] if diff < len(req) else None!r}",
                        {"correspondence": "Drive/C12 vs SimultaneousScheduler/Model", "line": diff,
                         "case": cases[ci] if ci is not None else None,
                         "model": model[diff] if diff < len(model) else None, "impl": real[diff] if diff < len(real) else None},
                        found_input=False)


def replay(path):
    quiet_bptk_logging()
    r = json.load(open(path))["replay"]
    if "bptk" in r:
        out = bptk_level([tuple(r["bptk"])])
        (start, stop, n), obs = out[0]
        want = [(float(a + s * (1 / n)), 2) for a in range(start, stop + 1) for s in range(n)]
        print("bptk.run_scenarios", (start, stop, 1 / n), "->", obs, "expected", want)
        return 0 if obs == want else 1
    case = r.get("case")
    if case is None:
        print("no concrete input stored:", r)
        return 1
    span = probe()["progressBySpan"]
    if case.get("mode") in ("history", "shared"):
        v = violation_of(case, span)
        print("case:", json.dumps(case))
        print("violation on the current tree:", v)
        return 1 if v else 0
    lines, log, crashed, m, dt = run_real(case, span)
    v = spec_check(case, log, crashed, m, dt)
    print("case:", json.dumps(case))
    print("crashed:", crashed, "final progress:", m.scheduler.progress, "steps:", sum(1 for e in log if e[0] == "B"))
    print("violation on the current tree:", v)
    return 1 if v else 0
