"""C05 — the simulated time grid is exact.

Probes (three mechanism facts) -> Gen obligation; correspondence EXHAUSTIVE over the lattice
start x dt x n of DESIGN §7 between the Lean model (Drive/C05, exact decimal arithmetic, labels printed
as Python repr strings) and the real code on five channels (util.timerange incl/excl, bptk.run_scenarios
index, bptk.plot_scenarios(return_df) index, Element.plot(return_df) index, stepwise session keys), plus
route independence of Model.memoize (three arithmetic routes to every grid point -> identical bits);
reference check of every channel directly against the decimal grid computed with `decimal.Decimal`.
"""
import json, os, time
from decimal import Decimal as D
from common import *

STARTS = ["0", "1", "0.5", "0.05", "2.25", "100", "1000.1"]
DTS = ["1", "0.5", "0.25", "0.125", "0.2", "0.1", "0.05", "0.02", "0.01", "0.001"]
# wave 3: starts that are not a multiple of dt and have more decimals than dt (all channels)
# wave 7: value kinds of the run specs — negative start times, large magnitudes, ints as the user may write them
KIND_PAIRS = [("-1", "0.5", "float"), ("-0.3", "0.1", "float"), ("-2.25", "0.25", "float"), ("-1000.1", "0.001", "float"),
              ("-0.05", "0.02", "float"), ("123456789.25", "0.25", "float"), ("1000000", "0.1", "float"),
              ("0", "1", "int"), ("2", "0.5", "int"), ("-3", "1", "int"), ("100", "0.25", "int"), ("1", "2", "int")]
EXTRA_PAIRS = [("0.25", "0.5"), ("1.125", "0.25"), ("0.3", "0.25"), ("0.05", "0.5"), ("2.25", "1"), ("0.375", "0.125"), ("0.3", "0.2")]
# how a session is begun: explicit starttime and dt | no starttime/dt argument (defaults 0.0 / the scenario's dt) |
# starttime below the scenario start, no dt | explicit starttime, no dt
SESSION_MODES = ["explicit", "default", "below", "start-only"]
SCALE_SAMPLES = ["-0.3", "-1000.1", "-2", "-0.00015", "-123456.789", "1000000", "123456789.25", "0", "1", "0.5", "0.05", "2.25", "100", "1000.1", "0.125", "0.001", "1e-05", "0.00015", "2.5e-07",
                 "123456.789", "99999.99999", "0.1", "0.3", "7", "10", "1000", "12345678.123456", "9999999999999",
                 "99999999999999", "123456789012345", "0.0625", "3.14159", "1e-13", "0.99999999999999"]


_NUM = ["float"]      # how run specs are handed to the code: "float" | "int" (Python ints wherever the decimal is integral)


def num(x):
    """the number the code receives for the decimal string x"""
    if _NUM[0] == "int" and D(x) == D(x).to_integral_value():
        return int(D(x))
    return float(x)


def dstr(x):
    """plain decimal string of a Decimal (no exponent), '-0' avoided."""
    s = format(x.normalize(), "f")
    return "0" if s in ("-0", "0") else s


def lab(x):
    return repr(float(x))


def labels(xs):
    xs = [lab(x) for x in xs]
    return ",".join(xs) if xs else "-"


def grid(start, dt, n):
    """expected labels: the decimal grid value itself, as the repr of the nearest double."""
    S, H = D(start), D(dt)
    return [repr(float(dstr(S + k * H))) for k in range(n + 1)]


def build_model(start, stop, dt, name="g"):
    from BPTK_Py import Model
    from BPTK_Py import sd_functions as sd
    m = Model(starttime=start, stoptime=stop, dt=dt, name=name)
    s = m.stock("s"); f = m.flow("f"); c = m.constant("c")
    s.initial_value = 0.0
    s.equation = f
    f.equation = c
    c.equation = 1.0
    tm = m.converter("tm")
    tm.equation = sd.time()
    vec = m.converter("vec")
    vec.setup_vector(2, [1.0, 2.0])
    return m


class Watchdog:
    """raise TimeoutError in the main thread when the real code does not come back (a change that stops
    `normalize` from advancing makes `timerange` loop for ever)."""
    def __init__(self, secs):
        self.secs = secs
    def _fire(self, *a):
        raise TimeoutError()
    def __enter__(self):
        import signal
        self.old = signal.signal(signal.SIGALRM, self._fire)
        signal.setitimer(signal.ITIMER_REAL, self.secs)
    def __exit__(self, *a):
        import signal
        signal.setitimer(signal.ITIMER_REAL, 0)
        signal.signal(signal.SIGALRM, self.old)
        return False


class Bptk:
    """bptk() object that is always destroyed."""
    def __enter__(self):
        import BPTK_Py
        self.b = BPTK_Py.bptk()
        return self.b
    def __exit__(self, *a):
        try:
            self.b.destroy()
        except Exception:
            pass


# ----------------------------------------------------------------------------- channels on the real code
def ch_timerange(start, dt, n, excl):
    from BPTK_Py.util import timerange
    stop = num(dstr(D(start) + n * D(dt)))
    return labels(timerange(num(start), stop, num(dt), exclusive=excl))


def ch_batch(start, dt, ns, extra_ns=()):
    """run_scenarios / plot_scenarios(return_df) index and Element.plot index for every n in ns.
    One bptk object, one model per n."""
    out = {}
    with Bptk() as b:
        models = {}
        for n in ns:
            stop = num(dstr(D(start) + n * D(dt)))
            m = build_model(num(start), stop, num(dt), name=f"g{n}")
            b.register_model(m)
            models[n] = m
        for n in ns:
            sm = "smG%d" % n
            df = b.run_scenarios(scenario_managers=[sm], scenarios=["base"], equations=["s", "tm"], series_names={})
            run_idx = labels(df.index)
            tm_ok = all(fbits(a) == fbits(v) for a, v in zip(df.index, df["tm"]))
            df2 = b.plot_scenarios(scenario_managers=[sm], scenarios=["base"], equations=["tm"], series_names={},
                                   return_df=True)
            pl_idx = labels(df2.index)
            el = models[n].converters["tm"].plot(return_df=True)
            el_idx = labels(el.index)
            out[n] = {"run": run_idx, "plotsc": pl_idx, "plot": el_idx, "tm_ok": tm_ok}
            if n in extra_ns and n >= 3:
                # other shapes of the same grid: return formats of run_scenarios, a second run, Element.plot with explicit
                # arguments (sub-range, coarser dt), the arrayed branch of Element.plot
                S_, H_ = D(start), D(dt)
                rd = b.run_scenarios(scenario_managers=[sm], scenarios=["base"], equations=["tm"], series_names={}, return_format="dict")
                out[n]["run_dict"] = labels(rd[sm]["base"]["equations"]["tm"].index)
                rj = json.loads(b.run_scenarios(scenario_managers=[sm], scenarios=["base"], equations=["tm"], series_names={}, return_format="json"))
                out[n]["run_json"] = ",".join(rj[sm]["base"]["equations"]["tm"].keys())
                out[n]["run_again"] = labels(b.run_scenarios(scenario_managers=[sm], scenarios=["base"], equations=["tm", "s"], series_names={}).index)
                tmc = models[n].converters["tm"]
                out[n]["plot_sub"] = labels(tmc.plot(starttime=num(dstr(S_ + H_)), stoptime=num(dstr(S_ + (n - 1) * H_)), dt=num(dt), return_df=True).index)
                out[n]["plot_coarse"] = labels(tmc.plot(dt=num(dstr(2 * H_)), stoptime=num(dstr(S_ + 2 * (n // 2) * H_)), return_df=True).index)
                arr = models[n].converters["vec"].plot(return_df=True)
                out[n]["plot_arr"] = labels(arr.index) + ("" if list(arr.columns) == ["0", "1"] else "|columns=%s" % list(arr.columns))
    return out


def session_arg(mode, start):
    """the `starttime` argument begin_session receives in this mode, as the decimal string the driver gets"""
    return {"explicit": start, "start-only": start, "default": "0", "below": dstr(D(start) - D("0.5")) if (D(start) >= D("0.5") or D(start) < 0) else "0"}[mode]


def ch_session(start, dt, n, calls, mode="explicit"):
    """`calls` run_step calls on a scenario with stop = start+n*dt: keys per call ('stop' when refused);
    also the keys of session_results().  A step whose TIME value is not its own label, or whose stock value is not the
    Euler value of that grid point, is marked."""
    stop = num(dstr(D(start) + n * D(dt)))
    with Bptk() as b:
        m = build_model(num(start), stop, num(dt), name="g")
        b.register_model(m)
        kw = {}
        if mode in ("explicit", "start-only"):
            kw["starttime"] = num(start)
        elif mode == "below":
            kw["starttime"] = num(session_arg(mode, start))
        if mode == "explicit":
            kw["dt"] = num(dt)
        b.begin_session(scenarios=["base"], scenario_managers=["smG"], equations=["s", "tm"], **kw)
        per = []
        sv, k = 0.0, 0
        for _ in range(calls):
            r = b.run_step()
            if r is None or "msg" in r:
                per.append("stop")
                continue
            eq = r["smG"]["base"]
            ks = labels(eq["tm"].keys())
            if labels(eq["s"].keys()) != ks:
                ks += "|s:" + labels(eq["s"].keys())
            if any(fbits(t) != fbits(v) for t, v in eq["tm"].items()):
                ks += "|TIME=" + labels(eq["tm"].values())
            if [fbits(v) for v in eq["s"].values()] != [fbits(sv)]:
                ks += "|stock=" + labels(eq["s"].values()) + "(step %d: Euler value %r)" % (k, sv)
            sv, k = sv + float(dt) * (1.0), k + 1
            per.append(ks)
        log_keys = labels(b.session_results().keys())
        b.end_session()
    return ";".join(per), log_keys


def routes(start, dt, n):
    """three float routes to every grid point k <= n."""
    s, h = float(start), float(dt)
    stop = float(dstr(D(start) + n * D(dt)))
    mul = [s + k * h for k in range(n + 1)]
    add, x = [], s
    for k in range(n + 1):
        add.append(x)
        x = x + h
    sub, x = [None] * (n + 1), stop
    for k in range(n, -1, -1):
        sub[k] = x
        x = x - h
    return mul, add, sub


def ch_routes(start, dt, n):
    """value bits of `tm` (= the memo key) and of the stock at every grid point by the three routes,
    on three fresh models (so that no route profits from another one's memo entries) and on one shared model."""
    stop = float(dstr(D(start) + n * D(dt)))
    rs = routes(start, dt, n)
    fresh = []
    for r in rs:
        m = build_model(float(start), stop, float(dt))
        fresh.append([(fbits(m.evaluate_equation("tm", t)), fbits(m.evaluate_equation("s", t))) for t in r])
    m = build_model(float(start), stop, float(dt))
    shared = [[(fbits(m.evaluate_equation("tm", r[k])), fbits(m.evaluate_equation("s", r[k]))) for r in rs]
              for k in range(n + 1)]
    return rs, fresh, shared


def ch_session_views(start, dt, n):
    """other views of one session: session_results by time / not by time / flat, run_step(flat=True), and a SECOND
    session on the same bptk object after end_session (the clock must start again at the start time)."""
    stop = num(dstr(D(start) + n * D(dt)))
    out = {}
    with Bptk() as b:
        b.register_model(build_model(num(start), stop, num(dt), name="g"))
        kw = dict(scenarios=["base"], scenario_managers=["smG"], equations=["s", "tm"], starttime=num(start), dt=num(dt))
        b.begin_session(**kw)
        for _ in range(n + 1):
            b.run_step()
        out["by_time"] = labels(b.session_results().keys())
        out["not_by_time"] = labels(b.session_results(index_by_time=False)["smG"]["base"]["equations"]["tm"].keys())
        out["flat"] = labels(b.session_results(flat=True).keys())
        b.end_session()
        b.begin_session(**kw)
        per = []
        for _ in range(n + 2):
            r = b.run_step(flat=True)
            per.append("stop" if (r is None or "msg" in r) else lab(r["smG"]["base"]["tm"]))
        out["second_session_flat"] = ";".join(per)
        b.end_session()
    return out


def lattice_pair(job):
    """all channels of one (start, dt) pair — run in the check's process (quick) or in a worker process (thorough).
    Returns plain data: protocol lines with the implementation's answers, reference mismatches, cases, counts."""
    start, dt, nmax, quick, cb, sess_subset, mode_ns, numkind = job
    quiet_bptk_logging()
    _NUM[0] = numkind
    adds, refs, cases = [], [], []
    dist = {"pairs": 1, "timerange": 0, "batch": 0, "batch_views": 0, "session_calls": 0, "session_modes": 0, "session_views": 0, "route_points": 0}
    def add(line, answer, m): adds.append((line, answer, m))
    def ref(channel, start, dt, n, observed, expected, extra=None):
        if observed != expected:
            refs.append((channel, start, dt, n, observed, expected, extra))
    def case(canon, nontrivial=True, sample=None): cases.append((canon, nontrivial, sample))
    ns_all = list(range(0, nmax + 1))
    nontriv = (D(dt) not in (D(1), D("0.5"), D("0.25"), D("0.125"))) or D(start) != D(start).to_integral()
    stops = {n: dstr(D(start) + n * D(dt)) for n in range(0, nmax + 3)}
    tag = () if numkind == "float" else (numkind,)
    # 1. util.timerange
    for n in ns_all:
        for excl in (False, True):
            ch = "timerange-excl" if excl else "timerange-incl"
            try:
                with Watchdog(20):
                    obs, exp = check_channel(ch, start, dt, n)
            except TimeoutError:
                return {"timeout": {"channel": ch, "start": start, "dt": dt, "n": n, "timeout_s": 20, "num": numkind}}
            add(f"timerange {start} {stops[n]} {dt} {1 if excl else 0}", obs, (ch, start, dt, n))
            ref(ch, start, dt, n, obs, exp)
            dist["timerange"] += 1
            case((ch, start, dt, n) + tag, nontriv)
    # 2. run_scenarios / plot_scenarios / Element.plot
    extra_ns = [n for n in (3, 8, nmax) if n <= nmax]
    res = ch_batch(start, dt, ns_all, extra_ns)
    for n in ns_all:
        gl = grid(start, dt, n)
        g = ",".join(gl)
        r = res[n]
        add(f"sim {cb} {start} {stops[n]} {dt}", r["run"], ("run", start, dt, n))
        add(f"sim {cb} {start} {stops[n]} {dt}", r["plotsc"], ("plotsc", start, dt, n))
        add(f"plot {cb} {start} {stops[n]} {dt}", r["plot"], ("plot", start, dt, n))
        ref("run", start, dt, n, r["run"], g)
        ref("plotsc", start, dt, n, r["plotsc"], g)
        ref("plot", start, dt, n, r["plot"], g)
        if not r["tm_ok"]:
            ref("routes", start, dt, n, "time() value differs from the row label", "equal")
        dist["batch"] += 3
        for c in ("run", "plotsc", "plot"):
            case((c, start, dt, n) + tag, nontriv,
                 f"run_scenarios start={start} dt={dt} n={n}: {r['run'][-40:]}" if (n == 3 and dt == "0.1") else None)
        if "run_dict" in r:
            sub, coarse = ",".join(gl[1:n]), ",".join(gl[0:2 * (n // 2) + 1:2])
            for view, exp in (("run_dict", g), ("run_json", g), ("run_again", g), ("plot_arr", g), ("plot_sub", sub), ("plot_coarse", coarse)):
                ref("run" if view.startswith("run") else "plot", start, dt, n, r[view], exp, {"view": view, "key": "grid-view-" + view})
                dist["batch_views"] += 1
                case((view, start, dt, n) + tag, nontriv)
            add(f"plot {cb} {stops[1]} {stops[n - 1]} {dt}", r["plot_sub"], ("plot_sub", start, dt, n))
            add(f"plot {cb} {start} {stops[2 * (n // 2)]} {dstr(2 * D(dt))}", r["plot_coarse"], ("plot_coarse", start, dt, n))
    # 3. session
    for n in sorted(set(sess_subset + [nmax])):
        if n > nmax:
            continue
        calls = n + 3
        per, logk = ch_session(start, dt, n, calls)
        g = grid(start, dt, n)
        add(f"session {cb} {start} {stops[n]} {dt} {calls}", per, ("session", start, dt, n))
        ref("session", start, dt, n, per, ";".join(g + ["stop"] * 2), {"calls": calls})
        ref("session-log", start, dt, n, logk, ",".join(g), {"calls": calls})
        dist["session_calls"] += calls
        case(("session", start, dt, n) + tag, nontriv,
             f"session start={start} dt={dt} n={n}: {per[:60]}" if (n == 8 and dt == "0.1") else None)
    # 3a. other views of a session and a second session on the same object
    for n in [x for x in (3, 8) if x <= nmax]:
        v = ch_session_views(start, dt, n)
        g = grid(start, dt, n)
        for view, exp in (("by_time", ",".join(g)), ("not_by_time", ",".join(g)), ("flat", ",".join(g)),
                          ("second_session_flat", ";".join(g + ["stop"]))):
            ref("session", start, dt, n, v[view], exp, {"view": view, "key": "session-view-" + view})
            dist["session_views"] += 1
            case(("session-view", view, start, dt, n) + tag, nontriv)
    # 3b. the ways of beginning a session (wave 3): without starttime / dt arguments, with a starttime below the
    #     scenario start, with starttime only — step keys, TIME = label, stock = Euler value, number of steps
    off_grid = (D(start) % D(dt)) != 0
    for mode in SESSION_MODES[1:]:
        if mode == "default" and D(start) < 0:
            continue                   # default starttime 0.0 lies AFTER a negative scenario start: the session begins at 0.0
        for n in mode_ns:
            if n > nmax or (quick and not off_grid and mode != "default"):
                continue
            calls = n + 3
            per, logk = ch_session(start, dt, n, calls, mode)
            g = grid(start, dt, n)
            add(f"sessiona {cb} {session_arg(mode, start)} {start} {stops[n]} {dt} {calls}", per, ("session:" + mode, start, dt, n))
            ref("session", start, dt, n, per, ";".join(g + ["stop"] * 2), {"calls": calls, "mode": mode, "key": "session-grid-origin"})
            ref("session-log", start, dt, n, logk, ",".join(g), {"calls": calls, "mode": mode, "key": "session-grid-origin"})
            dist["session_calls"] += calls
            dist["session_modes"] += 1
            case(("session", mode, start, dt, n) + tag, off_grid or nontriv,
                 (f"session begun without starttime/dt, scenario start={start} dt={dt} n={n}: {per[:60]}"
                  if (mode, start, dt, n) == ("default", "0.25", "0.5", 2) else None))
    # 4. routes
    rs, fresh, shared = ch_routes(start, dt, nmax)
    g = grid(start, dt, nmax)
    for k in range(nmax + 1):
        vals = {fresh[r][k] for r in range(3)} | set(shared[k])
        for r in range(3):
            add(f"key {start} {dt} {fbits(rs[r][k])}", repr(from_fbits(fresh[r][k][0])), ("routes", start, dt, k))
        if len(vals) != 1 or fresh[0][k][0] != fbits(float(g[k])):
            ref("routes", start, dt, nmax, f"k={k} routes={[repr(rs[r][k]) for r in range(3)]} values={sorted(vals)}",
                f"one value, key {g[k]}", {"k": k})
        dist["route_points"] += 1
        case(("routes", start, dt, k) + tag, nontriv and len({fbits(rs[r][k]) for r in range(3)}) > 1)
    _NUM[0] = "float"
    return {"adds": adds, "refs": refs, "cases": cases, "dist": dist, "timeout": None}


# ----------------------------------------------------------------------------- elements that consume t (wave 2)
CONSUMER_PAIRS_QUICK = [("0.3", "0.1", 12), ("0", "0.1", 12), ("1", "0.7", 8), ("0.05", "0.3", 8), ("0", "0.25", 6),
                        ("1000.1", "0.001", 8), ("2.25", "0.2", 8), ("0.3", "0.05", 8)]
REQ_SETS = [["total"], ["level", "total"], ["total", "level"], ["level"], ["clock", "total"], ["total", "clock", "level"]]


def consumer_model(start, dt, n, name="cons"):
    """TIME converter, IF(TIME >= label j) for every grid point j, a stock and a stock that accumulates it."""
    from BPTK_Py import Model
    from BPTK_Py import sd_functions as sd
    S, H = D(start), D(dt)
    m = Model(starttime=float(start), stoptime=float(dstr(S + n * H)), dt=float(dt), name=name)
    clock = m.converter("clock"); clock.equation = sd.time()
    for j in range(n + 1):
        c = m.converter("late%d" % j)
        c.equation = sd.If(sd.time() >= float(dstr(S + j * H)), 1.0, 0.0)
    level = m.stock("level"); filling = m.flow("filling"); total = m.stock("total"); acc = m.flow("accumulation")
    level.initial_value = 10.0
    filling.equation = 5.0
    level.equation = filling
    acc.equation = level
    total.equation = acc
    return m


def euler_ref(dt, n):
    """level' = 5, level(0) = 10; total' = level, total(0) = 0 — explicit Euler with the float operations of the
    generated functions (`previous + dt*(rate at the previous point)`)."""
    h = float(dt)
    lv, tt = [10.0], [0.0]
    for _ in range(n):
        tt.append(tt[-1] + h * (lv[-1]))
        lv.append(lv[-1] + h * (5.0))
    return lv, tt


def elem_routes(start, dt, n, k):
    """every way this check knows of computing the time of grid point k in floats."""
    S, H = D(start), D(dt)
    L = lambda i: float(dstr(S + i * H))
    s, h = float(start), float(dt)
    acc = s
    for _ in range(k):
        acc = acc + h
    r = {"grid": L(k), "i*dt": s + k * h, "add": acc, "t-dt": L(k + 1) - h, "t-dt-dt": L(k + 2) - h - h}
    if k >= 1:
        r["t+dt"] = L(k - 1) + h
    import numpy as np
    r["np.float64"] = np.float64(L(k))            # argument kinds: numpy scalar, Python int where the grid point is integral
    if D(dstr(S + k * H)) == D(dstr(S + k * H)).to_integral_value():
        r["int"] = int(S + k * H)
    return r


def ch_elems(start, dt, n):
    """[(element kind, extra, k, route, raw float, observed)] — every element asked for at every route on a memo
    that holds nothing yet (reset_cache before every evaluation: every route gets to be the first one), plus reads
    of `level` after `total` was evaluated at the stop time first (values memoised by the t-dt chain of `total`)."""
    m = consumer_model(start, dt, n)
    lv, tt = euler_ref(dt, n)
    depth_lv = {fbits(v): str(k) for k, v in enumerate(lv)}
    depth_tt = {fbits(v): str(k) for k, v in enumerate(tt)}
    S, H = D(start), D(dt)
    out = []
    for k in range(n + 1):
        for rn, t in elem_routes(start, dt, n, k).items():
            m.reset_cache()
            out.append(("time", "", k, rn, t, repr(m.evaluate_equation("clock", t))))
            for j in (k - 1, k, k + 1):
                if 0 <= j <= n:
                    m.reset_cache()
                    out.append(("thr", dstr(S + j * H), k, rn, t, repr(m.evaluate_equation("late%d" % j, t))))
            m.reset_cache()
            v = m.evaluate_equation("level", t)
            out.append(("stock", "level", k, rn, t, depth_lv.get(fbits(v), "value " + repr(v))))
            m.reset_cache()
            v = m.evaluate_equation("total", t)
            out.append(("stock", "total", k, rn, t, depth_tt.get(fbits(v), "value " + repr(v))))
    stop = float(dstr(S + n * H))
    for first in ("total", "late%d" % n):
        m.reset_cache()
        m.evaluate_equation(first, stop)
        for k in range(n + 1):
            t = float(dstr(S + k * H))
            v = m.evaluate_equation("level", t)
            out.append(("stock", "level", k, "grid-after-" + first, t, depth_lv.get(fbits(v), "value " + repr(v))))
            out.append(("time", "", k, "grid-after-" + first, t, repr(m.evaluate_equation("clock", t))))
    return out


def elem_expected(kind, extra, k, start, dt):
    S, H = D(start), D(dt)
    if kind == "time":
        return repr(float(dstr(S + k * H)))
    if kind == "thr":
        return "1.0" if S + k * H >= D(extra) else "0.0"
    return str(k)


def ch_reqset(start, dt, n):
    """run_scenarios on a fresh model for every requested set: {set: (index labels, {column: bits})}."""
    out = {}
    with Bptk() as b:
        for i, _ in enumerate(REQ_SETS):
            b.register_model(consumer_model(start, dt, n, name="rq%d" % i))
        for i, eqs in enumerate(REQ_SETS):
            df = b.run_scenarios(scenario_managers=["smRq%d" % i], scenarios=["base"], equations=list(eqs), series_names={})
            out[",".join(eqs)] = (labels(df.index), {c: [fbits(v) for v in df[c]] for c in eqs})
    return out


def reqset_expected(start, dt, n):
    lv, tt = euler_ref(dt, n)
    g = grid(start, dt, n)
    cols = {"level": [fbits(v) for v in lv], "total": [fbits(v) for v in tt], "clock": [fbits(float(x)) for x in g]}
    return ",".join(g), cols


def reqset_compare(start, dt, n):
    """first (set, what, observed, expected) that differs from the Euler solution on the decimal grid, or None."""
    obs = ch_reqset(start, dt, n)
    gi, cols = reqset_expected(start, dt, n)
    for eqs, (idx, data) in obs.items():
        if idx != gi:
            return eqs, "index", idx, gi
        for c, bits in data.items():
            if bits != cols[c]:
                k = next((i for i, (a, b) in enumerate(zip(bits, cols[c])) if a != b), min(len(bits), len(cols[c])))
                return eqs, f"{c}[{k}]", ",".join(repr(from_fbits(x)) for x in bits), ",".join(repr(from_fbits(x)) for x in cols[c])
    return None


# ----------------------------------------------------------------------------- scenario-level run specs (wave 6)
# (model start, model stop, model dt) and the scenario's overriding run specs; numbers as the user writes them (int / float)
RUNSPEC_CASES = [
    (("0", "1", "0.25"), {"dt": 0.1}),
    (("0", "1", "0.25"), {"dt": 0.5}),
    (("0", "2", "1"), {"dt": 0.25}),
    (("0.3", "1.3", "0.1"), {"dt": 0.05}),
    (("0", "1", "0.25"), {"starttime": 0.5, "stoptime": 2, "dt": 0.5}),
    (("0", "3", "0.5"), {"starttime": 1, "stoptime": 2}),
    (("1", "2", "0.1"), {"stoptime": 1.5}),
    (("0", "4", "0.5"), {"starttime": 1, "stoptime": 3, "dt": 1}),
    (("0.25", "2.25", "0.5"), {"dt": 0.25, "stoptime": 1.75}),
    (("0", "1", "0.1"), {"dt": 0.2, "starttime": 0.2}),
]


def rs_effective(mspec, rs):
    dec = lambda v: dstr(D(repr(v)) if isinstance(v, float) else D(v))
    return (dec(rs["starttime"]) if "starttime" in rs else mspec[0], dec(rs["stoptime"]) if "stoptime" in rs else mspec[1],
            dec(rs["dt"]) if "dt" in rs else mspec[2])


def ch_runspecs(mspec, rs):
    """a model built with `mspec`, registered with a scenario that carries the run specs `rs`: the index of the FIRST and
    of the second run_scenarios, of plot_scenarios(return_df), the session keys (begun without arguments), the TIME column
    (must equal the labels) and the stock column (Euler with the scenario's dt) — each on its own fresh bptk object where
    'first' matters."""
    S, E, H = rs_effective(mspec, rs)
    n = int((D(E) - D(S)) / D(H))
    out = {}
    def frame(df):
        s = labels(df.index)
        if "tm" in df and any(fbits(a) != fbits(v) for a, v in zip(df.index, df["tm"])):
            s += "|TIME=" + labels(df["tm"])
        if "s" in df:
            sv, ok = 0.0, True
            for v in df["s"]:
                ok = ok and fbits(v) == fbits(sv)
                sv = sv + float(H) * (1.0)
            if not ok:
                s += "|stock=" + labels(df["s"])
        return s
    def fresh():
        b = Bptk()
        bb = b.__enter__()
        bb.register_model(build_model(float(mspec[0]), float(mspec[1]), float(mspec[2]), name="r"), scenario_manager="smR",
                          scenario={"base": {}, "sc": {"runspecs": dict(rs)}})
        return b, bb
    b, bb = fresh()
    try:
        out["run1"] = frame(bb.run_scenarios(scenario_managers=["smR"], scenarios=["sc"], equations=["s", "tm"], series_names={}))
        out["run2"] = frame(bb.run_scenarios(scenario_managers=["smR"], scenarios=["sc"], equations=["tm", "s"], series_names={}))
        out["base"] = frame(bb.run_scenarios(scenario_managers=["smR"], scenarios=["base"], equations=["tm"], series_names={}))
    finally:
        b.__exit__()
    b, bb = fresh()
    try:
        out["plot1"] = frame(bb.plot_scenarios(scenario_managers=["smR"], scenarios=["sc"], equations=["tm"], series_names={}, return_df=True))
    finally:
        b.__exit__()
    b, bb = fresh()
    try:
        bb.begin_session(scenarios=["sc"], scenario_managers=["smR"], equations=["s", "tm"])
        per = []
        for _ in range(n + 2):
            r = bb.run_step()
            per.append("stop" if (r is None or "msg" in r) else labels(r["smR"]["sc"]["tm"].keys()))
        bb.end_session()
        out["session"] = ";".join(per)
        out["run-after-session"] = frame(bb.run_scenarios(scenario_managers=["smR"], scenarios=["sc"], equations=["s", "tm"], series_names={}))
    finally:
        b.__exit__()
    return out


def runspecs_expected(mspec, rs):
    S, E, H = rs_effective(mspec, rs)
    n = int((D(E) - D(S)) / D(H))
    g = grid(S, H, n)
    mg = grid(mspec[0], mspec[2], int((D(mspec[1]) - D(mspec[0])) / D(mspec[2])))
    return {"run1": ",".join(g), "run2": ",".join(g), "plot1": ",".join(g), "run-after-session": ",".join(g),
            "base": ",".join(mg), "session": ";".join(g + ["stop"])}


# ----------------------------------------------------------------------------- probes
def probe():
    facts = {}
    b = ch_batch("0", "0.1", [2])[2]
    facts["simBoundInclusive"] = b["run"] == "0.0,0.1,0.2"
    facts["plotBoundInclusive"] = b["plot"] == "0.0,0.1,0.2"
    per, _ = ch_session("0", "0.1", 5, 5)
    facts["stepClockNormalised"] = per == "0.0;0.1;0.2;0.3;0.4"
    per2, _ = ch_session("0.25", "0.5", 3, 5, mode="default")
    facts["sessionOriginEffective"] = per2 == "0.25;0.75;1.25;1.75;stop"
    rs = ch_runspecs(("0", "1", "0.25"), {"dt": 0.1})
    facts["runGridUsesModelDt"] = rs["run1"] == ",".join(grid("0", "0.1", 10))
    facts["_observed_runspecs"] = {"first run of a scenario with runspecs dt=0.1 on a model with dt=0.25, 0..1": rs["run1"]}
    facts["_observed"] = {"run(0,0.2,0.1)": b["run"], "plot(0,0.2,0.1)": b["plot"], "session(0,0.5,0.1)x5": per,
                          "session(0.25,1.75,0.5)x5 begun without starttime/dt": per2}
    return facts


def cfg_bits(f):
    return "".join("1" if f[k] else "0" for k in ("simBoundInclusive", "plotBoundInclusive", "stepClockNormalised", "sessionOriginEffective", "runGridUsesModelDt"))


def gen_lean(f):
    tf = lambda v: "true" if v else "false"
    good = f["simBoundInclusive"] and f["plotBoundInclusive"] and f["stepClockNormalised"] and f["sessionOriginEffective"] and f["runGridUsesModelDt"]
    head = ("import Bptk.Props.C05\nimport Bptk.Props.C01Grid\n/-! GENERATED by harness/props/c05.py from /repo on every run — do not edit. -/\n"
            "namespace Bptk.C05.Gen\n"
            f"def cfg : Cfg := {{ simBoundInclusive := {tf(f['simBoundInclusive'])}, "
            f"plotBoundInclusive := {tf(f['plotBoundInclusive'])}, stepClockNormalised := {tf(f['stepClockNormalised'])}, "
            f"sessionOriginEffective := {tf(f['sessionOriginEffective'])}, runGridUsesModelDt := {tf(f['runGridUsesModelDt'])} }}\n")
    if good:
        body = ("theorem holds : C05_full cfg := C05_full_of_good cfg (by decide)\n#print axioms holds\n"
                "-- C01 x C05 bridge (Props/C01Grid): every evaluation time of a run is a label of this development's grid\n"
                "theorem eval_times_are_labels (F : Fl) (G : Grid) (n : Nat) (r : Rat) (B : Budget F G (n + 1) r) (fuel : Nat)\n"
                "    (hf : n + 2 ≤ fuel) (t : Rat) (h : Bptk.C01.EvalTime cfg F G n fuel t) :\n"
                "    ∃ k : Nat, k ≤ n ∧ t = label F G (k : Int) := Bptk.C01.evalTime_label cfg (by decide) F G n r B fuel hf t h\n"
                "#print axioms eval_times_are_labels\n")
    else:
        body = ""
        if not f["stepClockNormalised"]:
            body += ("theorem violated_session : ¬ C05_full cfg := C05_witness_session cfg (by decide)\n"
                     "#print axioms violated_session\n")
        if not f["simBoundInclusive"]:
            body += ("theorem violated_simBound : ¬ C05_full cfg := C05_witness_simBound cfg (by decide)\n"
                     "#print axioms violated_simBound\n")
        if not f["plotBoundInclusive"]:
            body += ("theorem violated_plotBound : ¬ C05_full cfg := C05_witness_plotBound cfg (by decide)\n"
                     "#print axioms violated_plotBound\n")
        if not f["sessionOriginEffective"]:
            body += ("theorem violated_sessionOrigin : ¬ C05_full cfg := C05_witness_sessionOrigin cfg (by decide)\n"
                     "#print axioms violated_sessionOrigin\n")
        if not f["runGridUsesModelDt"]:
            body += ("theorem violated_runGrid : ¬ C05_full cfg := C05_witness_runGrid cfg (by decide)\n"
                     "#print axioms violated_runGrid\n")
        body += "#print axioms C05_partial\n"
    body += "#print axioms Bptk.C01.C01_full_decimal_dt\n#print axioms Bptk.C01.stock_euler_decimal\n"
    return head + body + "end Bptk.C05.Gen\n"


# ----------------------------------------------------------------------------- the run
def first_diff(a, b, sep=","):
    xa, xb = a.split(sep), b.split(sep)
    for i, (p, q) in enumerate(zip(xa, xb)):
        if p != q:
            return i, p, q
    if len(xa) != len(xb):
        i = min(len(xa), len(xb))
        return i, (xa[i] if i < len(xa) else "<end>"), (xb[i] if i < len(xb) else "<end>")
    return None


def view_expected(view, start, dt, n):
    g = grid(start, dt, n)
    if view == "plot_sub": return ",".join(g[1:n])
    if view == "plot_coarse": return ",".join(g[0:2 * (n // 2) + 1:2])
    if view == "second_session_flat": return ";".join(g + ["stop"])
    return ",".join(g)


def check_channel(channel, start, dt, n, calls=None, mode="explicit", view=None):
    """(observed, expected) of one channel on the current tree — used by the run and by replay."""
    g = grid(start, dt, n)
    if view is not None:
        if channel == "session":
            return ch_session_views(start, dt, n)[view], view_expected(view, start, dt, n)
        return ch_batch(start, dt, [n], [n])[n][view], view_expected(view, start, dt, n)
    if channel == "timerange-incl":
        return ch_timerange(start, dt, n, False), ",".join(g)
    if channel == "timerange-excl":
        return ch_timerange(start, dt, n, True), (",".join(g[:-1]) or "-")
    if channel in ("run", "plotsc", "plot"):
        return ch_batch(start, dt, [n])[n][channel], ",".join(g)
    if channel == "session":
        calls = calls or n + 3
        exp = ";".join((g + ["stop"] * calls)[:calls])
        return ch_session(start, dt, n, calls, mode)[0], exp
    if channel == "session-log":
        calls = calls or n + 3
        return ch_session(start, dt, n, calls, mode)[1], ",".join(g[:calls])
    if channel == "routes":
        rs, fresh, shared = ch_routes(start, dt, n)
        obs = ";".join("/".join(f"{fresh[r][k][0]}:{fresh[r][k][1]}" for r in range(3)) for k in range(n + 1))
        exp = ";".join("/".join([f"{fbits(float(g[k]))}:{fresh[0][k][1]}"] * 3) for k in range(n + 1))
        return obs, exp
    if channel.startswith("runspecs:"):
        mspec, rs = RUNSPEC_CASES[n]
        what = channel.split(":", 1)[1]
        return ch_runspecs(mspec, rs)[what], runspecs_expected(mspec, rs)[what]
    if channel == "elems":
        rows = ch_elems(start, dt, n)
        obs = ";".join(f"{kind}{'(' + extra + ')' if extra else ''}@{k}/{rn}={o}" for kind, extra, k, rn, t, o in rows)
        exp = ";".join(f"{kind}{'(' + extra + ')' if extra else ''}@{k}/{rn}={elem_expected(kind, extra, k, start, dt)}"
                       for kind, extra, k, rn, t, o in rows)
        return obs, exp
    if channel == "reqset":
        d = reqset_compare(start, dt, n)
        if d is None:
            return "equal", "equal"
        return f"equations=[{d[0]}] {d[1]}: {d[2]}", f"equations=[{d[0]}] {d[1]}: {d[3]}"
    raise ValueError(channel)


KEYS = {"runspecs:run1": "run-grid-stale-runspecs", "runspecs:run2": "run-grid-stale-runspecs", "runspecs:plot1": "run-grid-stale-runspecs",
        "runspecs:run-after-session": "run-grid-stale-runspecs", "runspecs:base": "run-grid-stale-runspecs",
        "runspecs:session": "session-clock-drift",
        "elems": "route-dependent-value", "reqset": "requested-set-dependent-value",
        "timerange-incl": "timerange-labels", "timerange-excl": "timerange-labels", "run": "sim-bound-overshoot",
        "plotsc": "sim-bound-overshoot", "plot": "plot-bound-overshoot", "session": "session-clock-drift",
        "session-log": "session-clock-drift", "routes": "route-dependent-value"}


def run(chk):
    quiet_bptk_logging()
    t_start = time.time()
    try:
        with Watchdog(20):
            from BPTK_Py.util import timerange as _tr
            _tr(0.0, 0.3, 0.1, exclusive=False); _tr(1000.1, 1000.103, 0.001); _tr(0.05, 0.25, 0.05, exclusive=False)
    except TimeoutError:
        chk.add_finding("time-grid-no-termination", "util.timerange does not terminate on a three-step grid "
                        "(one of (0,0.3,0.1), (1000.1,1000.103,0.001), (0.05,0.25,0.05))",
                        {"channel": "timerange-incl", "start": "0", "dt": "0.1", "n": 3, "timeout_s": 20})
        return
    from BPTK_Py.util import timerange as _tr
    first = _tr(0.0, 0.3, 0.1, exclusive=False)
    first_ok = labels(first) == "0.0,0.1,0.2,0.3"   # (a wrong first answer is the lattice's to report)
    first.append(99.0); first[0] = -1.0          # a caller may do what it likes with the list it got
    again = _tr(0.0, 0.3, 0.1, exclusive=False)
    if first_ok and labels(again) != "0.0,0.1,0.2,0.3":
        chk.add_finding("timerange-labels", f"timerange(0.0, 0.3, 0.1, exclusive=False) after the caller modified the list returned by the previous identical call: {labels(again)}",
                        {"channel": "timerange-incl", "start": "0", "dt": "0.1", "n": 3, "note": "second call after mutating the first result"})
    facts = probe()
    chk.notes["cfg"] = {k: v for k, v in facts.items()}
    cb = cfg_bits(facts)
    ok, why = chk.prove(gen_lean(facts), extra_sources=["Bptk/Props/C01Grid.lean"])
    chk.cov["trusted_base"] = [
        "Lean 4.33 kernel; axioms propext, Classical.choice, Quot.sound (audited per run via #print axioms); `decide +kernel` on Float literals only in the two Float witnesses",
        "(wave 6) which dt the grid of a run is generated with (`runTimesRS`: `mod.dt` after change_runspecs vs the copy SdSimulation.__init__ took) is a probed Cfg fact",
        "hand-written model lean/Bptk/Core/C05.lean of util.floating_point (precision_and_scale, normalize, timerange), Model.memoize key and evaluation AT the key (TIME, thresholds, the stock recursion t <= starttime / t-dt), SdSimulation.__simulate / Element.plot bound, bptk.run_step clock; tied to /repo by three probes and the exhaustive lattice correspondence of this check",
        "floating point enters the theorems as an arbitrary rounding function with relative error <= u (hypothesis); that IEEE-754 double rounding satisfies it with u = 2^-53, that CPython's round(x, n) is the correctly rounded half-even decimal rounding of the exact binary value, that int->float conversion of the step count is exact (< 2^53), and that repr of the double nearest to a decimal of <= 15 significant digits prints that decimal",
        "precision_and_scale is modelled in exact arithmetic on the decimal value; on doubles the code computes the same digits as long as |x| has at most 14 significant decimal digits (validated on the sample list and the lattice, not proved)",
        "pandas frame assembly (index = dictionary keys in insertion order) — checked only through the correspondence on returned frames",
    ]
    chk.assumptions = ["start, stop and dt are decimals with at most 14 significant digits, dt > 0, stop = start + n*dt",
                       "the budget hypotheses of the theorems (u*(|start|+n*dt) far below dt and below 10^-precision/2) — satisfied with margin on the lattice for u = 2^-53 (example `budget_nonvacuous`)"]
    nmax = 40 if chk.quick else 200
    ns_all = list(range(0, nmax + 1))
    chk.cov["rule"] = (f"EXHAUSTIVE lattice: start in {STARTS} x dt in {DTS} x n in 0..{nmax}; channels: util.timerange "
                       "inclusive and exclusive, run_scenarios index, plot_scenarios(return_df) index, Element.plot(return_df) index "
                       "(all n), stepwise session keys (n = nmax with nmax+3 calls, plus every n in the session subset with n+3 calls), "
                       "session_results keys, memoize route independence at every grid point k <= nmax by i*dt / repeated + / t-dt chain "
                       "(fresh model per route and shared model); a case = (channel, start, dt, n); non-trivial = dt not a power of two or start not an integer. "
                       "Wave 2 stream `elems`: TIME, IF(TIME>=grid point j) for j = k-1,k,k+1, a stock and a stock of that stock, asked for at grid point k "
                       "through six float routes (label, i*dt, repeated +, t-dt, t-dt-dt, t+dt) each on an EMPTY memo (reset_cache), plus reads after `total` "
                       "was evaluated first; pairs (start, dt, n) incl. start 0.3 / dt 0.1, 1/0.7, 0.05/0.3, 1000.1/0.001 "
                       "(thorough: all starts + 0.3 x all dts, n = 20); stream `runspecs` (wave 6): ten scenarios whose run specs override the model's dt / start / stop "
                       "(int and float values): first and second run_scenarios, plot_scenarios, session, run after the session, labels against the Decimal grid of "
                       "the scenario's run specs; stream `reqset`: run_scenarios with equations in "
                       f"{REQ_SETS} on fresh models, every column bit-identical to the Euler solution on the decimal grid")
    chk.cov["exhaustive"] = True
    req, real, meta = [], [], []      # protocol lines, implementation's answers, (channel,start,dt,n)
    def add(line, answer, m):
        req.append(line); real.append(answer); meta.append(m)
    ref_fail = {}                     # key -> first (channel,start,dt,n,observed,expected)
    def ref(channel, start, dt, n, observed, expected, extra=None):
        if observed != expected:
            key = (extra or {}).get("key", KEYS[channel])
            if key not in ref_fail:
                ref_fail[key] = (channel, start, dt, n, observed, expected, extra)
    dist = {"pairs": 0, "timerange": 0, "batch": 0, "session_calls": 0, "route_points": 0, "scale": 0}
    # --- precision_and_scale
    from BPTK_Py.util.floating_point import precision_and_scale
    for x in SCALE_SAMPLES + STARTS + DTS:
        p, s = precision_and_scale(float(x))
        add(f"scale {x}", f"{p} {s}", ("scale", x, "", 0))
        if D(x) == D(x).to_integral_value() and abs(D(x)) < 10 ** 15:       # the same number written as a Python int
            p, s = precision_and_scale(int(D(x)))
            add(f"scale {x}", f"{p} {s}", ("scale-int", x, "", 0))
            dist["scale_int"] = dist.get("scale_int", 0) + 1
        dist["scale"] += 1
        chk.case(("scale", x), nontrivial=True)
    # --- wave 2: elements that consume t directly (TIME, IF(TIME >= grid point), stocks incl. non-binary start
    #     times) at every route on an empty memo, and requested-set variations of run_scenarios
    pairs = CONSUMER_PAIRS_QUICK if chk.quick else [(st, dt, 20) for st in STARTS + ["0.3"] for dt in DTS]
    dist["elem_evals"] = 0; dist["reqset_runs"] = 0
    for start, dt, n in pairs:
        S_, H_ = D(start), D(dt)
        for kind, extra, k, rn, t, o in ch_elems(start, dt, n):
            add(f"elem {start} {dt} {kind} {fbits(t)}" + (f" {extra}" if kind == "thr" else ""), o, ("elems", start, dt, k))
            exp = elem_expected(kind, extra, k, start, dt)
            if o != exp:
                what = {"time": "TIME", "thr": f"IF(TIME>={extra},1,0)", "stock": f"stock '{extra}' (Euler steps taken)"}[kind]
                ref("elems", start, dt, n, f"{what} at grid point {k} reached as {rn} ({t!r}) = {o}",
                    f"{what} at grid point {k} reached as {rn} ({t!r}) = {exp}", {"k": k, "route": rn, "element": what})
            dist["elem_evals"] += 1
            chk.case(("elems", start, dt, kind, extra, k, rn), nontrivial=fbits(t) != fbits(float(dstr(S_ + k * H_))),
                     sample=(f"elem start={start} dt={dt}: stock level at {t!r} (route {rn} to grid point {k}) took {o} steps"
                             if (kind, extra, k, rn, start) == ("stock", "level", 0, "t-dt", "0.3") else None))
        d = reqset_compare(start, dt, n)
        if d is not None:
            ref("reqset", start, dt, n, f"equations=[{d[0]}] {d[1]}: {d[2]}", f"equations=[{d[0]}] {d[1]}: {d[3]}",
                {"requested": d[0]})
        dist["reqset_runs"] += len(REQ_SETS)
        chk.case(("reqset", start, dt, n), nontrivial=True)
    # --- wave 6: scenario-level run specs (dt / start / stop differing from the model's; first and second run)
    dist["runspec_cases"] = 0
    for ci, (mspec, rs) in enumerate(RUNSPEC_CASES):
        S_, E_, H_ = rs_effective(mspec, rs)
        obs, exp = ch_runspecs(mspec, rs), runspecs_expected(mspec, rs)
        add(f"simrs {cb} {S_} {E_} {mspec[2]} {H_}", obs["run1"], ("runspecs:run1", S_, H_, ci))
        add(f"sim {cb} {S_} {E_} {H_}", obs["run2"], ("runspecs:run2", S_, H_, ci))
        add(f"session {cb} {S_} {E_} {H_} {len(exp['session'].split(';'))}", obs["session"], ("runspecs:session", S_, H_, ci))
        for what in ("run1", "run2", "plot1", "session", "run-after-session", "base"):
            ref("runspecs:" + what, S_, H_, ci, obs[what], exp[what], {"model_runspecs": list(mspec), "scenario_runspecs": rs})
            chk.case(("runspecs", what, ci), nontrivial=True,
                     sample=(f"first run of a scenario with run specs {rs} on a model built with {mspec}: {obs[what][:70]}"
                             if (what, ci) == ("run1", 0) else None))
        dist["runspec_cases"] += 1
    sess_subset = [0, 1, 2, 3, 7, 8, 12] if chk.quick else list(range(0, 41)) + [57, 100, 143]
    budget_hit = False
    mode_ns = [2, 7] if chk.quick else [0, 1, 2, 3, 7, 8, 12, 40]
    jobs = [(st, d_, nmax, chk.quick, cb, sess_subset, mode_ns, "float") for st in STARTS for d_ in DTS]
    jobs += [(st, d_, nmax, chk.quick, cb, sess_subset, mode_ns, "float") for st, d_ in EXTRA_PAIRS]
    # value kinds of run specs (wave 7): negative starts, large magnitudes, Python ints where the decimal is integral
    kmax = 12 if chk.quick else 40
    jobs += [(st, d_, kmax, chk.quick, cb, [0, 1, 2, 3, 7, 8, 12], [2, 7], kind) for st, d_, kind in KIND_PAIRS]
    def merge(res, job):
        if res["timeout"] is not None:
            t = res["timeout"]
            chk.add_finding("time-grid-no-termination", f"util.timerange does not terminate: start={t['start']} dt={t['dt']} n={t['n']} channel={t['channel']}", t)
            return False
        for a in res["adds"]:
            add(*a)
        for r_ in res["refs"]:
            if job[7] != "float":
                r_ = r_[:6] + (dict(r_[6] or {}, num=job[7]),)
            ref(*r_)
        for c_ in res["cases"]:
            chk.case(c_[0], nontrivial=c_[1], sample=c_[2])
        for k_, v_ in res["dist"].items():
            dist[k_] = dist.get(k_, 0) + v_
        if job[7] != "float" or D(job[0]) < 0 or abs(D(job[0])) >= 100000:
            kd = "int" if job[7] == "int" else ("negative start" if D(job[0]) < 0 else "large start")
            dist.setdefault("runspec_value_kinds", {})
            dist["runspec_value_kinds"][kd] = dist["runspec_value_kinds"].get(kd, 0) + len(res["cases"])
        return True
    workers = max(1, min(4 if chk.quick else 8, (os.cpu_count() or 2) // 2))
    workers = int(os.environ.get("VERIF_C05_WORKERS", workers))
    chk.notes["lattice_workers"] = workers
    if workers == 1:
        for job in jobs:
            if not merge(lattice_pair(job), job):
                return
            if chk.quick and time.time() - t_start > 150:
                budget_hit = True
                break
    else:
        import multiprocessing
        from concurrent.futures import ProcessPoolExecutor
        with ProcessPoolExecutor(max_workers=workers, mp_context=multiprocessing.get_context("spawn")) as ex:
            for job, res in zip(jobs, ex.map(lattice_pair, jobs)):
                if not merge(res, job):
                    return
    if budget_hit:
        chk.cov["exhaustive"] = False
        chk.notes["budget"] = "quick-tier time budget hit before the lattice was finished"
    chk.cov["input_distribution"] = dist
    model = drive("C05", req)
    chk.cov["traces_validated_against_impl"] = len(req)
    diff = next((i for i, (a, b) in enumerate(zip(model, real)) if a != b), None)
    if diff is None and len(model) != len(real):
        diff = min(len(model), len(real))
    # --- decide
    for key, (channel, start, dt, n, obs, exp, extra) in ref_fail.items():
        fd = first_diff(obs, exp, ";" if (channel.startswith("session") and channel != "session-log") or channel in ("elems", "reqset", "runspecs:session") else ",")
        rp = {"channel": channel, "start": start, "dt": dt, "n": n, "observed": obs[:600], "expected": exp[:600],
              "first_difference": fd}
        rp.update(extra or {})
        chk.add_finding(key, f"{channel}{' (session begun in mode ' + extra['mode'] + ')' if extra and 'mode' in extra else ''} start={start} dt={dt} n={n}: first difference at position "
                             f"{fd[0] if fd else '?'}: got {fd[1] if fd else obs[:60]!r}, grid says {fd[2] if fd else exp[:60]!r}", rp)
    if not ok:
        chk.add_finding("obligation", f"proof obligations of C05 no longer check: {why}",
                        {"theorem": "Bptk.C05.Gen.holds / Bptk.Props.C05", "detail": why}, found_input=False)
    if diff is not None and not ref_fail:
        chk.add_finding("correspondence", f"model and implementation disagree on {meta[diff] if diff < len(meta) else '?'}: request {req[diff] if diff < len(req) else '?'!r}",
                        {"correspondence": "Drive/C05 vs BPTK_Py", "line": diff, "request": req[diff] if diff < len(req) else None,
                         "model": model[diff][:400] if diff < len(model) else None, "impl": real[diff][:400] if diff < len(real) else None},
                        found_input=False)
    elif diff is not None:
        chk.notes["first_model_impl_difference"] = {"request": req[diff], "model": model[diff][:200], "impl": real[diff][:200]}


def replay(path):
    quiet_bptk_logging()
    r = json.load(open(path))["replay"]
    if "channel" not in r:
        print("replay names an obligation / correspondence stream, no input to re-run:", r)
        return 1
    try:
        with Watchdog(r.get("timeout_s", 120)):
            _NUM[0] = r.get("num", "float")
            obs, exp = check_channel(r["channel"], r["start"], r["dt"], r["n"], r.get("calls"), r.get("mode", "explicit"), r.get("view"))
    except TimeoutError:
        print(f"channel={r['channel']} start={r['start']} dt={r['dt']} n={r['n']}: no answer within the time limit — still failing")
        return 1
    print(f"channel={r['channel']} start={r['start']} dt={r['dt']} n={r['n']}" + (f" session mode={r['mode']}" if "mode" in r else ""))
    print("observed:", obs[:600])
    print("expected:", exp[:600])
    print("still failing" if obs != exp else "agrees with the grid now")
    return 1 if obs != exp else 0
