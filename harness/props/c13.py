"""C13 — agent statistics equal the aggregates of the agent population.

Probe (real collect_agent_statistics on Int populations -> kernel-checked equality with the Lean model) +
Gen obligation + correspondence (Model.statistics() at every recorded time vs Drive/C13 on Float, bit exact;
bptk.run_scenarios cells in df/dict/json vs the model's zero-filled cells) + independent reference check
(count / sum / min / max / arithmetic mean computed in Python from the recorded populations)."""
import contextlib, io, json, threading
from common import *

# wave 7: names that contain the separator of the column keys (`state_property_aggregate`, `manager_scenario_agent_state…`) and a
# property whose name ends in an aggregate word: nothing may take a key apart at "_"
TYPES = ["a", "b_t"]
STATES = ["active", "s_1", "s2"]
PROPS = ["x", "k", "nm", "y_max"]              # x,y Double  k Integer  nm String
PTYPE = {"x": "Double", "k": "Integer", "nm": "String", "y_max": "Double"}
AGGS = ["total", "min", "max", "mean"]


# ------------------------------------------------------------------ real model driven by a script
def model_class():
    from BPTK_Py import Model, Agent

    class ActAgent(Agent):
        """wave 3: the population also changes DURING a step — an agent deletes itself / another agent or creates one while it acts"""
        def act(self, time, round_no, step_no):
            for op in getattr(self.model, "_mid", {}).get(int(time), ()):
                if op[0] == "act_del" and op[1] == self.id:
                    self.model.delete_agent(op[2])
                elif op[0] == "act_dels" and op[1] == self.id:
                    self.model.delete_agents(list(op[2]))
                elif op[0] == "act_create" and op[1] == self.id:
                    self.model.create_agent(TYPES[op[2]], props_dict(op[3]))

    class M(Model):
        def instantiate_model(self):
            for t in TYPES:
                self.register_agent_factory(t, (lambda tt: (lambda i, mod, p: ActAgent(i, mod, p, tt)))(t))

        # ---- wave 3: the population at the start of the step and every effective operation on it, in execution order
        def _snap_agent(self, a):
            return (TYPES.index(a.agent_type), STATES.index(a.state), [(n, v["type"], v["value"]) for n, v in a.properties.items()])

        def _oplog(self, op):
            now = getattr(self, "_now", None)
            if now is not None:
                self._ops[now].append(op)

        def create_agent(self, agent_type, agent_properties):
            a = super().create_agent(agent_type, agent_properties)
            self._oplog(("C", a.id) + self._snap_agent(a))
            return a

        def delete_agents(self, agent_ids):
            self._oplog(("D", [int(i) for i in agent_ids]))
            return super().delete_agents(agent_ids)

        def configure_agents(self, config):
            self._oplog(("X",))
            return super().configure_agents(config)

        def reset(self):
            self._oplog(("X",))
            return super().reset()

        def begin_round(self, time, sim_round, step):
            if not hasattr(self, "_ops"):
                self._ops, self._start = {}, {}
            self._start[time] = [(a.id,) + self._snap_agent(a) for a in self.agents]
            self._ops[time] = []
            self._now = time
            for op in self._script.get(int(time), ()):   # batch run: time = round (dt = 1); session step: round is 0, time = step
                if op[0] == "state":
                    a = self.agent(op[1])
                    if a is not None:
                        a.state = STATES[op[2]]
                        self._oplog(("S", a.id, op[2]))
                elif op[0] == "value":
                    a = self.agent(op[1])
                    if a is not None and op[2] in a.properties:
                        a.set_property_value(op[2], op[3])
                        self._oplog(("V", a.id, op[2], a.properties[op[2]]["value"]))   # the value the agent holds afterwards
                elif op[0] == "delete":
                    self.delete_agent(op[1])
                elif op[0] == "create":
                    self.create_agent(TYPES[op[1]], props_dict(op[2]))

        def end_round(self, time, sim_round, step):
            for op in getattr(self, "_mid", {}).get(int(time), ()):
                if op[0] == "end_del":
                    self.delete_agents(list(op[1]))
                elif op[0] == "end_create":
                    self.create_agent(TYPES[op[1]], props_dict(op[2]))
                elif op[0] == "end_reconf":        # configure_agents: removes everybody, then creates the listed agents
                    self.configure_agents([{"name": TYPES[ty], "count": 1, "properties": props_dict(vals)} for ty, vals in op[1]])
                elif op[0] == "end_reset":         # Model.reset(): removes everybody and wipes the statistics recorded so far
                    self.reset()
                    self._wipe_before = time
            self._now = None
            # the agents live at the END of the step = "at that time": what the statistics of this time must describe
            # (nothing runs between here and collect_agent_statistics)
            self._snaps[time] = [(TYPES.index(a.agent_type), STATES.index(a.state),
                                  [(n, v["type"], v["value"]) for n, v in a.properties.items()]) for a in self.agents]
            # wave 9b: the operation log comes from overridden public methods; code that reaches the same population another way
            # (delete_agent no longer calling delete_agents, create_agents building agents itself, …) would leave it incomplete.
            # It is therefore replayed here; when it does not lead to the actual end-of-step population it is replaced by
            # "everybody gone, then everybody as they are now" — the instrumentation must never be the reason for a disagreement
            end = [(a.id,) + self._snap_agent(a) for a in self.agents]
            if canon_ipop(apply_ops(self._start[time], self._ops[time])) != canon_ipop(end):
                self._ops[time] = [("X",)] + [("C",) + e for e in end]
                self._oplog_fallbacks = getattr(self, "_oplog_fallbacks", 0) + 1
    return M


def apply_ops(start, ops):
    """Python replay of an operation log on a population [(id, ty, st, [(name, type, value)…])…] (same semantics as Core.applyOp)"""
    pop = [(i, ty, st, list(es)) for i, ty, st, es in start]
    for op in ops:
        if op[0] == "D":
            pop = [a for a in pop if a[0] not in op[1]]
        elif op[0] == "C":
            pop.append((op[1], op[2], op[3], list(op[4])))
        elif op[0] == "S":
            pop = [(i, ty, op[2] if i == op[1] else st, es) for i, ty, st, es in pop]
        elif op[0] == "V":
            pop = [(i, ty, st, [(n, tp, op[3] if (i == op[1] and n == op[2]) else v) for n, tp, v in es]) for i, ty, st, es in pop]
        else:
            pop = []
    return pop


def canon_ipop(pop):
    return [(i, ty, st, [(n, tp, fbits(v) if tp in ("Integer", "Double") else v) for n, tp, v in es]) for i, ty, st, es in pop]


def props_dict(vals):
    """entries (name, value) or (name, value, type): the same name may be Integer for one agent and Double for another"""
    return {e[0]: {"type": e[2] if len(e) > 2 else PTYPE[e[0]], "value": e[1]} for e in vals}


def new_model(case):
    from BPTK_Py import SimultaneousScheduler, DataCollector
    m = model_class()(name="c13", scheduler=SimultaneousScheduler(), data_collector=DataCollector())
    m._script = {int(k): v for k, v in case["script"].items()}
    m._mid = {int(k): v for k, v in case.get("mid", {}).items()}
    m._snaps = {}
    m.instantiate_model()
    m.run_specs(1, case["stop"], 1)
    for ty, vals in case["pop"]:
        m.create_agent(TYPES[ty], props_dict(vals))
    return m


# ------------------------------------------------------------------ canonical forms
def enc_agent(ty, st, es):
    def ent(n, t, v):
        num = t in ("Integer", "Double")
        return f"{PROPS.index(n)}={'N' if num else 'S'}{fbits(v if num else 0.0)}"
    return f"{ty}:{st}:" + (",".join(ent(*e) for e in es) or "-")


def enc_pop(snap):
    return ";".join(enc_agent(ty, st, es) for ty, st, es in snap) or "-"


def enc_ipop(start):
    return ";".join(f"{i}@{enc_agent(ty, st, es)}" for i, ty, st, es in start) or "-"


def enc_ops(ops):
    def one(op):
        if op[0] == "D":
            return "D" + ".".join(map(str, op[1]))
        if op[0] == "C":
            return f"C{op[1]}@{enc_agent(op[2], op[3], op[4])}"
        if op[0] == "S":
            return f"S{op[1]}.{op[2]}"
        if op[0] == "V":
            return f"V{op[1]}.{PROPS.index(op[2])}.{fbits(op[3])}"
        return "X"
    return "|".join(one(op) for op in ops) or "-"


def canon_stats_real(st):
    """Model.statistics()[t] -> sorted canonical string (same tokens as Drive/C13 `stats`)."""
    toks = []
    for ty, states in st.items():
        for s, g in states.items():
            ps = sorted(f"{PROPS.index(n)}={fbits(r['total'])}/{fbits(r['min'])}/{fbits(r['max'])}/{fbits(r['mean'])}"
                        for n, r in g.items() if n != "count")
            toks.append(f"{TYPES.index(ty)}.{STATES.index(s)}#{g['count']}#" + "&".join(ps))
    return ";".join(sorted(toks))


def canon_stats_model(line):
    toks = []
    for t in (line.split(";") if line else []):
        k, c, ps = t.split("#")
        toks.append(f"{k}#{c}#" + "&".join(sorted(p for p in ps.split("&") if p)))
    return ";".join(sorted(toks))


# ------------------------------------------------------------------ reference semantics (independent)
def ref_group(snap, ty, st):
    return [es for (t, s, es) in snap if t == ty and s == st]


def ref_cell(snap, ty, st, p=None, agg=None):
    """the right-hand side of the statement; None = undefined here (inhomogeneous group: mean)."""
    ms = ref_group(snap, ty, st)
    if p is None:
        return len(ms)
    vals = [v for es in ms for (n, t, v) in es if n == p and t in ("Integer", "Double")]
    if not vals:
        return 0
    if agg == "total":
        return fsum_lr(vals)
    if agg == "min":
        return min(vals)
    if agg == "max":
        return max(vals)
    if len(vals) != len(ms):
        return None
    return fsum_lr(vals) / len(ms)


def fsum_lr(vals):
    """the sum as a left-to-right float addition starting from 0 (Python's built-in sum() compensates since 3.12 and differs in the
    last bit for values that are not dyadic; on dyadic values of moderate size — the bulk of the generated ones — both are the exact sum)"""
    t = 0
    for v in vals:
        t = t + v
    return t


def check_statistics(m):
    """Model.statistics() against the statement; returns None or text."""
    stats = m.statistics()
    wipe = getattr(m, "_wipe_before", None)       # Model.reset() in end_round of that time wipes what was recorded before
    snaps = {t: sn for t, sn in m._snaps.items() if wipe is None or t >= wipe}
    if set(stats.keys()) != set(snaps.keys()):
        return f"statistics recorded at {sorted(stats)} but collected at {sorted(snaps)}"
    for t, snap in snaps.items():
        seen = set()
        for ty_name, states in stats[t].items():
            for st_name, g in states.items():
                ty, st = TYPES.index(ty_name), STATES.index(st_name)
                seen.add((ty, st))
                if g["count"] != ref_cell(snap, ty, st) or g["count"] == 0:
                    return f"t={t} {ty_name}/{st_name}: count {g['count']}, population has {ref_cell(snap, ty, st)}"
                names = {n for es in ref_group(snap, ty, st) for (n, tp, v) in es if tp in ("Integer", "Double")}
                if names != set(g) - {"count"}:
                    return f"t={t} {ty_name}/{st_name}: statistics for properties {sorted(set(g) - {'count'})}, numeric properties are {sorted(names)}"
                for n in names:
                    for agg in AGGS:
                        want = ref_cell(snap, ty, st, n, agg)
                        if want is not None and float(g[n][agg]) != float(want):
                            return (f"t={t} {ty_name}/{st_name} property {n}: {agg} reported {g[n][agg]!r}, "
                                    f"the agents' values give {want!r}")
        for ty in range(len(TYPES)):
            for st in range(len(STATES)):
                if (ty, st) not in seen and ref_cell(snap, ty, st) != 0:
                    return f"t={t} {TYPES[ty]}/{STATES[st]}: {ref_cell(snap, ty, st)} agents but no statistics"
    return None


# ------------------------------------------------------------------ probe -> Lean data
PROBE_POPS = [
    [(0, 1, [("x", "Integer", -3), ("nm", "String", "q")]), (1, 1, [("x", "Integer", 50)]), (0, 1, [("x", "Integer", 1)]),
     (0, 0, [("x", "Integer", 5), ("k", "Integer", -7)]), (0, 1, [("x", "Integer", 9)]), (0, 0, [("x", "Integer", -8), ("k", "Integer", -2)])],
    [(0, 0, [("x", "Integer", 4)]), (0, 0, []), (0, 0, [("k", "Integer", 6)]), (1, 2, [("x", "Integer", -1), ("k", "Integer", 3)])],
]


def real_collect(snap):
    """collect_agent_statistics of the real DataCollector on real Agent objects built from a snapshot."""
    from BPTK_Py import DataCollector
    m = new_model({"script": {}, "stop": 1, "pop": []})
    for ty, st, es in snap:
        a = m.create_agent(TYPES[ty], {n: {"type": t, "value": v} for n, t, v in es})
        a.state = STATES[st]
    dc = DataCollector()
    dc.collect_agent_statistics(0, m.agents)
    return dc.statistics()[0]


def probe():
    rows = []
    for snap in PROBE_POPS:
        st = real_collect(snap)
        obs = []
        for ty in range(2):
            for s in range(3):
                g = st.get(TYPES[ty], {}).get(STATES[s])
                for p in range(3):
                    r = None if g is None else g.get(PROPS[p])
                    if r is None:
                        obs.append(((ty, s, p), (0 if g is None else g["count"], None, None)))
                        continue
                    den = [d for d in range(1, g["count"] + 1) if r["total"] / d == r["mean"]]
                    den = den[0] if (len(den) == 1 and r["total"] != 0) else 0
                    obs.append(((ty, s, p), (g["count"], (r["total"], r["min"], r["max"]), (r["total"], den))))
        rows.append((snap, obs))
    return rows


SEL_PROBES = [  # (agent type, states, props, aggs) on the history [(1, PROBE_POPS[0]), (2, PROBE_POPS[1])]
    (0, [0, 1, 2], ["x"], ["max", "total", "min"]),      # property mode, s2 never occupied by type a
    (1, [0, 1, 2], [], []),                                # count mode, `active` never occupied by type b
    (0, [1], ["x"], ["min"]),                              # a state that is occupied at t=1 only: no row at t=2
]


def probe_frames():
    """real DataCollector statistics of a two-time history -> real HybridRunner.get_df_for_agent; every cell of the
    returned frame (plus which times have a row, which selected columns exist) as Lean data."""
    from BPTK_Py import DataCollector
    from BPTK_Py.scenariorunners.hybrid_runner import HybridRunner
    dc = DataCollector()
    for t, snap in enumerate(PROBE_POPS + PROBE_POPS[:1], 1):   # t=3 repeats t=1: a/s1 and b/s1 are occupied, empty, occupied again
        m = new_model({"script": {}, "stop": 1, "pop": []})
        for ty, st, es in snap:
            a = m.create_agent(TYPES[ty], {n: {"type": tp, "value": v} for n, tp, v in es})
            a.state = STATES[st]
        dc.collect_agent_statistics(t, m.agents)
    out = []
    for ag, sts, ps, aggs in SEL_PROBES:
        df = HybridRunner(None).get_df_for_agent(dc.statistics(), TYPES[ag], [STATES[i] for i in sts], list(ps), list(aggs))
        cols = [(st, p, a) for st in sts for p in ps for a in aggs] if ps else [(st, None, None) for st in sts]
        cells, present = [], []
        for (st, p, a) in cols:
            name = STATES[st] + (f"_{p}_{a}" if p else "")
            present.append(((st, p, a), name in df.columns))
            for t in (1, 2, 3):
                # a number that is not in the frame (no such row or column) reads as 0: whether an all-empty time gets a row of zeros
                # or no row, and whether a never occupied state gets a column in count mode, is not fixed by the property
                v = df[name][t] if (name in df.columns and t in df.index) else 0
                if float(v) != int(v):
                    raise RuntimeError(f"probe frame holds a non-integer {v!r}")
                cells.append(((st, p, a, t), int(v)))
        out.append({"ag": ag, "states": sts, "props": ps, "aggs": aggs, "cells": cells, "present": present,
                    "index": [(t, t in df.index) for t in (1, 2, 3, 4)]})
    return out


def probe_collectors():
    """wave 9, object identity (no simulation, no threads): the data collectors of the scenarios of ONE manager registered with a live model,
    and the registered model's own collector, renumbered by identity. Returns per registration kind (cids, model cid or None)."""
    out = []
    with Bptk() as bp:
        for with_collector in (True, False):
            case = {"stop": 1, "pop": [(0, [("x", 1.0)])], "script": {}, "tprops": {"0": ["x"], "1": ["x"]}}
            m = None
            nm = bp.register(case, dict(case, pop=[(0, [("x", 2.0)]), (0, [("x", 3.0)])]), with_collector=with_collector)
            with contextlib.redirect_stdout(bp.buf):
                mgr = bp.b.scenario_manager_factory.scenario_managers[nm]
                scs = [bp.b.get_scenario(nm, "sc"), bp.b.get_scenario(nm, "sc2")]
            objs = [sc_.data_collector for sc_ in scs]
            reg = getattr(getattr(mgr, "model", None), "data_collector", None)
            ids = {}
            num = lambda o: ids.setdefault(id(o), len(ids))
            mc = num(reg) if reg is not None else None
            out.append({"registered_model_has_collector": with_collector, "model_cid": mc,
                        "cids": [num(o) if o is not None else -1 for o in objs]})
    return out


def key_collision_evidence():
    """names for which two different (state, property, aggregate) have the same key text: what the real get_df_for_agent returns"""
    from BPTK_Py import Model, Agent, DataCollector, SimultaneousScheduler
    from BPTK_Py.scenariorunners.hybrid_runner import HybridRunner
    m = Model(name="k", scheduler=SimultaneousScheduler(), data_collector=DataCollector())
    m.register_agent_factory("a", lambda i, mod, p: Agent(i, mod, p, "a"))
    for st, xy, y in (("s1", 1.0, 10.0), ("s1_x", 2.0, 20.0)):
        a = m.create_agent("a", {"x_y": {"type": "Double", "value": xy}, "y": {"type": "Double", "value": y}})
        a.state = st
    m.data_collector.collect_agent_statistics(1, m.agents)
    df = HybridRunner(None).get_df_for_agent(m.data_collector.statistics(), "a", ["s1", "s1_x"], ["x_y", "y"], ["total"])
    return {"states": ["s1", "s1_x"], "properties": ["x_y", "y"], "columns": list(df.columns),
            "s1_x_y_total": float(df["s1_x_y_total"][1]), "total of x_y in s1": 1.0, "total of y in s1_x": 20.0,
            "meaning": "outside the domain (keysDistinct = false, key_collision_witness): 3 columns for 4 cells, the later write wins"}


def gen_lean_frames(frames):
    def i(v):
        return f"({v})" if v < 0 else str(v)
    def col(st, p, a):
        return f"⟨{st}, none⟩" if p is None else f"⟨{st}, some ({PROPS.index(p)}, .{a})⟩"
    q = lambda xs: "[" + ", ".join('"%s"' % x for x in xs) + "]"
    out = ["def selHist : History Int := histOf intOps [(1, probePop0), (2, probePop1), (3, probePop0)]",
           f"def stateNames : List String := {q(STATES)}", f"def propNames : List String := {q(PROPS)}",
           "/-- naming condition of the model's domain, for the names this run uses (they contain the separator `_`) -/",
           "theorem keys_distinct : keysDistinct stateNames propNames = true := by decide", "#print axioms keys_distinct"]
    keyrows = []
    for f in frames:
        for (st, p, a), present in f["present"]:
            if present:
                keyrows.append(f"({col(st, p, a)}, \"{STATES[st] + (f'_{p}_{a}' if p else '')}\")")
    out += ["def realKeys : List (Col × String) := [" + ", ".join(keyrows) + "]",
            "/-- the column names of the real frames are the model's key texts -/",
            "theorem key_text_ok : realKeys.all (fun x => renderKey stateNames propNames x.1 == x.2) = true := by decide",
            "#print axioms key_text_ok"]
    for n, f in enumerate(frames):
        sel = "⟨[%d], [%s], [%s], [%s]⟩" % (f["ag"], ", ".join(map(str, f["states"])), ", ".join(str(PROPS.index(p)) for p in f["props"]),
                                           ", ".join("." + a for a in f["aggs"]))
        aggs = "[%s]" % ", ".join("." + a for a in f["aggs"])
        out.append(f"def frame{n} : Frame Int := getDf {sel} {aggs} selHist {f['ag']}")
        out.append(f"def frameCells{n} : List ((Col × Nat) × Int) := [" + ", ".join(
            f"(({col(st, p, a)}, {t}), {i(v)})" for (st, p, a, t), v in f["cells"]) + "]")
        out.append(f"/-- every number of the frame the real get_df_for_agent returned (selection {n}; every selected column at every recorded time, a number "
                   "that is not in the frame read as 0) is the model's cell -/")
        out.append(f"theorem frame_ok{n} : frameCells{n}.all (fun x => numInt (frame{n}.cell x.1.1 x.1.2) == some x.2) = true := by decide")
        out.append(f"#print axioms frame_ok{n}")
    return out


def gen_lean(rows, frames=(), collectors=()):
    def opt(x, f):
        return "none" if x is None else f"some {f(x)}"
    def i(v):
        return f"({v})" if v < 0 else str(v)
    out = ["import Bptk.Props.C13",
           "/-! GENERATED by harness/props/c13.py from /repo on every run — do not edit. -/", "namespace Bptk.C13.Gen",
           "def row (s : Stats Int) (k : Nat × Nat × Nat) : Nat × Option (Int × Int × Int) × Option (Int × Nat) :=",
           "  (countCell s k.1 k.2.1,",
           "   (match aggCell s k.1 k.2.1 k.2.2 .total, aggCell s k.1 k.2.1 k.2.2 .min, aggCell s k.1 k.2.1 k.2.2 .max with",
           "    | some a, some b, some c => some (a, b, c) | _, _, _ => none),",
           "   meanCell s k.1 k.2.1 k.2.2)"]
    for n, (snap, obs) in enumerate(rows):
        pop = ", ".join("⟨%d, %d, [%s]⟩" % (ty, st, ", ".join(
            "⟨%d, %s, %s⟩" % (PROPS.index(nm), "true" if t in ("Integer", "Double") else "false", i(v if t != "String" else 0))
            for nm, t, v in es)) for ty, st, es in snap)
        out.append(f"def probePop{n} : List (Agent Int) := [{pop}]")
        cells = ", ".join("((%d, %d, %d), (%d, %s, %s))" % (k[0], k[1], k[2], c,
                          opt(a, lambda a: f"({i(a[0])}, {i(a[1])}, {i(a[2])})"), opt(mn, lambda mn: f"({i(mn[0])}, {mn[1]})"))
                          for k, (c, a, mn) in obs)
        out.append(f"def observed{n} : List ((Nat × Nat × Nat) × (Nat × Option (Int × Int × Int) × Option (Int × Nat))) := [{cells}]")
        out.append(f"/-- what the real collect_agent_statistics returned on probePop{n} is what the model computes -/")
        out.append(f"theorem probe_ok{n} : observed{n}.all (fun x => row (collect intOps probePop{n}) x.1 == x.2) = true := by decide")
        out.append(f"#print axioms probe_ok{n}")
    out += gen_lean_frames(frames)
    for n, pc in enumerate(collectors or ()):
        cids = "[" + ", ".join(str(c) for c in pc["cids"]) + "]"
        mc = "none" if pc["model_cid"] is None else f"(some {pc['model_cid']})"
        good = len(set(pc["cids"])) == len(pc["cids"]) and pc["model_cid"] not in pc["cids"] and -1 not in pc["cids"]
        out.append(f"/-- identities of the data collectors of the two scenarios of one live-model manager (registered model "
                   f"{'with' if pc['registered_model_has_collector'] else 'without'} a collector), as probed -/")
        out.append(f"theorem collectors_{'distinct' if good else 'shared'}{n} : collectorsDistinct {cids} {mc} = {'true' if good else 'false'} := by decide")
        out.append(f"#print axioms collectors_{'distinct' if good else 'shared'}{n}")
    out += ["theorem holds : C13_full := C13_full_proved", "#print axioms holds", "end Bptk.C13.Gen", ""]
    return "\n".join(out)


# ------------------------------------------------------------------ generators
def gen_value(rng, name):
    if PTYPE[name] == "Integer":
        return rng.range(-20, 20) if rng.below(16) else rng.choice([1, -1]) * (2 ** rng.range(30, 48) + rng.below(5))
    if PTYPE[name] == "String":
        return "s%d" % rng.below(3)
    r = rng.below(16)
    if r == 0:            # wave 7: many decimals (sums are inexact in binary: reference, model and code must do the same operations in the same order)
        return rng.range(-99, 99) / 10.0 + rng.choice([0.0, 1 / 3, 1e-9])
    if r == 1:            # large magnitudes
        return rng.choice([1, -1]) * (2.0 ** rng.range(30, 50) + rng.range(0, 7) / 8.0)
    return rng.range(-64, 64) / 8.0


def gen_case(rng, homogeneous=True, small=False):
    tprops = {ty: [p for p in PROPS if rng.chance(2, 3)] for ty in range(2)}
    def vals(ty):
        ps = tprops[ty] if (homogeneous or rng.chance(2, 3)) else [p for p in tprops[ty] if rng.chance(1, 2)]
        return [(p, gen_value(rng, p)) for p in ps]
    stop = rng.range(1, 3 if small else 6)
    pop = [(ty, vals(ty)) for ty in (rng.below(2) for _ in range(rng.range(0, 4 if small else 9)))]
    script, nxt = {}, len(pop)
    for t in range(1, stop + 1):
        ops = []
        for _ in range(rng.range(0, 4)):
            r = rng.below(10)
            aid = rng.below(nxt + 1)
            if r < 4:
                ops.append(["state", aid, rng.below(3)])
            elif r < 7:
                p = rng.choice(PROPS)
                if PTYPE[p] != "String":
                    ops.append(["value", aid, p, gen_value(rng, p)])
            elif r < 8:
                ops.append(["delete", aid])
            else:
                ty = rng.below(2)
                ops.append(["create", ty, vals(ty)]); nxt += 1
        if ops:
            script[str(t)] = ops
    return {"stop": stop, "pop": pop, "script": script, "tprops": {str(k): v for k, v in tprops.items()}, "homogeneous": homogeneous}


def gen_mid_case(rng, small=False, allow_reset=True):
    """wave 3: the population changes DURING the steps: agents delete themselves / the first, a middle, the last / a later agent or
    create an agent while acting; end_round deletes, creates, reconfigures (configure_agents) or resets the model. The statistics of a
    time must describe the agents live at the end of that step."""
    case = gen_case(rng, homogeneous=True, small=small)
    while len(case["pop"]) < 2:
        ty = rng.below(2)
        case["pop"].append((ty, [(p, gen_value(rng, p)) for p in case["tprops"][str(ty)]]))
    vals = lambda ty: [(p, gen_value(rng, p)) for p in case["tprops"][str(ty)]]
    nxt = len(case["pop"]) + sum(1 for ops in case["script"].values() for o in ops if o[0] == "create")
    mid = {}
    for t in range(1, case["stop"] + 1):
        if not rng.chance(3, 4):
            continue
        ops = []
        for _ in range(rng.range(1, 3)):
            r = rng.below(12 if allow_reset else 11)
            actor = rng.below(nxt)
            if r < 2:
                ops.append(["act_del", actor, actor])                                   # deletes itself
            elif r < 5:
                ops.append(["act_del", actor, rng.choice([0, nxt // 2, nxt - 1, rng.below(nxt)])])
            elif r < 6:
                ops.append(["act_dels", actor, sorted({rng.below(nxt) for _ in range(rng.range(0, 3))})])
            elif r < 7:
                ty = rng.below(2); ops.append(["act_create", actor, ty, vals(ty)]); nxt += 1
            elif r < 9:
                ops.append(["end_del", sorted({rng.below(nxt) for _ in range(rng.range(1, 3))})])
            elif r < 10:
                ty = rng.below(2); ops.append(["end_create", ty, vals(ty)]); nxt += 1
            elif r < 11:
                new = [(ty, vals(ty)) for ty in (rng.below(2) for _ in range(rng.range(0, 3)))]
                ops.append(["end_reconf", new]); nxt += len(new)
            else:
                ops.append(["end_reset"])
        mid[str(t)] = ops
    case["mid"] = mid
    return case


def gen_gap_case(rng):
    """wave 4: agents switch back and forth between states so that a state is occupied, empty at an interior recorded time and occupied again
    later; at some times every agent of a type sits in one state (all others empty), at some times the type has no agent in any of two states."""
    tprops = {0: ["x", "k"], 1: ["x", "k"]}
    stop = rng.range(3, 6)
    pop = [(ty, [("x", gen_value(rng, "x")), ("k", gen_value(rng, "k"))]) for ty in (0,) * rng.range(1, 3) + (1,) * rng.range(0, 2)]
    a_ids = [i for i, (ty, _) in enumerate(pop) if ty == 0]
    script = {}
    two = rng.shuffle([0, 1, 2])[:2]                 # the two states the type-a agents toggle between
    third = [x for x in (0, 1, 2) if x not in two][0]
    prev = None
    for t in range(1, stop + 1):
        mode = rng.below(6)
        if mode <= 1 or (prev is not None and mode == 2):
            st_all = two[(t + (prev or 0)) % 2] if mode != 1 else two[rng.below(2)]     # everybody in one state: the other is empty
            assign = {i: st_all for i in a_ids}
        elif mode == 3:
            assign = {i: third for i in a_ids}                                          # both toggling states empty at this time
        else:
            assign = {i: two[rng.below(2)] for i in a_ids}
        prev = t
        ops = [["state", i, st] for i, st in assign.items()]
        for i, (ty, _) in enumerate(pop):
            if ty == 1 and rng.chance(1, 2):
                ops.append(["state", i, rng.below(3)])
        if rng.chance(1, 3):
            ops.append(["value", rng.below(len(pop)), rng.choice(["x", "k"]), gen_value(rng, "x")])
        script[str(t)] = ops
    return {"stop": stop, "pop": pop, "script": script, "tprops": {str(k): v for k, v in tprops.items()}, "homogeneous": True,
            "gap": [STATES[x] for x in two]}


def gap_selection(rng, case):
    sel = gen_selection(rng, case)
    if TYPES[0] not in sel["agents"]:
        sel["agents"] = [TYPES[0]] + sel["agents"]
    want = list(case["gap"]) if rng.chance(1, 2) else list(STATES)
    sel["states"] = rng.shuffle(sorted(set(sel["states"]) | set(want))) if rng.chance(1, 2) else want
    return sel


def inner_gaps(snaps, ty):
    """number of (state, time) pairs at which the state is empty for the type between two times at which it is occupied"""
    times = sorted(snaps)
    n = 0
    for st in range(len(STATES)):
        occ = [bool(ref_group(snaps[t], ty, st)) for t in times]
        for i in range(1, len(occ) - 1):
            n += (not occ[i]) and any(occ[:i]) and any(occ[i + 1:])
    return n


EDGE_KINDS = ["zero_first", "zero_mid", "equal", "one_per_state", "mixed_types"]


def gen_edge_case(rng, kind=None):
    """populations aimed at the fold's initialisation and comparison steps: a zero / negative zero first in the list
    (then values of one sign), a zero where the running max is 0, all values equal, one agent per (type, state),
    the same property Integer for one agent and Double for the next."""
    kind = kind or rng.choice(EDGE_KINDS)
    tprops = {0: ["x", "k"], 1: ["x", "k", "y_max"]}
    ty = rng.below(2)
    n = rng.range(2, 6)
    sign = rng.choice([1, -1])
    zero = lambda: rng.choice([0.0, -0.0])
    dy = lambda: rng.range(1, 64) / 8.0
    script = {}
    if kind == "zero_first":
        xs = [zero()] + [sign * dy() for _ in range(n - 1)]
        ks = [0] + [sign * rng.range(1, 20) for _ in range(n - 1)]
    elif kind == "zero_mid":
        m = rng.range(1, n - 1)
        xs = [-dy() for _ in range(m)] + [zero()] + [dy() for _ in range(n - m)]
        ks = [-rng.range(1, 20) for _ in range(m)] + [0] + [rng.range(1, 20) for _ in range(n - m)]
    elif kind == "equal":
        v, w = rng.choice([0.0, -0.0, dy(), -dy()]), rng.range(-3, 3)
        xs, ks = [v] * n, [w] * n
    else:
        xs = [rng.choice([zero(), dy(), -dy()]) for _ in range(n)]
        ks = [rng.range(-5, 5) for _ in range(n)]
    def mk(t, x, k, i):
        if kind == "mixed_types":      # x: Double / Integer alternating, k: Integer holding an int or a dyadic float
            vals = [("x", x, "Double") if i % 2 == rng.below(2) else ("x", int(x * 8), "Integer"),
                    ("k", k, "Integer") if rng.chance(1, 2) else ("k", k / 4.0, "Double")]
        else:
            vals = [("x", x), ("k", k)]
        return (t, vals + ([("y_max", gen_value(rng, "y_max"))] if t == 1 else []))
    pop = [mk(ty, xs[i], ks[i], i) for i in range(len(xs))]
    if kind == "one_per_state":
        pop = [mk(i % 2, xs[i % len(xs)], ks[i % len(ks)], i) for i in range(rng.range(2, 6))]
        script["1"] = [["state", i, (i // 2) % 3] for i in range(len(pop))]
    else:
        for _ in range(rng.range(0, 2)):          # a bystander of the other type / another state
            pop.insert(rng.range(0, len(pop)), mk(1 - ty, dy(), rng.range(-5, 5), 0))
        if rng.chance(1, 2):
            script["1"] = [["state", i, rng.below(2)] for i in range(len(pop)) if rng.chance(1, 3)]
    stop = rng.range(1, 2)
    if stop == 2 and rng.chance(1, 2):
        script["2"] = [["value", rng.below(len(pop)), "x", zero()]]
    return {"stop": stop, "pop": pop, "script": script, "tprops": {str(k): v for k, v in tprops.items()},
            "homogeneous": True, "edge": kind}


# ------------------------------------------------------------------ through bptk.run_scenarios
class Bptk:
    def __enter__(self):
        from BPTK_Py.bptk import bptk
        import BPTK_Py.logger.logger as L
        self.hook = threading.excepthook
        threading.excepthook = lambda args: None
        self.buf = io.StringIO()
        with contextlib.redirect_stdout(self.buf):
            self.b = bptk(configuration={"set_scenario_monitor": False, "set_model_monitor": False, "log_modes": []})
        L.loglevel, L.logmodes = "ERROR", []
        self.n = 0
        return self

    def __exit__(self, *a):
        with contextlib.redirect_stdout(self.buf):
            self.b.destroy()
        threading.excepthook = self.hook

    def register(self, case, second=None, with_collector=None):
        """one manager with scenario `sc` (and `sc2` when a second case is given: same model class and script, own population / stop time).
        wave 9: the registered live model carries a DataCollector of its own on every second registration (parameter kind)"""
        self.n += 1
        nm = f"smC13x{self.n}"
        from BPTK_Py import DataCollector
        if with_collector is None:
            with_collector = self.n % 2 == 0
        self.reg_kinds = getattr(self, "reg_kinds", {"model_with_collector": 0, "model_without_collector": 0})
        self.reg_kinds["model_with_collector" if with_collector else "model_without_collector"] += 1
        m = model_class()(name="c13", data_collector=DataCollector() if with_collector else None)
        m._script = {int(k): v for k, v in case["script"].items()}
        m._mid = {int(k): v for k, v in case.get("mid", {}).items()}
        m._snaps = {}
        # the initial population is created by begin of time: configure() wipes agents, so put it into the scenario
        def scen(c):
            return {"runspecs": {"starttime": 1, "stoptime": c["stop"], "dt": 1}, "properties": {},
                    "agents": [{"name": TYPES[ty], "count": 1, "properties": props_dict(vals)} for ty, vals in c["pop"]]}
        scenarios = {"sc": scen(case)}
        if second is not None:
            scenarios["sc2"] = scen(second)
        with contextlib.redirect_stdout(self.buf):
            self.b.register_scenario_manager({nm: {"type": "abm", "model": m, "scenarios": scenarios}})
        return nm

    def query(self, nm, sel, fmt, scenarios=("sc",), managers=None):
        """wave 7 parameter kinds: every third call passes states / properties / aggregate types as comma separated strings (bptk splits
        them), every second call leaves `series_names` to its (mutable, shared) default"""
        self.q = getattr(self, "q", 0) + 1
        as_str = self.q % 3 == 0
        lst = (lambda xs: ",".join(xs) if (as_str and xs) else list(xs))
        kw = {} if self.q % 2 == 0 else {"series_names": {}}
        self.kinds = getattr(self, "kinds", {"comma_strings": 0, "default_series_names": 0})
        self.kinds["comma_strings"] += as_str
        self.kinds["default_series_names"] += not kw
        with contextlib.redirect_stdout(self.buf):
            return self.b.run_scenarios(scenarios=list(scenarios), scenario_managers=list(managers or [nm]), agents=list(sel["agents"]),
                                        agent_states=lst(sel["states"]), agent_properties=lst(sel["props"]),
                                        agent_property_types=lst(sel["aggs"]), equations=[],
                                        progress_bar=False, return_format=fmt, **kw)


def scribble(res, fmt):
    """wave 7: overwrite everything in a returned result (after it was read): results handed out earlier must not be what a later call
    returns (no caching / aliasing of returned frames, series or dictionaries)"""
    try:
        if fmt == "df" and hasattr(res, "iloc"):
            res.iloc[:, :] = -777.0
        elif fmt == "dict" and isinstance(res, dict):
            def walk(d):
                for k, v in d.items():
                    if isinstance(v, dict):
                        walk(v)
                    elif hasattr(v, "iloc"):
                        v.iloc[:] = -777.0
            walk(res)
    except Exception:
        pass


def cells_of(res, fmt, nm, sel, times, sc="sc"):
    """returned object -> {(agent, state, prop|None, agg|None, t): value}; a cell that is not there counts as 0."""
    out = {}
    if res is None:           # "no output data": every selected cell is absent, i.e. counts as 0
        fmt, res = "dict", {}
    def series_get(ser, t):
        if isinstance(ser, dict):
            for k, v in ser.items():
                if float(k) == float(t):
                    return float(v)
            return 0.0
        return float(ser[t]) if t in ser.index else 0.0
    if fmt == "json":
        res = json.loads(res)
    if fmt == "df" and not hasattr(res, "columns"):
        fmt, res = "dict", {}
    for ag in sel["agents"]:
        for st in sel["states"]:
            for t in times:
                if sel["props"]:
                    for p in sel["props"]:
                        for agg in sel["aggs"]:
                            if fmt == "df":
                                col = f"{nm}_{sc}_{ag}_{st}_{p}_{agg}"
                                v = float(res[col][t]) if (col in res.columns and t in res.index) else 0.0
                            else:
                                node = res.get(nm, {}).get(sc, {}).get("agents", {}).get(ag, {}).get(st, {}).get("properties", {}).get(p, {})
                                v = series_get(node[agg], t) if agg in node else 0.0
                            out[(ag, st, p, agg, t)] = v
                else:
                    if fmt == "df":
                        col = f"{nm}_{sc}_{ag}_{st}"
                        v = float(res[col][t]) if (col in res.columns and t in res.index) else 0.0
                    else:
                        node = res.get(nm, {}).get(sc, {}).get("agents", {}).get(ag, {})
                        v = series_get(node[st], t) if st in node else 0.0
                    out[(ag, st, None, None, t)] = v
    return out


def gen_selection(rng, case):
    agents = [TYPES[i] for i in range(2) if rng.chance(2, 3)] or [TYPES[rng.below(2)]]
    states = rng.shuffle([s for s in STATES if rng.chance(2, 3)] or [STATES[rng.below(3)]])      # wave 7: any listing order
    common_num = [p for p in PROPS if PTYPE[p] != "String" and all(p in case["tprops"][str(TYPES.index(a))] for a in agents)]
    if common_num and rng.chance(2, 3):
        props = rng.shuffle([p for p in common_num if rng.chance(2, 3)] or [rng.choice(common_num)])
        aggs = rng.shuffle([a for a in AGGS if rng.chance(2, 3)] or [rng.choice(AGGS)])
    else:
        props, aggs = [], []
    return {"agents": agents, "states": states, "props": props, "aggs": aggs}


def bptk_check(bp, case, sels, req, real_lines, fmts=("df", "dict", "json")):
    """runs the case through bptk, checks every selection in the three formats against the reference, and
    appends model requests / implementation replies for the cells. Returns None or (key, text, replay)."""
    nm = bp.register(case)
    first = None
    snaps = None
    for sel in sels:
        per_fmt = {}
        for fmt in fmts:
            try:
                res = bp.query(nm, sel, fmt)
            except Exception as e:
                key = "empty-state-keyerror" if (isinstance(e, KeyError) and any(str(e).strip("'").startswith(s_ + "_") for s_ in sel["states"])) else "run_scenarios-raises"
                return (key, f"run_scenarios(agents={sel['agents']}, agent_states={sel['states']}, agent_properties={sel['props']}, "
                        f"agent_property_types={sel['aggs']}, return_format={fmt!r}) raises {type(e).__name__}: {e}", {"case": case, "selection": sel, "format": fmt})
            if snaps is None:
                with contextlib.redirect_stdout(bp.buf):
                    snaps = bp.b.get_scenario(nm, "sc")._snaps
            times = sorted(snaps)
            if not times:
                continue
            cells = cells_of(res, fmt, nm, sel, times)
            scribble(res, fmt)
            per_fmt[fmt] = cells
            for (ag, st, p, agg, t), v in cells.items():
                want = ref_cell(snaps[t], TYPES.index(ag), STATES.index(st), p, agg)
                if want is not None and v != float(want) and first is None:
                    what = f"{agg} of {p}" if p else "count"
                    first = ("run_scenarios-cell", f"run_scenarios(..., return_format={fmt!r}) reports {what} = {v!r} for {ag}/{st} at t={t}, "
                             f"the population gives {want!r}", {"case": case, "selection": sel, "format": fmt})
        if per_fmt and len({json.dumps(sorted((repr(k), v) for k, v in c.items())) for c in per_fmt.values()}) != 1 and first is None:
            first = ("formats-disagree", f"df/dict/json disagree for selection {sel}", {"case": case, "selection": sel})
        # wave 2: the runner model on the whole statistics history, per format
        if per_fmt:
            req.append("hclear"); real_lines.append("ok")
            for t in sorted(snaps):
                req.append(f"hadd {int(t)} {enc_pop(snaps[t])}"); real_lines.append("ok")
            for fmt, cells in per_fmt.items():
                emit_run_reads(req, real_lines, fmt, sel, cells)
        # the model's cells for this selection (df values)
        if "df" in per_fmt:
            for t in sorted(snaps):
                req.append("collect " + enc_pop(snaps[t])); real_lines.append("ok")
                for (ag, st, p, agg, tt), v in per_fmt["df"].items():
                    if tt != t:
                        continue
                    ty, s_ = TYPES.index(ag), STATES.index(st)
                    if p is None:
                        req.append(f"count {ty} {s_}"); real_lines.append(str(int(v)))
                    else:
                        req.append(f"cell {ty} {s_} {PROPS.index(p)} {agg}"); real_lines.append(fbits(v))
    return first


def _lst(xs, names):
    return ",".join(str(names.index(x)) for x in xs) or "-"


def run_req(fmt, sel):
    return f"run {fmt} {_lst(sel['agents'], TYPES)} {_lst(sel['states'], STATES)} {_lst(sel['props'], PROPS)} {','.join(sel['aggs']) or '-'}"


def read_req(ag, st, p, agg, t):
    return f"read {TYPES.index(ag)} {STATES.index(st)} {PROPS.index(p) if p else '-'} {agg or '-'} {int(t)}"


def emit_run_reads(req, real_lines, fmt, sel, cells):
    """model side of one returned result: `run` must return, every selected cell must read the same bits"""
    req.append(run_req(fmt, sel)); real_lines.append("ok")
    for (ag, st, p, agg, t), v in cells.items():
        req.append(read_req(ag, st, p, agg, t)); real_lines.append(fbits(v))


def session_check(bp, case, sel, req, real_lines):
    """the same scenario stepped through begin_session / run_step (HybridRunner.run_scenario_step, json): after every
    step the cells of all times so far are checked against the reference and handed to the model."""
    nm = bp.register(case)
    first = None
    with contextlib.redirect_stdout(bp.buf):
        bp.b.begin_session(scenarios=["sc"], scenario_managers=[nm], agents=list(sel["agents"]), agent_states=list(sel["states"]),
                           agent_properties=list(sel["props"]), agent_property_types=list(sel["aggs"]), starttime=1.0)
    req.append("hclear"); real_lines.append("ok")
    steps = 0
    try:
        for k in range(1, case["stop"] + 1):
            try:
                with contextlib.redirect_stdout(bp.buf):
                    r = bp.b.run_step()
            except Exception as e:
                key = "empty-state-keyerror" if (isinstance(e, KeyError) and any(str(e).strip("'").startswith(s_ + "_") for s_ in sel["states"])) else "run_step-raises"
                return steps, (key, f"session run_step #{k} (agents={sel['agents']}, agent_states={sel['states']}, agent_properties={sel['props']}, "
                               f"agent_property_types={sel['aggs']}) raises {type(e).__name__}: {e}", {"case": case, "selection": sel, "format": "session"})
            steps += 1
            with contextlib.redirect_stdout(bp.buf):
                snaps = bp.b.get_scenario(nm, "sc")._snaps
            times = sorted(snaps)
            if len(times) != k or float(times[-1]) != float(k):
                return steps, ("session-times", f"after {k} session steps the statistics were collected at {times}", {"case": case, "selection": sel, "format": "session"})
            req.append(f"hadd {k} {enc_pop(snaps[times[-1]])}"); real_lines.append("ok")
            res = r.get(nm) if isinstance(r, dict) else None
            cells = cells_of(res if isinstance(res, dict) else None, "dict", nm, sel, times)
            for (ag, st, p, agg, t), v in cells.items():
                want = ref_cell(snaps[t], TYPES.index(ag), STATES.index(st), p, agg)
                if want is not None and v != float(want) and first is None:
                    what = f"{agg} of {p}" if p else "count"
                    first = ("run_step-cell", f"session step #{k} reports {what} = {v!r} for {ag}/{st} at t={t}, the population gives {want!r}",
                             {"case": case, "selection": sel, "format": "session"})
            emit_run_reads(req, real_lines, "json", sel, cells)
    finally:
        with contextlib.redirect_stdout(bp.buf):
            bp.b.end_session()
    return steps, first


def two_scenario_check(bp, case, second, sel, req, real_lines):
    """wave 6: two scenarios of one manager in ONE run_scenarios call (own populations, own stop times): every selected cell of either
    scenario must be the number of that scenario's population at that time, in df, dict and json; the model treats each scenario as its
    own run (hadd/run/read). Returns None or (key, text, replay)."""
    nm = bp.register(case, second)
    first = None
    results = {}
    for fmt in ("df", "dict", "json"):
        try:
            results[fmt] = bp.query(nm, sel, fmt, scenarios=("sc", "sc2"))
        except Exception as e:
            return ("run_scenarios-raises", f"run_scenarios(scenarios=['sc','sc2'], agents={sel['agents']}, agent_states={sel['states']}, "
                    f"agent_properties={sel['props']}, agent_property_types={sel['aggs']}, return_format={fmt!r}) raises {type(e).__name__}: {e}",
                    {"case": case, "second": second, "selection": sel, "format": fmt})
    for sc in ("sc", "sc2"):
        with contextlib.redirect_stdout(bp.buf):
            snaps = bp.b.get_scenario(nm, sc)._snaps
        times = sorted(snaps)
        if not times:
            continue
        req.append("hclear"); real_lines.append("ok")
        for t in times:
            req.append(f"hadd {int(t)} {enc_pop(snaps[t])}"); real_lines.append("ok")
        for fmt in ("df", "dict", "json"):
            cells = cells_of(results[fmt], fmt, nm, sel, times, sc=sc)
            for (ag, st, p, agg, t), v in cells.items():
                want = ref_cell(snaps[t], TYPES.index(ag), STATES.index(st), p, agg)
                if want is not None and v != float(want) and first is None:
                    what = f"{agg} of {p}" if p else "count"
                    first = ("run_scenarios-cell", f"run_scenarios(scenarios=['sc','sc2'], agents={sel['agents']}, ..., return_format={fmt!r}) reports "
                             f"{what} = {v!r} for scenario {sc}, {ag}/{st} at t={t}, the population gives {want!r}",
                             {"case": case, "second": second, "selection": sel, "format": fmt})
            emit_run_reads(req, real_lines, fmt, sel, cells)
    return first


def two_manager_check(bp, case, second, sel, req, real_lines):
    """wave 7: two scenario managers (each with its scenario `sc`, own population and stop time) in ONE run_scenarios call; every
    selected cell of either manager, at every time recorded for it, in df, dict and json. Returns None or (key, text, replay)."""
    n1, n2 = bp.register(case), bp.register(second)
    first = None
    results = {}
    for fmt in ("df", "dict", "json"):
        try:
            results[fmt] = bp.query(n1, sel, fmt, managers=[n1, n2])
        except Exception as e:
            return ("run_scenarios-raises", f"run_scenarios(scenario_managers=[m1, m2], agents={sel['agents']}, ..., return_format={fmt!r}) raises "
                    f"{type(e).__name__}: {e}", {"case": case, "second_manager": second, "selection": sel, "format": fmt})
    for which, nm in (("first", n1), ("second", n2)):
        with contextlib.redirect_stdout(bp.buf):
            snaps = bp.b.get_scenario(nm, "sc")._snaps
        times = sorted(snaps)
        if not times:
            continue
        req.append("hclear"); real_lines.append("ok")
        for t in times:
            req.append(f"hadd {int(t)} {enc_pop(snaps[t])}"); real_lines.append("ok")
        for fmt in ("df", "dict", "json"):
            cells = cells_of(results[fmt], fmt, nm, sel, times)
            for (ag, st, p, agg, t), v in cells.items():
                want = ref_cell(snaps[t], TYPES.index(ag), STATES.index(st), p, agg)
                if want is not None and v != float(want) and first is None:
                    what = f"{agg} of {p}" if p else "count"
                    first = ("two-managers-df-rows-lost" if fmt == "df" else "run_scenarios-cell",
                             f"run_scenarios(scenario_managers=[m1, m2], ..., return_format={fmt!r}) reports {what} = {v!r} for the {which} manager, "
                             f"{ag}/{st} at t={t}, the population gives {want!r} (stop times {case['stop']} and {second['stop']})",
                             {"case": case, "second_manager": second, "selection": sel, "format": fmt})
            emit_run_reads(req, real_lines, fmt, sel, cells)
    return first


def isolation_cases(rng):
    """wave 9: two scenarios of one live-model manager whose populations differ at EVERY time in the selected cells (sc2 = sc plus three
    more agents of type a and two of type b, never touched by the script): if the scenarios shared anything (one data collector), at most
    one of them could be right at any time — so the outcome does not depend on thread timing."""
    mk = lambda ty: (ty, [("x", gen_value(rng, "x")), ("k", gen_value(rng, "k"))])
    na, nb = rng.range(1, 2), rng.range(1, 2)
    pop = [mk(0) for _ in range(na)] + [mk(1) for _ in range(nb)]
    stop = rng.range(2, 4)
    script = {str(t): [["state", rng.below(len(pop)), rng.below(3)]] for t in range(1, stop + 1)}
    tp = {"0": ["x", "k"], "1": ["x", "k"]}
    a = {"stop": stop, "pop": pop, "script": script, "tprops": tp, "homogeneous": True}
    b = {"stop": stop + rng.range(-1, 1), "pop": pop + [mk(0), mk(0), mk(0), mk(1), mk(1)], "script": {}, "tprops": tp, "homogeneous": True}
    sels = [{"agents": list(TYPES), "states": list(STATES), "props": [], "aggs": []},
            {"agents": rng.shuffle(list(TYPES)), "states": rng.shuffle(list(STATES)), "props": ["x"], "aggs": ["total", "max"]}]
    return a, b, sels


def isolation_check(bp, a, b, sel, mode, with_collector, req, real_lines):
    """mode "together": both scenarios in one run_scenarios call (the runner simulates them in threads); mode "sequential": scenario sc in
    all formats first, then sc2 — each must have been simulated over its own run specs and report its own population.
    Returns None or (key, text, replay)."""
    nm = bp.register(a, b, with_collector=with_collector)
    rp = {"case": a, "isolation_second": b, "selection": sel, "format": mode, "registered_model_has_collector": with_collector}
    results = {}
    order = [("sc", "sc2")] if mode == "together" else [("sc",), ("sc2",)]
    raised = None
    for scs in order:
        for fmt in ("df", "dict", "json"):
            try:
                results[(scs, fmt)] = bp.query(nm, sel, fmt, scenarios=scs)
            except Exception as e:
                raised = raised or f"run_scenarios(scenarios={list(scs)}, return_format={fmt!r}) raises {type(e).__name__}: {e}"
                results[(scs, fmt)] = None
    first = None
    for sc, c in (("sc", a), ("sc2", b)):
        with contextlib.redirect_stdout(bp.buf):
            snaps = bp.b.get_scenario(nm, sc)._snaps
        want_times = [float(t) for t in range(1, c["stop"] + 1)]
        if sorted(float(t) for t in snaps) != want_times:
            return ("scenario-not-simulated", f"two scenarios of one manager queried {mode}: scenario {sc} was simulated at the times {sorted(snaps)}, "
                    f"its run specs give {want_times}" + (f"; {raised}" if raised else ""), rp)
    if raised:
        return ("run_scenarios-raises", f"two scenarios of one manager queried {mode}: {raised}", rp)
    for sc, c in (("sc", a), ("sc2", b)):
        with contextlib.redirect_stdout(bp.buf):
            snaps = bp.b.get_scenario(nm, sc)._snaps
        scs = ("sc", "sc2") if mode == "together" else (sc,)
        req.append("hclear"); real_lines.append("ok")
        for t in sorted(snaps):
            req.append(f"hadd {int(t)} {enc_pop(snaps[t])}"); real_lines.append("ok")
        for fmt in ("df", "dict", "json"):
            cells = cells_of(results[(scs, fmt)], fmt, nm, sel, sorted(snaps), sc=sc)
            for (ag, st, p, agg, t), v in cells.items():
                want = ref_cell(snaps[t], TYPES.index(ag), STATES.index(st), p, agg)
                if want is not None and v != float(want) and first is None:
                    what = f"{agg} of {p}" if p else "count"
                    first = ("scenario-statistics-not-its-own", f"two scenarios of one manager queried {mode} (return_format={fmt!r}): scenario {sc} reports "
                             f"{what} = {v!r} for {ag}/{st} at t={t}, its population gives {want!r}", rp)
            emit_run_reads(req, real_lines, fmt, sel, cells)
    return first


def gen_flux_case(rng):
    """wave 6: agent types appear and disappear during the run: at some recorded times a type has no agent at all (no row for it), the
    first listed type is absent while a later listed one is present, and vice versa."""
    tprops = {0: ["x", "k"], 1: ["x", "k"]}
    stop = rng.range(3, 6)
    mk = lambda ty: (ty, [("x", gen_value(rng, "x")), ("k", gen_value(rng, "k"))])
    first_ty = rng.below(2)
    pop = [mk(first_ty) for _ in range(rng.range(1, 2))]
    ids = {first_ty: list(range(len(pop))), 1 - first_ty: []}
    nxt = len(pop)
    script = {}
    for t in range(1, stop + 1):
        ops = []
        for ty in (0, 1):
            r = rng.below(4)
            if r == 0 and ids[ty]:                       # the whole type disappears
                ops += [["delete", i] for i in ids[ty]]; ids[ty] = []
            elif r == 1 or (r == 2 and not ids[ty]):     # an agent of the type appears
                ops.append(["create", ty, mk(ty)[1]]); ids[ty].append(nxt); nxt += 1
            elif ids[ty]:
                ops.append(["state", rng.choice(ids[ty]), rng.below(3)])
        script[str(t)] = ops
    return {"stop": stop, "pop": pop, "script": script, "tprops": {str(k): v for k, v in tprops.items()}, "homogeneous": True, "flux": True}


def both_orders(sels):
    """every request that names both agent types also with the types listed the other way round"""
    out = []
    for sel in sels:
        out.append(sel)
        if len(sel["agents"]) > 1:
            out.append(dict(sel, agents=list(reversed(sel["agents"]))))
    return out


def shrink_bptk(key, rp):
    """greedy deletion (trailing times, script operations, mid-step operations, agents, selected agents / states / properties / aggregate
    types) while run_scenarios / the session still reports a finding of the same class; returns (text, replay) of the smallest one."""
    case, sel, fmt = json.loads(json.dumps(rp["case"])), dict(rp["selection"]), rp.get("format")
    best = [None]
    with Bptk() as bp:
        def fails(c, sl):
            try:
                if fmt == "session":
                    v = session_check(bp, c, sl, [], [])[1]
                else:
                    v = bptk_check(bp, c, [sl], [], [], fmts=(fmt,) if fmt else ("df", "dict", "json"))
            except Exception:
                return False
            if v is not None and v[0] == key:
                best[0] = v
                return True
            return False
        if not fails(case, sel):
            return None
        changed, budget = True, 400
        while changed and budget > 0:
            changed = False
            cands = []
            if case["stop"] > 1:
                cands.append((dict(case, stop=case["stop"] - 1), sel))
            for field in ("script", "mid"):
                for t, ops in (case.get(field) or {}).items():
                    for i in range(len(ops)):
                        d = dict(case[field]); d[t] = ops[:i] + ops[i + 1:]
                        cands.append((dict(case, **{field: d}), sel))
            for f in ("agents", "states", "props", "aggs"):
                for i in range(len(sel[f])):
                    if len(sel[f]) > 1:
                        cands.append((case, dict(sel, **{f: sel[f][:i] + sel[f][i + 1:]})))
            for i in range(len(case["pop"]) - 1, -1, -1):        # removing an agent renumbers the later ones: only from the end is id-stable
                if i == len(case["pop"]) - 1:
                    cands.append((dict(case, pop=case["pop"][:i]), sel))
            for c, sl in cands:
                budget -= 1
                if budget <= 0:
                    break
                if fails(c, sl):
                    case, sel, changed = c, sl, True
                    break
    v = best[0]
    return v[1], v[2]


def shrink_stat_case(case):
    """greedy deletion of initial agents / script operations / trailing times while Model.statistics() still fails."""
    def fails(c):
        m = new_model(c)
        try:
            m.run()
        except Exception:
            return False
        return check_statistics(m) is not None
    case = json.loads(json.dumps(case))
    changed = True
    while changed:
        changed = False
        cands = []
        if case["stop"] > 1:
            cands.append(dict(case, stop=case["stop"] - 1))
        for t, ops in case["script"].items():
            for i in range(len(ops)):
                sc = dict(case["script"]); sc[t] = ops[:i] + ops[i + 1:]
                cands.append(dict(case, script=sc))
        for t, ops in case.get("mid", {}).items():
            for i in range(len(ops)):
                md = dict(case["mid"]); md[t] = ops[:i] + ops[i + 1:]
                cands.append(dict(case, mid=md))
        if not any(case["script"].values()) and not any(case.get("mid", {}).values()):
            for i in range(len(case["pop"])):
                cands.append(dict(case, pop=case["pop"][:i] + case["pop"][i + 1:]))
        for c in cands:
            if fails(c):
                case, changed = c, True
                break
    return case


# ------------------------------------------------------------------ the check
def run(chk):
    quiet_bptk_logging()
    rows = probe()
    chk.notes["probe"] = [{"population": s, "observed_cells": len(o)} for s, o in rows]
    frames = probe_frames()
    chk.notes["probe_frames"] = [{"agent": TYPES[f["ag"]], "states": f["states"], "props": f["props"], "aggs": f["aggs"],
                                  "cells": len(f["cells"]), "rows_at": [t for t, b in f["index"] if b]} for f in frames]
    try:
        chk.notes["column_key_collision"] = key_collision_evidence()
    except Exception as e:
        chk.notes["column_key_collision"] = f"probe raised {type(e).__name__}: {e}"
    try:
        collectors = probe_collectors()
    except Exception as e:
        collectors = []
        chk.notes["collector_probe_error"] = f"{type(e).__name__}: {e}"
    chk.notes["collector_identities"] = collectors
    shared = [pc for pc in collectors if len(set(pc["cids"])) != len(pc["cids"]) or pc["model_cid"] in pc["cids"] or -1 in pc["cids"]]
    ok, why = chk.prove(gen_lean(rows, frames, collectors))
    chk.cov["trusted_base"] = [
        "Lean 4.33 kernel; axioms propext, Classical.choice, Quot.sound (audited per run via #print axioms)",
        "hand-written model lean/Bptk/Core/C13.lean of DataCollector.collect_agent_statistics (left fold, carrier-generic) and of the zero-filled "
        "cells HybridRunner reports; tied to /repo by the kernel-checked probe obligations probe_ok* (real collector output on Int populations "
        "= model) and by the correspondence of this check",
        "pandas frame assembly, Series.to_dict and json.dumps in HybridRunner.run_scenario / bptk.run_scenarios are not modelled; they are checked "
        "only through the returned cells (an absent row/column counts as 0)",
        "value-level theorems are over Int (C13_int) and over every linearly ordered field, instantiated at ℚ (C13_field / C13_rat: total = sum, "
        "min/max = least/greatest element, mean = the quotient total/count = sum / number of agents, arithmetic mean between min and max, single-agent "
        "group); for doubles the carrier-generic theorem stat_spec fixes the operation tree, and the driver runs the same definitions on Float",
        "hand-written model of HybridRunner.get_df_for_agent / run_scenario / run_scenario_step (getDf, runOut, readOut): pandas' DataFrame(dict of dicts)"
        ".fillna(0), concat(axis=1).fillna(0), Series.to_dict are modelled by their cell semantics (value written for (time, column), else 0; row index = "
        "times with an agent in a selected state); tied by the kernel-checked obligations frame_ok* (every cell, the row index and the column set of the "
        "real get_df_for_agent on a two-time Int history) and by the run/read correspondence in df, dict, json and stepwise sessions",
    ]
    chk.assumptions = ["numeric property = an entry of agent.properties whose type is Integer or Double",
                       "domain of the mean clause: every agent of the (type, state) group carries the property (DESIGN §7 C13); outside it the "
                       "reported mean is total/count at the last carrier and depends on the agent order — reported in evidence, no violation",
                       "selections name numeric properties that the selected agent types carry",
                       "no NaN values; at most 2^53 agents"]
    rng = chk.rng.fork("c13")
    # ---- (A) Model.statistics() on generated populations and histories
    cases = [gen_case(rng, homogeneous=rng.chance(3, 4)) for _ in range(150 if chk.quick else 3000)]
    cases += [gen_edge_case(rng, kind) for kind in EDGE_KINDS for _ in range(12 if chk.quick else 200)]
    cases += [gen_mid_case(rng) for _ in range(80 if chk.quick else 1500)]
    req, real_lines, owner = [], [], []
    first = None
    dist = {"cases": 0, "edge_cases": {k: 0 for k in EDGE_KINDS}, "zero_first_groups": 0, "all_equal_groups": 0, "single_agent_groups": 0,
            "mixed_type_groups": 0, "midstep_cases": 0, "midstep_ops": 0, "step_ops_replayed": 0, "oplog_fallbacks": 0, "times": 0, "agents_seen": 0, "groups_with_4_distinct_numbers": 0, "inhomogeneous_groups": 0, "empty_population_times": 0}
    order_dep = None
    for ci, case in enumerate(cases):
        m = new_model(case)
        m.run()
        stats = m.statistics()
        v = check_statistics(m)
        if v and first is None:
            first = ("statistics", v, {"case": case})
        nontriv = False
        wipe = getattr(m, "_wipe_before", None)
        for t in sorted(m._snaps):
            if wipe is not None and t < wipe:      # recorded before a Model.reset(): wiped, nothing to compare
                continue
            snap = m._snaps[t]
            req += ["collect " + enc_pop(snap), "stats"]
            real_lines += ["ok", canon_stats_real(stats.get(t, {}))]
            owner += [ci, ci]
            # wave 3: the model computes the end-of-step population itself from the population at the start of the step and the
            # operations the callbacks performed (collectStep)
            req += [f"stepcollect {enc_ipop(m._start[t])} {enc_ops(m._ops[t])}", "stats"]
            real_lines += ["ok", canon_stats_real(stats.get(t, {}))]
            owner += [ci, ci]
            dist["step_ops_replayed"] += len(m._ops[t])
            dist["times"] += 1
            dist["agents_seen"] += len(snap)
            dist["empty_population_times"] += not snap
            for ty in range(2):
                for st in range(3):
                    ms = ref_group(snap, ty, st)
                    dist["single_agent_groups"] += len(ms) == 1
                    for p in PROPS:
                        vals = [x for es in ms for (n, tp, x) in es if n == p and tp in ("Integer", "Double")]
                        tps = {tp for es in ms for (n, tp, x) in es if n == p and tp in ("Integer", "Double")}
                        dist["mixed_type_groups"] += len(tps) == 2
                        dist["zero_first_groups"] += len(vals) > 1 and vals[0] == 0 and any(v != 0 for v in vals)
                        dist["all_equal_groups"] += len(vals) > 1 and len(set(vals)) == 1
                        if vals and len(vals) != len(ms):
                            dist["inhomogeneous_groups"] += 1
                        if len(vals) == len(ms) and len(ms) > 1 and len({fsum_lr(vals), min(vals), max(vals), fsum_lr(vals) / len(vals)}) == 4:
                            dist["groups_with_4_distinct_numbers"] += 1
                            nontriv = True
        dist["cases"] += 1
        dist["oplog_fallbacks"] += getattr(m, "_oplog_fallbacks", 0)
        if case.get("edge"):
            dist["edge_cases"][case["edge"]] += 1
            nontriv = True
        if case.get("mid"):
            dist["midstep_cases"] += 1
            dist["midstep_ops"] += sum(len(v) for v in case["mid"].values())
            nontriv = True
        chk.case(json.dumps(case, sort_keys=True), nontrivial=nontriv,
                 sample=case if (nontriv and len(json.dumps(case)) < 700) else None)
    # out-of-domain evidence: same agents, two orders, different reported mean
    a1 = [(0, 0, [("x", "Double", 4.0)]), (0, 0, []), (0, 0, [])]
    r1 = real_collect(a1)["a"]["active"]["x"]["mean"]
    r2 = real_collect(list(reversed(a1)))["a"]["active"]["x"]["mean"]
    chk.notes["out_of_domain_mean_order_dependence"] = {"agents": "x=4.0, (no x), (no x)", "mean_in_this_order": r1, "mean_reversed": r2}
    for snap in (a1, list(reversed(a1))):
        req += ["collect " + enc_pop(snap), "stats"]
        real_lines += ["ok", canon_stats_real({"a": real_collect(snap)["a"]})]
        owner += [None, None]
    # ---- (B) through bptk.run_scenarios, three formats, generated selections
    nb = 24 if chk.quick else 300
    bdist = {"scenarios": 0, "selections": 0, "count_mode": 0, "property_mode": 0, "sessions": 0, "session_steps": 0,
             "gap_scenarios": 0, "flux_scenarios": 0, "multi_type_selections": 0, "two_scenario_calls": 0, "two_manager_calls": 0, "inner_gaps_state_time": 0, "times_all_selected_states_empty": 0}
    with Bptk() as bp:
        for bi in range(nb):
            if bi % 4 == 3:          # wave 6: types appearing / disappearing, both types requested, both listing orders
                case = gen_flux_case(rng)
                sels = [dict(gen_selection(rng, case), agents=rng.shuffle(list(TYPES))) for _ in range(2)]
                bdist["flux_scenarios"] += 1
            elif bi % 2 == 1:          # wave 4: states that empty at an interior recorded time and are occupied again later
                case = gen_gap_case(rng)
                sels = [gap_selection(rng, case) for _ in range(3)]
                bdist["gap_scenarios"] += 1
            else:
                case = (gen_edge_case(rng) if bi % 6 == 4 else gen_mid_case(rng, small=True, allow_reset=False) if bi % 6 == 2
                        else gen_case(rng, homogeneous=True, small=True))
                sels = [gen_selection(rng, case) for _ in range(3)]
            sels = both_orders(sels)
            bdist["multi_type_selections"] += sum(1 for s_ in sels if len(s_["agents"]) > 1)
            bdist["scenarios"] += 1
            bdist["selections"] += len(sels)
            bdist["count_mode"] += sum(1 for s in sels if not s["props"])
            bdist["property_mode"] += sum(1 for s in sels if s["props"])
            n0 = len(req)
            v = bptk_check(bp, case, sels, req, real_lines)
            # the same scenario as a stepwise session (begin_session / run_step -> HybridRunner.run_scenario_step)
            nsteps, v2 = session_check(bp, case, sels[bi % len(sels)], req, real_lines)
            if bi % 4 in (0, 3):     # wave 6: two scenarios in one call
                second = gen_flux_case(rng) if bi % 4 == 3 else gen_gap_case(rng)
                second = dict(second, script={}, mid={})      # sc2 runs the same script as sc (one model); only its population / stop differ
                second["stop"] = case["stop"] + rng.range(-1, 1) if case["stop"] > 1 else case["stop"]
                msel = next((s_ for s_ in sels if len(s_["agents"]) > 1), sels[0])
                if all(p_ in second["tprops"][str(TYPES.index(a_))] and p_ in case["tprops"][str(TYPES.index(a_))]
                       for p_ in msel["props"] for a_ in msel["agents"]):
                    v3 = two_scenario_check(bp, case, second, msel, req, real_lines)
                    bdist["two_scenario_calls"] += 1
                    v2 = v2 or v3
                    # wave 7: the same pair as two scenario managers in one call, longer and shorter one first
                    pair = (case, second) if bi % 8 < 4 else (second, case)
                    v4 = two_manager_check(bp, dict(pair[0], script={}, mid={}), pair[1], msel, req, real_lines)
                    bdist["two_manager_calls"] += 1
                    v2 = v2 or v4
            bdist["sessions"] += 1
            bdist["session_steps"] += nsteps
            owner += [("bptk", case, sels)] * (len(req) - n0)
            try:
                with contextlib.redirect_stdout(bp.buf):
                    sn = bp.b.get_scenario(f"smC13x{bp.n}", "sc")._snaps
                for ty in range(2):
                    bdist["inner_gaps_state_time"] += inner_gaps(sn, ty)
                for sel in sels:
                    for ag in sel["agents"]:
                        bdist["times_all_selected_states_empty"] += sum(
                            1 for t in sn if not any(ref_group(sn[t], TYPES.index(ag), STATES.index(st)) for st in sel["states"]))
            except Exception:
                pass
            chk.case(("bptk", json.dumps(case, sort_keys=True), json.dumps(sels)), nontrivial=True)
            if (v or v2) and first is None:
                first = v or v2
    # ---- wave 9: isolation of the scenarios of one manager, deterministic (together and one after the other, both registration kinds)
    bdist["isolation_checks"] = 0
    with Bptk() as bp2:
        for rep in range(2 if chk.quick else 10):
            a_, b_, isels = isolation_cases(rng)
            for mode in ("sequential", "together"):
                for wc in (True, False):
                    n0 = len(req)
                    v = isolation_check(bp2, a_, b_, isels[(rep + wc) % 2], mode, wc, req, real_lines)
                    owner += [("isolation", a_, b_, mode, wc)] * (len(req) - n0)
                    bdist["isolation_checks"] += 1
                    chk.case(("isolation", json.dumps(a_, sort_keys=True), mode, wc, rep), nontrivial=True)
                    if v and (first is None or shared):
                        if first is None or first[0] not in ("scenario-not-simulated", "scenario-statistics-not-its-own"):
                            first = v
    bdist["registration_kinds"] = getattr(bp, "reg_kinds", {})
    bdist["parameter_kinds"] = getattr(bp, "kinds", {})
    dist.update(bdist)
    chk.cov["input_distribution"] = dist
    chk.cov["rule"] = ("wave 4: + every second bptk scenario lets agents switch back and forth between states so that a selected state is occupied, "
                       "empty at an interior recorded time and occupied again, with times at which every selected state is empty (run_scenarios df / dict / "
                       "json and stepwise session; numbers are read by label, a number that is not in the result counts as 0, so row order, dtype and "
                       "all-zero rows do not matter); findings through run_scenarios are shrunk (times, script operations, agents, selection); wave 3: + "
                       "populations that change during a step; wave 2: + edge populations (zero / negative zero first in the list followed by values of one sign, a zero where the running max is 0, "
                       "all values equal, one agent per (type, state), the same property Integer for one agent and Double for the next); every bptk scenario is "
                       "also handed to the runner model as a statistics history (hadd) and each returned result (df, dict, json; and the json result of every "
                       "begin_session/run_step step) is compared cell by cell, bit exact, with `run`+`read` of the model; || "
                       "seeded random populations (0–8 initial agents of 2 types, properties x,y Double / k Integer / nm String with dyadic, negative and zero "
                       "values) and histories over 1–6 recorded times (state changes, value changes, deletions, creations in begin_round); every recorded "
                       "time is compared: Model.statistics() vs model (bit exact) and vs the Python reference; 1/4 of the cases are inhomogeneous "
                       "(model-vs-implementation only for the mean there); plus scenarios through bptk.run_scenarios with 3 random selections of "
                       "agents/states/properties/aggregate types each, in df, dict and json; a case is the canonical JSON; non-trivial = some group of ≥2 "
                       "agents whose total, min, max and mean are four different numbers")
    dist["runner_model_runs"] = sum(1 for r in req if r.startswith("run "))
    dist["runner_model_reads"] = sum(1 for r in req if r.startswith("read "))
    model = drive("C13", req) if req else []
    model = [canon_stats_model(l) if r == "stats" else ("0" * 16 if l == "fill0" else ("ok" if (r.startswith("run ") and l.startswith("ok ")) else l))
             for l, r in zip(model, req)] + model[len(req):]
    real_lines = [("0" * 16 if (r.startswith("cell") and l in (fbits(0.0), fbits(-0.0))) else l) for l, r in zip(real_lines, req)]
    model = [("0" * 16 if (r.startswith("cell") and l == fbits(-0.0)) else l) for l, r in zip(model, req)]
    chk.cov["traces_validated_against_impl"] = dist["times"] + bdist["selections"] * 3 + bdist["session_steps"]
    diff = next((i for i, (a, b) in enumerate(zip(model, real_lines)) if a != b), None)
    if diff is None and len(model) != len(real_lines):
        diff = min(len(model), len(real_lines))
    chk.notes["correspondence_first_diff"] = diff
    # ---- decide
    if first is not None:
        key, text, rp = first
        if key == "statistics":
            small = shrink_stat_case(rp["case"])
            m = new_model(small); m.run()
            text, rp = check_statistics(m) or text, {"case": small}
        elif "selection" in rp and rp.get("second") is None and rp.get("second_manager") is None and rp.get("isolation_second") is None:
            try:
                sm = shrink_bptk(key, rp)
            except Exception:
                sm = None
            if sm is not None:
                text, rp = sm
        if not ok:      # the broken obligation's failing-input search succeeded: one finding, with the concrete input
            rp = dict(rp, broken_obligation=why)
        if shared:
            rp = dict(rp, collector_identities=collectors)
        chk.add_finding(key, text, rp)
    if shared and first is None:
        chk.add_finding("shared-data-collector", f"scenarios of one manager share a DataCollector object (identities {collectors}); Gen proves collectors_shared*",
                        {"theorem": "Bptk.C13.Gen.collectors_shared*", "collector_identities": collectors}, found_input=False)
    if not ok and first is None:
        chk.add_finding("obligation", f"proof obligations of C13 no longer check: {why}",
                        {"theorem": "Bptk.C13.Gen.probe_ok* / holds", "detail": why, "probe": [s for s, _ in rows]}, found_input=False)
    if diff is not None and first is None:
        j = diff
        while j >= 0 and not req[j].startswith("collect"):
            j -= 1
        chk.add_finding("correspondence", f"model and implementation disagree at protocol line {diff}: request {req[diff]!r}",
                        {"correspondence": "Drive/C13 vs DataCollector / HybridRunner", "line": diff, "population": req[j] if j >= 0 else None,
                         "model": model[diff] if diff < len(model) else None, "impl": real_lines[diff] if diff < len(real_lines) else None,
                         "owner": owner[diff] if diff < len(owner) else None}, found_input=False)


def replay(path):
    quiet_bptk_logging()
    r = json.load(open(path))["replay"]
    case = r.get("case")
    if case is None:
        print("no concrete input stored:", r)
        return 1
    if "selection" in r:
        with Bptk() as bp:
            if r.get("isolation_second") is not None:
                v = isolation_check(bp, case, r["isolation_second"], r["selection"], r["format"], r.get("registered_model_has_collector", True), [], [])
            elif r.get("second_manager") is not None:
                v = two_manager_check(bp, case, r["second_manager"], r["selection"], [], [])
            elif r.get("second") is not None:
                v = two_scenario_check(bp, case, r["second"], r["selection"], [], [])
            elif r.get("format") == "session":
                v = session_check(bp, case, r["selection"], [], [])[1]
            else:
                v = bptk_check(bp, case, [r["selection"]], [], [])
        print("case:", json.dumps(case)); print("selection:", r["selection"]); print("violation on the current tree:", v)
        return 1 if v else 0
    m = new_model(case)
    m.run()
    v = check_statistics(m)
    print("case:", json.dumps(case)); print("violation on the current tree:", v)
    return 1 if v else 0
