"""C17 — an instance lives exactly as long as its timeout since last access allows.

Probe (keep-alive restores an externalised instance?) -> Gen/C17.lean obligations; correspondence under a
controlled clock (`bptkServer.datetime` and `externalStateAdapter.datetime` replaced by a harness object —
no source change) on generated timed histories over <= 4 instances with timeouts in every unit, against
Drive/C17.lean; independent reference check of the statement on every observed step; thorough tier adds
short real-time timelines."""
import contextlib, datetime as _dt, io, json, logging, os, shutil, time
from common import *

EPOCH = _dt.datetime(2030, 1, 1)
US = _dt.timedelta(microseconds=1)
UNITS = ["weeks", "days", "hours", "minutes", "seconds", "milliseconds", "microseconds"]
BEGIN_BODY = {"scenario_managers": ["firstManager"], "scenarios": ["1"], "equations": ["stock", "flow", "constant"]}


# ------------------------------------------------------------------ controlled clock
class FakeClock:
    """Stands in for the `datetime` module inside bptkServer.py / externalStateAdapter.py."""
    timedelta = _dt.timedelta

    def __init__(self):
        self.us = 0
        self.plan = []       # increments applied after the next reads of the current request
        self.reads = 0       # number of datetime.now() reads since begin()
        clock = self

        class _DT(_dt.datetime):
            @classmethod
            def now(cls, tz=None):
                v = EPOCH + clock.us * US
                clock.reads += 1
                if clock.plan:
                    clock.us += clock.plan.pop(0)     # the clock advances between two reads of one request
                return v
        self.datetime = _DT

    def begin(self, t, incs=()):
        """start of a request at clock value `t`; read n of the request returns t + incs[0] + … + incs[n-1]"""
        self.us, self.plan, self.reads = t, list(incs), 0

    def install(self):
        import BPTK_Py.server.bptkServer as S
        import BPTK_Py.externalstateadapter.externalStateAdapter as A
        self._saved = (S.datetime, A.datetime)
        S.datetime = self
        A.datetime = self

    def uninstall(self):
        import BPTK_Py.server.bptkServer as S
        import BPTK_Py.externalstateadapter.externalStateAdapter as A
        S.datetime, A.datetime = self._saved


def to_us(t):
    return (t - EPOCH) // US


DEFAULT_TIMEOUT = {"hours": 12}     # /start-instance(s) without a "timeout" key


def micros(tdict):
    if isinstance(tdict, _dt.timedelta):      # an implementation may keep the timeout as a timedelta object
        return tdict // US
    if tdict is None:
        tdict = DEFAULT_TIMEOUT
    return _dt.timedelta(**{k: v for k, v in tdict.items() if k in UNITS}) // US     # create_instance ignores keys that are no unit


# ------------------------------------------------------------------ the server under test
class Server:
    def __init__(self, real_time=False):
        import BPTK_Py
        from BPTK_Py import Model
        from BPTK_Py.server import BptkServer
        from BPTK_Py.externalstateadapter import FileAdapter
        self.made = []          # every bptk object the factory produced
        self.destroy_log = []   # python ids of bptk objects, one entry per destroy() call
        srv = self

        def factory():
            model = Model(starttime=1.0, stoptime=30.0, dt=1.0, name="c17model")
            stock, flow, constant = model.stock("stock"), model.flow("flow"), model.constant("constant")
            stock.initial_value = 0.0
            stock.equation = flow
            flow.equation = constant
            constant.equation = 1.0
            b = BPTK_Py.bptk()
            b.register_scenario_manager({"firstManager": {"model": model}})
            b.register_scenarios(scenario_manager="firstManager", scenarios={"1": {"constants": {"constant": 1.0}}})
            orig = b.destroy
            def counted():
                srv.destroy_log.append(id(b))
                return orig()
            b.destroy = counted
            srv.made.append(b)
            return b

        self.dir = scratch_dir("bptkc17")
        self.clock = None
        if not real_time:
            self.clock = FakeClock()
            self.clock.install()
        self._factory = factory
        self._make_app()
        self.uuid_of = {}      # nat id -> uuid
        self.nat_of = {}       # uuid -> nat id
        self.obj_nat = {}      # python id of a bptk object -> nat id of the instance it serves
        self.t0 = _dt.datetime.now()
        self.shown = []        # destroy log as reported: the ids destroyed by one request in ascending order
        self.restored_ids = set()

    def _make_app(self):
        """(re)start the server process on the state directory: BptkServer.__init__ loads every stored instance"""
        from BPTK_Py.server import BptkServer
        from BPTK_Py.externalstateadapter import FileAdapter
        srv = self
        self.app = BptkServer("c17app", self._factory, FileAdapter(False, self.dir), None)
        self.app.logger.disabled = True
        logging.getLogger("werkzeug").disabled = True
        self.client = self.app.test_client()
        # a restored instance can be swept inside the very request that restored it (the clock moves between the reads):
        # learn which id its bptk object serves as soon as it is reconstructed, not only at the next observation
        im, orig_rec = self.app._instance_manager, self.app._instance_manager.reconstruct_instance
        def reconstruct(instance_uuid, *a, **k):
            r = orig_rec(instance_uuid, *a, **k)
            srv._learn()
            return r
        im.reconstruct_instance = reconstruct
        orig_create = im.create_instance
        def create(**timeout):          # /start-instances: an instance can be created and swept within one request
            u = orig_create(**timeout)
            srv._learn()
            return u
        im.create_instance = create

    # ---- observation (no request, no sweep)
    def _learn(self):
        for u, v in self.app._instance_manager._instances.items():
            if u not in self.nat_of:
                n = len(self.uuid_of)
                self.nat_of[u] = n
                self.uuid_of[n] = u
            self.obj_nat[id(v["instance"])] = self.nat_of[u]

    def observe(self):
        self._learn()
        live = []
        for u, v in self.app._instance_manager._instances.items():
            base = EPOCH if self.clock else self.t0
            live.append((self.nat_of[u], (v["time"] - base) // US, max(0, micros(v["timeout"])),
                         1 if v["instance"].session_state is not None else 0))
        live.sort()            # dict order after a load-state follows the directory listing: compared by id
        log = [self.obj_nat.get(o, -1) for o in self.destroy_log]
        self.shown += sorted(log[len(self.shown):])
        destroyed = list(self.shown)
        stored = {}
        for fn in os.listdir(self.dir):
            u = fn.split(".")[0]
            if u in self.nat_of:
                try:
                    import jsonpickle
                    d = jsonpickle.loads(open(os.path.join(self.dir, fn)).read())
                    stored[self.nat_of[u]] = max(0, micros(d["data"]["timeout"]))
                except Exception:
                    stored[self.nat_of[u]] = -1
        return {"live": live, "destroyed": destroyed, "stored": stored}

    def uuid(self, n):
        return self.uuid_of.get(n, "dead%028d" % n)

    def listing(self):
        """ids of the stored instances in the order of the directory listing the adapter's load_state will see"""
        self._learn()
        return [self.nat_of[f.split(".")[0]] for f in os.listdir(self.dir) if f.endswith(".json") and f.split(".")[0] in self.nat_of]

    # ---- events
    def do(self, ev):
        """ev: ("create", tdict) ("access", id, kind) ("keepalive", id) ("metrics",) ("fullmetrics",).
        Returns (ok, ids reported by a metrics request or None)."""
        c, k = self.client, ev[0]
        reported = None
        if k == "restart":
            self._make_app()
            return True, None
        if k == "create":
            r = c.post("/start-instance", json={"timeout": ev[1]}) if ev[1] is not None else c.post("/start-instance")
        elif k == "creates":
            r = c.post("/start-instances", json=dict({"instances": ev[1]}, **({"timeout": ev[2]} if ev[2] is not None else {})))
        elif k == "access":
            u, kind = self.uuid(ev[1]), ev[2]
            if kind == "begin":
                r = c.post(f"/{u}/begin-session", json=BEGIN_BODY)
            elif kind == "results":
                r = c.get(f"/{u}/session-results")
            elif kind == "step":
                r = c.post(f"/{u}/run-step", json={"settings": {}})
            elif kind == "flat":
                r = c.get(f"/{u}/flat-session-results")
            elif kind == "steps":
                r = c.post(f"/{u}/run-steps", json={"numberSteps": 2, "settings": {}})
            elif kind == "stream":
                r = c.post(f"/{u}/stream-steps", json={"settings": {}})
            else:
                r = c.post(f"/{u}/end-session")
        elif k == "keepalive":
            r = c.post(f"/{self.uuid(ev[1])}/keep-alive")
        elif k == "stop":
            r = c.post(f"/{self.uuid(ev[1])}/stop-instance")
        elif k == "savestate":
            r = c.get("/save-state")
        elif k == "loadstate":
            r = c.post("/load-state")
        elif k == "metrics":
            r = c.get("/metrics")
            m = [l for l in r.get_data(as_text=True).split("\n") if l.startswith("bptk_instance_count ")]
            reported = ("count", int(m[0].split()[1])) if m else ("count", None)
        else:
            r = c.get("/full-metrics")
            d = json.loads(r.get_data(as_text=True))
            self._learn()
            reported = ("ids", sorted(self.nat_of.get(u, -1) for u in d if u not in ("instanceCount", "threadCount")), d.get("instanceCount"),
                        {self.nat_of.get(u, -1): v.get("startTime") for u, v in d.items() if isinstance(v, dict)})
        try:
            r.get_data()
        except Exception:
            return False, reported      # the streamed body raised
        return r.status_code == 200, reported

    def close(self):
        for b in self.made:
            try:
                b.destroy()
            except Exception:
                pass
        try:
            if self.app._bptk is not None:
                self.app._bptk.destroy()
        except Exception:
            pass
        if self.clock:
            self.clock.uninstall()
        shutil.rmtree(self.dir, ignore_errors=True)


# the seven instance-scoped views and the four behaviours the model distinguishes
MODEL_KIND = {"flat": "results", "steps": "step", "stream": "step"}
STEPPING = ("step", "steps", "stream")


def model_lines(now, ev, incs, observed):
    """protocol lines of one request and the replies they are compared with ("*" = not compared): /start-instances
    with n instances under a fixed clock is n creations at that clock value"""
    if ev[0] == "creates":
        n = ev[1]
        return [ev_line(now, ev, [])] * n, ["*"] * (n - 1) + [observed.rsplit(";reads=", 1)[0]]
    return [ev_line(now, ev, incs)], [observed]


def row_of(ev):
    """row of the wave-7 coverage table a generated request belongs to"""
    if ev[0] == "access":
        return "request:" + ev[2]
    if ev[0] in ("create", "creates"):
        td = ev[-1]
        kind = "default" if td is None else "empty" if not td else "unknown-key" if any(k not in UNITS for k in td) else \
            "negative-or-fractional" if any(v < 0 or v != int(v) for v in td.values()) else "zero" if micros(td) == 0 else \
            ">=1day" if micros(td) >= DAY else "<1s" if micros(td) < 10**6 else "int"
        return ev[0] + ":timeout-" + kind
    return ev[0]


def norm(item):
    """history items are (t, event) or (t, event, increments)"""
    return (item[0], tuple(item[1]), list(item[2]) if len(item) > 2 and item[2] else [])


def ev_line(now, ev, incs=()):
    k = ev[0]
    head = f"evr {now} {','.join(map(str, incs)) if incs else '-'}"
    if k == "create":
        return f"{head} create {micros(ev[1])}"
    if k == "creates":
        return f"{head} create {micros(ev[2])}"      # one line per instance (see model_lines)
    if k == "restart":
        return f"{head} loadord {','.join(map(str, ev[1])) if ev[1] else '-'}"
    if k == "access":
        return f"{head} access {ev[1]} {MODEL_KIND.get(ev[2], ev[2])}"
    if k == "keepalive":
        return f"{head} keepalive {ev[1]}"
    if k == "stop":
        return f"{head} stop {ev[1]}"
    if k == "loadstate" and len(ev) > 1:
        return f"{head} loadord {','.join(map(str, ev[1])) if ev[1] else '-'}"
    return f"{head} {k}"


def obs_line(ok, o, reads=None):
    live = ",".join("%d:%d:%d:%d" % t for t in o["live"])
    return "%s;live=%s;destroyed=%s;stored=%s" % ("ok" if ok else "err", live, ",".join(map(str, o["destroyed"])),
                                                  ",".join("%d:%d" % kv for kv in sorted(o["stored"].items()))) + (
        "" if reads is None else ";reads=%d" % reads)


# ------------------------------------------------------------------ reference check of the statement (independent of the Lean model)
def ref_check(before, now, ev, ok, reported, after, hi=None):
    """before/after: observations around one request whose clock reads all lie in [now, hi] (`now` = its first
    read = its arrival; hi = now when the clock does not move inside the request). A claim of the statement is
    checked when it is decided for EVERY placement of the reads in that interval. Returns [(key, text)]."""
    out = []
    lo = now
    hi = now if hi is None else hi
    b = {i: (l, t, s) for i, l, t, s in before["live"]}
    a = {i: (l, t, s) for i, l, t, s in after["live"]}
    target = ev[1] if ev[0] in ("access", "keepalive") else None
    def valid(j):
        return j in b or (ev[0] == "access" and j in before["stored"])
    trigger = ev[0] in ("create", "creates", "metrics", "fullmetrics") or (target is not None and valid(target))
    stopped = ev[1] if ev[0] == "stop" else None
    if stopped is not None and (stopped in a or stopped in after["stored"]):
        out.append(("stop-not-gone", f"stop-instance {stopped} at {now}: afterwards live={stopped in a}, state file={stopped in after['stored']}"))
    for k, (l, tau, _) in b.items():
        dcount = after["destroyed"].count(k) - before["destroyed"].count(k)
        if k == stopped:
            continue            # removed on explicit request, not by the timeout
        if ev[0] == "restart" and k not in before["stored"]:
            continue            # the server process was restarted: an instance that was never externalised is lost with it
        if hi < l + tau:        # the whole request lies before last access + timeout
            if k not in a:
                out.append(("removed-early", f"instance {k} (last access {l}, timeout {tau}) removed by {ev} in [{lo},{hi}] < {l + tau}"))
            elif a[k][1] != tau or a[k][0] < l:
                out.append(("timer-corrupted", f"instance {k}: (last, timeout) {(l, tau)} -> {a[k][:2]} by {ev} in [{lo},{hi}]"))
            if dcount != 0:
                out.append(("destroyed-while-alive", f"instance {k} destroyed {dcount}x in [{lo},{hi}] < {l + tau}"))
        elif lo >= l + tau:     # the timeout had elapsed when the request arrived
            if trigger and target != k:
                if k in a:
                    out.append(("immortal", f"instance {k} (last access {l}, timeout {tau}) still present after trigger {ev} at {lo} >= {l + tau}"))
                if dcount != 1:
                    out.append(("release-count", f"expired instance {k}: destroy() called {dcount}x on its removal by {ev} at {lo}"))
        elif target != k:       # the deadline falls between two reads of this request: either outcome, but consistently
            if (k in a and dcount != 0) or (k not in a and dcount != 1):
                out.append(("release-count", f"instance {k} (deadline {l + tau} inside [{lo},{hi}]): present afterwards={k in a}, destroy() called {dcount}x by {ev}"))
        if target == k and hi - lo < tau and trigger:
            if k not in a:
                out.append(("access-no-reset", f"{ev} in [{lo},{hi}] on present instance {k} (timeout {tau}): instance gone afterwards"))
            elif a[k][0] < lo:
                out.append(("timestamp-before-request", f"{ev} arriving at {lo} on present instance {k}: stored last access {a[k][0]} is earlier than every clock read of the request"))
            elif a[k][0] > hi:
                out.append(("access-no-reset", f"{ev} in [{lo},{hi}] on present instance {k} (timeout {tau}): afterwards {a.get(k)}"))
            if not ok and not (ev[0] == "access" and ev[2] in STEPPING and not b[k][2]):
                out.append(("live-id-refused", f"{ev} at {now} on present instance {k} (timeout {tau}) answered non-200"))
    for k in a:
        if k not in b and not (lo <= a[k][0] <= hi):
            key = "timestamp-before-request" if a[k][0] < lo else "access-no-reset"
            out.append((key, f"{ev} in [{lo},{hi}] created / restored instance {k} with stored last access {a[k][0]} outside the request's clock reads"))
    if target is not None and target not in b:
        if target in before["stored"] and before["stored"][target] > hi - lo:
            if ev[0] == "access":
                if not ok or target not in a or not (lo <= a[target][0] <= hi) or a[target][1] != before["stored"][target]:
                    out.append(("restore-failed", f"{ev} at {now} on externalised instance {target}: ok={ok}, afterwards {a.get(target)}"))
            elif not ok or target not in a:
                out.append(("keep-alive-no-restore", f"keep-alive at {now} on timed-out instance {target} whose state is externalised "
                            f"(timeout {before['stored'][target]}): HTTP non-200, instance not restored"))
        elif target not in before["stored"]:
            if ok or target in a:
                out.append(("gone-id-served", f"{ev} at {now} on absent, not externalised id {target}: ok={ok}, afterwards present={target in a}"))
    if reported is not None:
        # full-metrics lists the instances that have a session, and counts all of them
        if reported[0] == "ids" and (reported[1] != sorted(k for k in a if a[k][2]) or reported[2] != len(a)):
            out.append(("metrics-mismatch", f"full-metrics at {now} reports {reported[1:3]} but live set is {sorted(a)} (with session: {sorted(k for k in a if a[k][2])})"))
        if reported[0] == "ids" and len(reported) > 3:
            for k, st in reported[3].items():       # the startTime full-metrics shows is the stored last-access time
                if k in a and st != str(EPOCH + a[k][0] * US):
                    out.append(("metrics-mismatch", f"full-metrics at {now} shows startTime {st!r} for instance {k} whose last access is {EPOCH + a[k][0] * US}"))
        if reported[0] == "count" and reported[1] != len(a):
            out.append(("metrics-mismatch", f"metrics at {now} reports instance_count {reported[1]} but live set is {sorted(a)}"))
    return out


# ------------------------------------------------------------------ history generation (online, from the observed state)
SHORT = [lambda r: {"milliseconds": r.range(1, 2000)}, lambda r: {"seconds": r.range(1, 5)}, lambda r: {"microseconds": r.range(500, 3000)},
         lambda r: {"seconds": 1, "milliseconds": r.range(0, 900)}, lambda r: {"seconds": r.range(1, 3), "microseconds": r.range(0, 5)}]
LONG = [lambda r: {"minutes": r.range(5, 90)}, lambda r: {"hours": r.range(1, 5)}, lambda r: {"days": r.range(1, 3)}, lambda r: {"weeks": 1},
        lambda r: {"hours": 12, "minutes": 0, "seconds": 0}]
ODD = [{"seconds": 2, "fortnights": 1}, {"seconds": -3}, {"seconds": 0.5}, {"milliseconds": 1.5}, {"microseconds": 2.5}, {"microseconds": 3.5}, {"minutes": 0.25, "seconds": -10},
       {"seconds": 1, "microseconds": -1}, {"microseconds": -0.5}, {"hours": -1, "minutes": 60, "seconds": 2}, {"days": 0.25}, {"milliseconds": -1},
       {"seconds": 2.25, "microseconds": 0.5}, {"weeks": 0.25, "days": -1.75, "milliseconds": 0.5}]


def gen_timeout(rng):
    r = rng.below(16)
    if r == 0:
        return {}                     # all units absent -> timedelta(0)
    if r == 12:
        return dict(rng.choice(ODD))  # the endpoint accepts negative and fractional numbers (outside its documented contract)
    if r in (9, 10, 13, 14):
        return rng.choice(SHORT)(rng)
    if r == 15:
        return rng.choice(LONG)(rng)
    d = {}
    for u in rng.shuffle(UNITS)[: 1 if r < 8 else rng.range(2, 4)]:
        d[u] = {"weeks": rng.range(0, 2), "days": rng.range(0, 3), "hours": rng.range(0, 5), "minutes": rng.range(0, 90),
                "seconds": rng.range(0, 120), "milliseconds": rng.range(0, 2500), "microseconds": rng.range(0, 3000)}[u]
    if rng.chance(1, 3):
        for u in UNITS:
            d.setdefault(u, 0)
    return d


def next_event(rng, o, now, ncreated, max_inst):
    live = o["live"]
    r = rng.below(100)
    known = list(range(ncreated))
    if (r < 18 or not known) and ncreated < max_inst:
        td = gen_timeout(rng) if rng.chance(11, 12) else None           # None: no "timeout" key -> the default of 12 hours
        n = rng.range(1, 3)
        ev = ("creates", n, td) if rng.chance(1, 6) and ncreated + n <= max_inst + 1 else ("create", td)
    elif r < 55 and known:
        tgt = rng.choice(known) if rng.chance(9, 10) else ncreated + rng.below(2)
        kind = rng.choice(["begin", "results", "step", "step", "end", "results", "flat", "steps", "steps", "stream"])
        if kind == "stream" and any(i == tgt and not sess for i, _, _, sess in live):
            kind = "steps"       # stream-steps on a live instance without session answers 200 and fails inside the streamed body
        ev = ("access", tgt, kind)
    elif r < 70 and known:
        ev = ("keepalive", rng.choice(known) if rng.chance(9, 10) else ncreated + rng.below(2))
    elif r < 74 and known:
        ev = ("stop", rng.choice(known) if rng.chance(9, 10) else ncreated)
    elif r < 78:
        ev = ("savestate",)
    elif r < 81:
        ev = ("loadstate",)
    elif r < 83:
        # restart of the server process on the state directory — only when every live instance is externalised, so that the
        # model's load-state (which overwrites the live entries) describes it exactly
        ev = ("restart",) if all(i in o["stored"] for i, *_ in live) else ("loadstate",)
    elif r < 92:
        ev = ("metrics",)
    else:
        ev = ("fullmetrics",)
    # time advance: aim at an expiry boundary of a live instance, or a small / large random step
    r = rng.below(10)
    if live and r < 6:
        i, l, tau, _ = rng.choice(live)
        t = l + tau + rng.choice([-2, -1, 0, 0, 1, 2, rng.range(-1000, 1000)])
        now2 = t if t >= now else now + rng.choice([0, 1, rng.range(0, 5000)])
    elif r < 8:
        now2 = now + rng.choice([0, 1, 999, 1000, rng.range(0, 3_000_000)])
    elif r < 9:
        # late in a wall-clock second: a timestamp truncated to whole seconds would lie almost a second back
        now2 = (now // 10**6 + 1) * 10**6 - rng.choice([1, 2, 10, rng.range(1, 1000), rng.range(1, 100_000)])
        if now2 < now:
            now2 = now
    else:
        now2 = now + rng.range(0, 3 * 7 * 24 * 3600 * 10**6)
    return now2, ev, gen_incs(rng, ev, len(live))


def gen_incs(rng, ev, nlive):
    """clock increments between the reads of ONE request (µs): none (fixed clock), all 1 (so that an expiry
    boundary aimed at by the start time falls between two particular reads), or small random steps"""
    if ev[0] in ("stop", "savestate", "creates"):
        return []        # no clock read / n creations in one request are modelled under a fixed clock
    r = rng.below(10)
    if r < 4:
        return []
    n = nlive + 3
    if r < 7:
        return [1] * rng.range(1, n)
    if r < 9:
        return [rng.choice([0, 0, 1, 1, 2, 3, 5, rng.range(0, 50)]) for _ in range(rng.range(1, n))]
    return [rng.choice([0, 1, rng.range(0, 2000), rng.range(0, 1_200_000)]) for _ in range(rng.range(1, n))]


def pattern_history(rng):
    """The restored-instance pattern, with random parameters: a SHORT-timeout instance A with an externalised
    session and a LONG-timeout instance B (either creation order, sometimes a third instance); A times out and is
    swept by a trigger; A is restored (instance-scoped request, keep-alive, or load-state); the server idles past
    the restored A's timeout (B's deadline is far away); a trigger; then A must be gone from both metrics,
    destroyed once more, and its id answered by a new restore — or refused after stop-instance removed the file."""
    ta, tb = rng.choice(SHORT)(rng), rng.choice(LONG)(rng)
    tau = micros(ta)
    evs, now = [], 0
    order = rng.shuffle(["A", "B"] + (["C"] if rng.chance(1, 3) else []))
    ids = {}
    for name in order:
        ids[name] = len(ids)
        evs.append((now, ("create", ta if name == "A" else (tb if name == "B" else gen_timeout(rng)))))
        now += rng.range(0, 3)
    A, B = ids["A"], ids["B"]
    small = max(1, tau // 20)
    def at(ev, gap):
        nonlocal now
        now += gap
        evs.append((now, ev))
    at(("access", A, "begin"), rng.range(0, small))
    for _ in range(rng.range(1, 3)):
        at(("access", A, "step"), rng.range(0, small))
    last_a = now
    if rng.chance(1, 3):
        at(("access", B, "begin"), 0)
        at(("access", B, "step"), 0)
        if rng.chance(1, 2):
            at(("savestate",), 0)
    def trigger():
        opts = [("metrics",), ("fullmetrics",), ("access", B, "results"), ("keepalive", B), ("metrics",)]
        if sum(1 for _, e in evs if e[0] == "create") < 4:
            opts.append(("create", rng.choice(LONG)(rng)))
        return rng.choice(opts)
    # first expiry of A
    now = max(now, last_a + tau + rng.choice([0, 0, 1, 2, rng.range(0, tau)]))
    evs.append((now, trigger()))
    at(("fullmetrics",), rng.range(0, small))
    # restore
    how = rng.choice(["access", "access", "keepalive", "loadstate"])
    gap = rng.choice([0, 1, rng.range(0, 3 * tau)])
    if how == "access":
        at(("access", A, rng.choice(["results", "step", "begin", "end", "results"])), gap)
    elif how == "keepalive":
        at(("keepalive", A), gap)
    else:
        at(("loadstate",), gap)
    last_a = now
    for _ in range(rng.range(0, 2)):
        at(rng.choice([("access", A, "results"), ("keepalive", A), ("access", A, "step")]), rng.range(0, small))
        last_a = now
    if rng.chance(1, 3):
        at(rng.choice([("access", B, "results"), ("metrics",)]), rng.range(0, small))    # not yet expired: must survive
    # idle past the restored instance's timeout, then a trigger
    d3 = rng.choice([0, 0, 1, 2, -1, -1, -2, -3, rng.range(0, 2 * tau)])
    now = max(now, last_a + tau + d3)
    evs.append((now, trigger()))
    at(("fullmetrics",), rng.range(0, 2))
    at(("metrics",), 0)
    if rng.chance(1, 3):
        at(("stop", A), rng.range(0, small))
        at(("access", A, "results"), 1)          # refused: no instance, no file
        at(("keepalive", A), 1)
    else:
        at(("access", A, rng.choice(["results", "step"])), rng.range(0, 3 * tau))   # restored once more
        now = now + tau
        evs.append((now, ("metrics",)))
    # the clock advances inside the requests that do not address A (within the gap to the next request)
    out = []
    for i, (t, ev) in enumerate(evs):
        budget = (evs[i + 1][0] - t) if i + 1 < len(evs) else 10
        incs = []
        if ev[0] in ("metrics", "fullmetrics", "create") or (ev[0] in ("access", "keepalive") and ev[1] != A):
            if budget > 0 and rng.chance(1, 2):
                for _ in range(rng.range(1, 5)):
                    d = rng.choice([1, 1, 1, 0, 2])
                    if sum(incs) + d <= budget:
                        incs.append(d)
        out.append((t, ev, incs))
    return out


def run_history(events, on_step=None):
    """Replay [(t, ev[, increments])] on a fresh server under the controlled clock. Returns (lines, violations).
    (`events` is updated in place with the listing order observed for load-state requests.)"""
    events[:] = [norm(x) for x in events]
    s = Server()
    lines, viols = [], []
    try:
        before = s.observe()
        for idx, item in enumerate(events):
            now, ev, incs = norm(item)
            if ev[0] in ("loadstate", "restart"):
                ev = (ev[0], s.listing())     # the order is observed on this run, never taken from a stored history
                events[idx] = (now, ev, incs)
            s.clock.begin(now, incs)
            ok, rep = s.do(ev)
            reads = s.clock.reads
            hi = now + sum(incs[:max(0, reads - 1)])      # value of the last read
            s.clock.plan = []
            after = s.observe()
            lines.append(obs_line(ok, after, reads))
            for key, text in ref_check(before, now, ev, ok, rep, after, hi):
                viols.append((idx, key, text))
            track(s, before, ev, after)
            count_clock(before, now, hi, reads)
            before = after
            viols += destroy_once(s, idx)
    finally:
        s.close()
    return lines, viols


def generate_and_run(rng, n_events, max_inst):
    s = Server()
    events, lines, viols = [], [], []
    try:
        now, o = 0, s.observe()
        for idx in range(n_events):
            now, ev, incs = next_event(rng, o, now, len(s.uuid_of), max_inst)
            if ev[0] in ("loadstate", "restart"):
                ev = (ev[0], s.listing())
            s.clock.begin(now, incs)
            ok, rep = s.do(ev)
            reads = s.clock.reads
            hi = now + sum(incs[:max(0, reads - 1)])
            s.clock.plan = []
            after = s.observe()
            events.append((now, ev, incs))
            lines.append(obs_line(ok, after, reads))
            for key, text in ref_check(o, now, ev, ok, rep, after, hi):
                viols.append((idx, key, text))
            track(s, o, ev, after)
            count_clock(o, now, hi, reads)
            o = after
            viols += destroy_once(s, idx)
            now += sum(incs)
    finally:
        s.close()
    return events, lines, viols


STATS = {"idle_beyond_24h": 0, "expiry_checks_with_timeout_ge_1day": 0, "requests_with_moving_clock": 0, "deadline_inside_request": 0, "restores": 0, "restored_then_expired": 0, "restored_then_expired_with_other_live": 0, "loadstate_overwrites": 0}


def count_clock(before, now, hi, reads):
    if reads > 1 and hi > now:
        STATS["requests_with_moving_clock"] += 1
        STATS["deadline_inside_request"] += sum(1 for _, l, tau, _ in before["live"] if now < l + tau <= hi)
    STATS["idle_beyond_24h"] += sum(1 for _, l, tau, _ in before["live"] if now - l >= DAY)
    STATS["expiry_checks_with_timeout_ge_1day"] += sum(1 for _, l, tau, _ in before["live"] if tau >= DAY and now >= l + tau)


def track(s, before, ev, after):
    """bookkeeping for the input distribution: how often a RESTORED instance later timed out and was swept"""
    b = {i for i, *_ in before["live"]}
    a = {i for i, *_ in after["live"]}
    newly = after["destroyed"][len(before["destroyed"]):]
    for k in newly:
        if k in s.restored_ids:
            STATS["restored_then_expired"] += 1
            if a - {k}:
                STATS["restored_then_expired_with_other_live"] += 1
            s.restored_ids.discard(k)
    if ev[0] in ("access", "keepalive") and ev[1] not in b and ev[1] in a:
        s.restored_ids.add(ev[1]); STATS["restores"] += 1
    if ev[0] in ("loadstate", "restart"):
        for k in a - b:
            s.restored_ids.add(k); STATS["restores"] += 1
        STATS["loadstate_overwrites"] += len(a & b & set(before["stored"]))
    if ev[0] == "stop":
        s.restored_ids.discard(ev[1])


def destroy_once(s, idx):
    """global reference: over the whole history no bptk object gets destroy() twice, and none that still
    serves a live instance was destroyed"""
    out = []
    log = s.destroy_log
    if len(set(log)) != len(log):
        dup = next(o for o in log if log.count(o) > 1)
        out.append((idx, "destroyed-twice", f"destroy() called {log.count(dup)}x on the bptk object of instance {s.obj_nat.get(dup, '?')}"))
    live_objs = {id(v["instance"]) for v in s.app._instance_manager._instances.values()}
    if live_objs & set(log):
        o = next(iter(live_objs & set(log)))
        out.append((idx, "destroyed-while-alive", f"the bptk object serving live instance {s.obj_nat.get(o, '?')} has been destroyed"))
    return out


def fixed_histories():
    S = 10**6
    return [
        # boundary: now = last + timeout removes; one microsecond earlier does not
        [(0, ("create", {"seconds": 2})), (2 * S - 1, ("metrics",)), (2 * S, ("fullmetrics",)), (2 * S, ("access", 0, "results"))],
        # own access before any sweep revives an expired instance
        [(0, ("create", {"milliseconds": 10})), (50_000, ("access", 0, "begin")), (50_001, ("fullmetrics",)), (60_000, ("keepalive", 0)),
         (69_999, ("metrics",)), (70_000, ("metrics",))],
        # two instances expire in the same sweep; a third survives
        [(0, ("create", {"seconds": 1})), (0, ("create", {"milliseconds": 1000})), (5, ("create", {"minutes": 1})),
         (S, ("create", {"hours": 1})), (S + 1, ("fullmetrics",))],
        # externalised instance: timed out, restored by the next request, timer restarted
        [(0, ("create", {"seconds": 5})), (1, ("access", 0, "begin")), (2, ("access", 0, "step")), (10 * S, ("metrics",)),
         (11 * S, ("access", 0, "step")), (15 * S, ("fullmetrics",)), (16 * S, ("metrics",)), (20 * S, ("keepalive", 0)),
         (21 * S, ("access", 0, "results"))],
        # access to another instance is a trigger; access to an unknown id is not
        [(0, ("create", {"seconds": 1})), (0, ("create", {"days": 1})), (2 * S, ("access", 9, "results")), (2 * S, ("keepalive", 9)),
         (2 * S + 1, ("access", 1, "results")), (2 * S + 2, ("access", 0, "results"))],
        # timeout zero, every unit present
        [(0, ("create", {u: 0 for u in UNITS})), (0, ("keepalive", 0)), (0, ("create", {})), (1, ("access", 1, "begin"))],
        # restored short-timeout instance next to a live long-timeout one: must time out again (wave 2)
        [(0, ("create", {"seconds": 2})), (0, ("create", {"hours": 1})), (1, ("access", 0, "begin")), (2, ("access", 0, "step")),
         (3 * S, ("metrics",)), (4 * S, ("access", 0, "results")), (6 * S - 1, ("metrics",)), (6 * S, ("metrics",)), (6 * S, ("fullmetrics",)),
         (7 * S, ("keepalive", 0)), (9 * S, ("access", 1, "results")), (9 * S, ("stop", 0)), (9 * S + 1, ("access", 0, "results"))],
        # the same through load-state; save-state skips the instance that has no session and stores the other; stop-instance removes the file
        [(0, ("create", {"milliseconds": 1500})), (0, ("create", {"days": 1})), (1, ("access", 0, "begin")), (2, ("savestate",)),
         (3, ("access", 1, "begin")), (4, ("savestate",)), (2 * S, ("fullmetrics",)), (3 * S, ("loadstate",)), (3 * S + 1, ("fullmetrics",)),
         (4 * S + 499_999, ("metrics",)), (4 * S + 500_000, ("metrics",)), (5 * S, ("stop", 1)), (5 * S, ("loadstate",)), (5 * S + 1, ("access", 1, "results"))],
        # timeouts outside the documented contract: negative, fractional (half-even rounding of microseconds)
        [(0, ("create", {"seconds": -3})), (0, ("keepalive", 0)), (0, ("create", {"seconds": 0.5})), (499_999, ("metrics",)), (500_000, ("metrics",)),
         (500_000, ("create", {"microseconds": 2.5})), (500_002, ("fullmetrics",)), (500_002, ("create", {"microseconds": 3.5})),
         (500_005, ("metrics",)), (500_006, ("metrics",))],
        # the clock advances inside a request (wave 5): the deadline of instance 0 (1000 µs) falls between the timestamp write and
        # the sweep read of its key -> swept by the request to instance 1 arriving at 999, kept by the one arriving at 998; own access revives
        [(0, ("create", {"microseconds": 1000})), (0, ("create", {"microseconds": 5000})), (998, ("access", 1, "results"), [1, 1, 1]),
         (999, ("access", 0, "results"), [1, 1, 1]), (1998, ("access", 1, "results"), [0, 1, 1]), (2500, ("metrics",), [1])],
        [(0, ("create", {"microseconds": 1000})), (0, ("create", {"microseconds": 5000})), (999, ("access", 1, "results"), [1, 1, 1]),
         (1100, ("access", 0, "results")), (1200, ("create", {"milliseconds": 1}), [500, 500, 500])],
        # sub-second timeouts, accesses in the last microseconds of a wall-clock second, the clock crossing the second inside the request
        [(999_990, ("create", {"milliseconds": 300})), (999_995, ("access", 0, "begin"), [3, 3]), (1_000_001, ("access", 0, "step"), [1, 1]),
         (1_299_999, ("keepalive", 0), [1, 1]), (1_599_998, ("metrics",), [1]), (1_599_999, ("metrics",), [1]), (1_999_999, ("access", 0, "results"), [1, 1, 1]),
         (2_299_999, ("fullmetrics",)), (2_300_001, ("fullmetrics",))],
        [(2_999_999, ("create", {"microseconds": 900})), (2_999_999, ("create", {"milliseconds": 2})), (3_000_500, ("keepalive", 0), [200, 200, 200]),
         (3_001_390, ("access", 1, "results"), [5, 5, 5]), (3_001_500, ("metrics",))],
        # time scales (wave 6): the comparison is on the whole duration — a day and more, idle times beyond 24 h, sub-second
        [(0, ("create", {"hours": 24})), (0, ("create", {"hours": 2})), (0, ("create", {"days": 7})), (0, ("create", {"milliseconds": 300})),
         (299_999, ("metrics",)), (300_000, ("metrics",)), (2 * 3600 * S - 1, ("metrics",)), (DAY - 1, ("fullmetrics",)), (DAY, ("fullmetrics",)),
         (DAY + 1, ("create", {"hours": 2})), (2 * DAY + 1, ("metrics",)), (7 * DAY - 1, ("metrics",)), (7 * DAY, ("metrics",), [1])],
        [(0, ("create", {"hours": 2})), (0, ("create", {"hours": 25})), (1, ("access", 1, "begin")), (2, ("access", 1, "step")), (DAY + S, ("keepalive", 1)),
         (DAY + S, ("fullmetrics",)), (2 * DAY + 2 * S + 3600 * S, ("metrics",)), (3 * DAY, ("loadstate",), [5]), (3 * DAY + 25 * 3600 * S + 4, ("metrics",)),
         (3 * DAY + 25 * 3600 * S + 5, ("metrics",))],
        # wave 7: every instance-scoped view restarts the timer / restores / is refused — flat-session-results, run-steps, stream-steps too
        [(0, ("create", {"seconds": 2})), (0, ("create", {"hours": 1})), (1, ("access", 0, "begin")), (2, ("access", 0, "steps")), (1_500_000, ("access", 0, "flat"), [1, 1, 1]),
         (3_400_000, ("access", 0, "stream")), (5_399_999, ("metrics",)), (5_400_000, ("metrics",)), (6 * S, ("access", 0, "flat")), (8 * S, ("access", 1, "flat")),
         (9 * S, ("access", 0, "steps"), [2, 2, 2, 2]), (11 * S + 8, ("fullmetrics",)), (12 * S, ("access", 0, "stream")), (13 * S, ("access", 1, "steps")),
         (20 * S, ("stop", 0)), (20 * S, ("access", 0, "flat")), (20 * S, ("access", 0, "steps")), (20 * S, ("access", 0, "stream")), (21 * S, ("access", 7, "stream"))],
        # wave 7: /start-instances (n creations, each with its own sweep) as a trigger; no "timeout" key -> 12 hours; a key that is no unit is ignored
        [(0, ("create", {"seconds": 1})), (0, ("create", None)), (S, ("creates", 3, {"milliseconds": 500})), (S + 499_999, ("fullmetrics",)), (S + 500_000, ("creates", 2, None)),
         (12 * 3600 * S - 1, ("metrics",)), (12 * 3600 * S, ("create", {"seconds": 2, "fortnights": 1})), (12 * 3600 * S + 2 * S, ("creates", 1, {})), (13 * 3600 * S, ("fullmetrics",))],
        # wave 7: restart of the server process on the state directory: externalised instances come back with the timer started at the restart
        [(0, ("create", {"seconds": 3})), (0, ("create", {"minutes": 1})), (1, ("access", 0, "begin")), (2, ("access", 1, "begin")), (3, ("savestate",)),
         (2 * S, ("restart",), [7]), (5 * S, ("metrics",)), (5 * S + 7, ("fullmetrics",)), (6 * S, ("access", 0, "flat")), (9 * S + 1, ("restart",)), (12 * S, ("metrics",)),
         (12 * S + 1, ("metrics",)), (70 * S, ("restart",)), (70 * S, ("fullmetrics",)), (129 * S, ("keepalive", 1)), (130 * S + 1, ("metrics",))],
        # a request that lasts longer than the timeout of the instance it addresses
        [(0, ("create", {"microseconds": 10})), (5, ("access", 0, "results"), [4, 4, 4]), (100, ("create", {"microseconds": 10})), (105, ("keepalive", 1), [20, 20])],
        # every unit
        [(0, ("create", {"weeks": 1})), (0, ("create", {"days": 1})), (0, ("create", {"hours": 1})), (0, ("create", {"minutes": 1})),
         (60 * S - 1, ("metrics",)), (60 * S, ("metrics",)), (3600 * S, ("metrics",)), (86400 * S, ("metrics",)),
         (7 * 86400 * S - 1, ("fullmetrics",)), (7 * 86400 * S, ("fullmetrics",))],
    ]


def shrink(events, key):
    def fails(evs):
        try:
            return any(k == key for _, k, _ in run_history(evs)[1])
        except Exception:
            return False
    evs = list(events)
    changed = True
    while changed:
        changed = False
        for i in range(len(evs)):
            cand = evs[:i] + evs[i + 1:]
            if cand and fails(cand):
                evs, changed = cand, True
                break
    return evs


# ------------------------------------------------------------------ probe + Gen
def probe_keepalive_restores():
    S = 10**6
    evs = [(0, ("create", {"seconds": 1})), (1, ("access", 0, "begin")), (2, ("access", 0, "step")), (5 * S, ("metrics",)), (6 * S, ("keepalive", 0))]
    lines, _ = run_history(evs)
    return lines[-1].startswith("ok;live=0:")


def probe_clock_controllable():
    """does the code read the time through the `datetime` attribute of bptkServer.py / externalStateAdapter.py, which the
    harness replaces? (a clock built on time.monotonic(), time.time(), … cannot be followed by the controlled clock)"""
    srv = Server()
    try:
        srv.clock.begin(123_456_789)
        srv.do(("create", {"hours": 1}))
        raw = [v.get("time") for v in srv.app._instance_manager._instances.values()]
        reads = srv.clock.reads
    finally:
        srv.close()
    # followed = the code took its time from the replaced attribute at all; WHAT it stored from that reading (exact, truncated,
    # shifted) is the property's business (probe_stamp_exact, reference check), not a limit of the harness
    ok = bool(raw) and all(isinstance(t, _dt.datetime) for t in raw) and reads >= 1
    return ok, {"controlled_time_us": 123_456_789, "stored": [str(t) for t in raw], "clock_reads": reads}


def probe_stamp_exact():
    """is the stored last-access time the clock reading itself? (creation and timer restart late in a second)"""
    evs = [(1_500_000, ("create", {"seconds": 5})), (2_999_999, ("access", 0, "results")), (3_999_990, ("keepalive", 0), [3, 3])]
    lines, _ = run_history(evs)
    want = ["ok;live=0:1500000:", "ok;live=0:2999999:", "ok;live=0:3999990:"]
    return all(l.startswith(w) for l, w in zip(lines, want))


DAY = 86400 * 10**6


def probe_expiry():
    """rows (idle µs, timeout µs, removed?) of the real sweep at the time scales a comparison on a COMPONENT of the
    durations would get wrong: just below / at / above the timeout, idle times beyond 24 h, sub-second timeouts"""
    S = 10**6
    plans = [({"hours": 23, "minutes": 59}, lambda T: [T - 1, T, T + 1, T + 60 * S, T + DAY]),
             ({"hours": 24}, lambda T: [T - 1, T, T + 1, T + 5 * S, 2 * DAY]),
             ({"hours": 25}, lambda T: [DAY - 1, DAY + 5 * S, T - 1, T, T + 1, 2 * DAY + 5 * S]),
             ({"days": 7}, lambda T: [DAY, 6 * DAY + 86399 * S, T - 1, T, T + 1, 8 * DAY + 1]),
             ({"milliseconds": 300}, lambda T: [T - 1, T, T + 1, 999_999, S, DAY + 1]),
             ({"hours": 2}, lambda T: [T - 1, T, DAY + S, DAY + T - 1]),
             ({"seconds": 1, "microseconds": 1}, lambda T: [S, T, DAY + S])]
    rows = []
    srv = Server()
    try:
        t0 = 0
        for td, idles in plans:
            T = micros(td)
            for idle in idles(T):
                srv.clock.begin(t0); srv.do(("create", td))
                new = max(i for i, *_ in srv.observe()["live"])
                srv.clock.begin(t0 + idle); srv.do(("metrics",))
                rows.append((idle, T, new not in {i for i, *_ in srv.observe()["live"]}))
                t0 += idle + 1
    finally:
        srv.close()
    return rows


def probe_reads():
    """number and position of the datetime.now() reads per endpoint, observed with a clock that advances by
    1, 10, 100, … after successive reads (the stored timestamp tells which read wrote it)"""
    P = [1, 10, 100, 1000, 10000]
    S = 10**9
    evs = [(0, ("create", {"hours": 1}), P), (S, ("create", {"seconds": 1}), P), (S + 20000, ("access", 1, "begin"), P), (S + 40000, ("access", 1, "step"), P),
           (S + 60000, ("keepalive", 0), P), (S + 80000, ("metrics",), P), (S + 100000, ("fullmetrics",), P), (S + 120000, ("savestate",), P),
           (3 * S, ("metrics",), P), (4 * S, ("access", 1, "results"), P), (4 * S + 20000, ("stop", 1), P), (4 * S + 40000, ("access", 1, "results"), P),
           (4 * S + 60000, ("loadstate",), [])]
    srv = Server()
    out = []
    try:
        for t, ev, incs in evs:
            before = {i: l for i, l, _, _ in srv.observe()["live"]}
            srv.clock.begin(t, incs)
            srv.do(ev)
            reads = srv.clock.reads
            srv.clock.plan = []
            after = srv.observe()["live"]
            values = [t + sum(incs[:n]) for n in range(reads)]
            stamped = {i: values.index(l) for i, l, _, _ in after if l in values and before.get(i) != l}
            out.append({"event": " ".join(str(x) for x in ev if not isinstance(x, dict)), "live_before": len(before), "reads": reads,
                        "timestamp_written_by_read": stamped})
    finally:
        srv.close()
    return out


def gen_lean(restores, exact=True, exp_rows=()):
    b = "true" if restores else "false"
    body = ("theorem holds : C17_full cfg := C17_full_of_good cfg (by decide)\n#print axioms holds\n"
            "theorem holds2 : C17_full2 cfg := C17_full2_of_good cfg (by decide)\n#print axioms holds2\n" if restores else
            "theorem violated : ¬ C17_full cfg := C17_witness_keepalive cfg (by decide)\n#print axioms violated\n"
            "theorem holds_partial : C17_core cfg := C17_partial cfg\n#print axioms holds_partial\n"
            "theorem violated2 : ¬ C17_full2 cfg := C17_witness_keepalive2 cfg (by decide)\n#print axioms violated2\n"
            "theorem holds_partial2 : C17_core2 cfg := C17_partial2 cfg\n#print axioms holds_partial2\n")
    body += ("theorem destroy_balance (evs : List (Nat × Ev2)) (k : Nat) :\n"
             "    (run2 cfg State.init evs).destroyed.count k + (if hasId (run2 cfg State.init evs) k then 1 else 0)\n"
             "      ≤ incarnations (run2 cfg State.init evs) k := C17_destroyed_at_most_once cfg evs k\n#print axioms destroy_balance\n")
    x = "true" if exact else "false"
    body += (f"def cfgR : CfgR := {{ keepAliveRestores := {b}, stampExact := {x} }}\n")
    body += ("theorem holdsR : C17R_full cfgR := C17R_full_of_good cfgR (by decide)\n#print axioms holdsR\n" if exact else
             "theorem violatedR : ¬ C17R_full cfgR := C17R_witness_trunc_full cfgR (by decide)\n#print axioms violatedR\n")
    body += ("theorem destroy_balanceR (evs : List Req) (k : Nat) :\n"
             "    (runR cfgR State.init evs).destroyed.count k + (if hasId (runR cfgR State.init evs) k then 1 else 0)\n"
             "      ≤ incarnations (runR cfgR State.init evs) k := C17R_destroyed_at_most_once cfgR evs k\n#print axioms destroy_balanceR\n")
    if exp_rows:
        body += "def expObs : ExpObs := [" + ", ".join("(%d, %d, %s)" % (i, T, str(bool(v)).lower()) for i, T, v in exp_rows) + "]\n"
        bad = next(((i, T) for i, T, v in exp_rows if bool(v) != (T <= i)), None)
        if bad is None:
            body += ("theorem expiry_full_duration : expiryIsFullDuration expObs = true := by decide +kernel\n"
                     "theorem lifetime_clauses : LifetimeClauses (expOf expObs) := lifetime_of_good expObs expiry_full_duration\n"
                     "#print axioms expiry_full_duration\n#print axioms lifetime_clauses\n")
        else:
            body += ("theorem expiry_not_full_duration : expiryIsFullDuration expObs = false := by decide +kernel\n"
                     f"theorem violated_expiry : ¬ LifetimeClauses (expOf expObs) := C17_witness_expiry expObs {bad[0]} {bad[1]} (by decide +kernel)\n"
                     "#print axioms violated_expiry\n")
    return ("import Bptk.Props.C17\n/-! GENERATED by harness/props/c17.py from /repo on every run — do not edit. -/\n"
            "namespace Bptk.C17.Gen\n"
            f"def cfg : Cfg := {{ keepAliveRestores := {b} }}\n" + body + "end Bptk.C17.Gen\n")


# ------------------------------------------------------------------ real-time cross-check (thorough)
def real_time_timelines(notes=None):
    """Short timelines with real sleeps (<= 20 s in total), wall clock untouched.  Every request is bracketed
    by two clock readings [tb, ta]; a claim of the statement is only checked when it is decided whatever
    instant inside the bracket the server read its clock (so machine load cannot raise a false alarm)."""
    out, decided = [], 0
    plans = [
        [(0, ("create", {"seconds": 2})), (0, ("create", {"milliseconds": 4500})),
         (0, ("create", {"seconds": 3, "milliseconds": 0, "microseconds": 0})), (0, ("access", 2, "begin")), (0, ("access", 2, "step")),
         (1.2, ("keepalive", 0)), (1.2, ("metrics",)), (1.4, ("fullmetrics",)), (0, ("access", 2, "results")),
         (0, ("access", 0, "results")), (1.0, ("metrics",))],
        [(0, ("create", {"seconds": 1})), (0, ("create", {"minutes": 1})), (1.3, ("access", 0, "results")), (0.5, ("metrics",)),
         (0.8, ("access", 1, "results")), (0, ("keepalive", 0))],
    ]
    for plan in plans:
        s = Server(real_time=True)
        try:
            def now_us():
                return (_dt.datetime.now() - s.t0) // US
            before = s.observe()
            for slp, ev in plan:
                time.sleep(slp)
                tb = now_us(); ok, rep = s.do(ev); ta = now_us()
                after = s.observe()
                b = {i: (l, t) for i, l, t, _ in before["live"]}
                a = {i: (l, t) for i, l, t, _ in after["live"]}
                target = ev[1] if ev[0] in ("access", "keepalive") else None
                trigger = ev[0] in ("create", "metrics", "fullmetrics") or (
                    target is not None and (target in b or (ev[0] == "access" and target in before["stored"])))
                for k, (l, tau) in b.items():
                    dcount = after["destroyed"].count(k) - before["destroyed"].count(k)
                    if ta < l + tau:
                        decided += 1
                        if k not in a or dcount:
                            out.append(("real-time", f"{ev} in [{tb},{ta}] µs: instance {k} (last {l}, timeout {tau}) removed/destroyed before its timeout"))
                        elif target == k and not (tb <= a[k][0] <= ta):
                            out.append(("real-time", f"{ev} in [{tb},{ta}] µs: timer of instance {k} not restarted ({a[k][0]})"))
                    elif tb >= l + tau and trigger and target != k:
                        decided += 1
                        if k in a or dcount != 1:
                            out.append(("real-time", f"{ev} in [{tb},{ta}] µs: expired instance {k} (last {l}, timeout {tau}) present={k in a}, destroy() x{dcount}"))
                    elif tb >= l + tau and target == k and tau > 0:
                        decided += 1
                        if k not in a or not ok:
                            out.append(("real-time", f"{ev} in [{tb},{ta}] µs: own access to the not yet swept instance {k} failed"))
                if target is not None and target not in b:
                    decided += 1
                    if ev[0] == "access" and target in before["stored"]:
                        if not ok or target not in a:
                            out.append(("real-time", f"{ev}: externalised instance {target} not restored by the next request"))
                    elif target not in before["stored"] and (ok or target in a):
                        out.append(("real-time", f"{ev}: timed-out, not externalised instance {target} still served"))
                before = after
        finally:
            s.close()
    if notes is not None:
        notes["real_time_claims_decided"] = decided
    return out


def run(chk):
    quiet_bptk_logging()
    sink = io.StringIO()
    with contextlib.redirect_stdout(sink):
        controllable, clock_info = probe_clock_controllable()
    chk.notes["clock_probe"] = clock_info
    if not controllable:
        # harness limit, not a statement about the code: nothing generated under the controlled clock means anything
        ok, why = chk.prove("import Bptk.Props.C17\n/-! GENERATED by harness/props/c17.py — the controlled clock cannot follow this tree. -/\n"
                            "namespace Bptk.C17.Gen\ndef cfg : Cfg := { keepAliveRestores := false }\n"
                            "theorem holds_partial : C17_core cfg := C17_partial cfg\n#print axioms holds_partial\nend Bptk.C17.Gen\n")
        chk.cov["rule"] = "none: the controlled clock cannot follow this tree"
        chk.add_finding("correspondence", "the code does not take the time from the `datetime` attribute of bptkServer.py / externalStateAdapter.py that the harness "
                        f"replaces (an instance created at controlled time 123456789 µs is stamped {clock_info['stored']}, {clock_info['clock_reads']} reads seen): "
                        "the controlled clock cannot follow it, so no timed history can be decided — harness limit" + ("" if chk.quick else "; only the real-time timelines were run"),
                        {"correspondence": "controlled clock vs the code's clock source", "detail": clock_info}, found_input=False)
        if not chk.quick:
            with contextlib.redirect_stdout(sink):
                rt = real_time_timelines(chk.notes)
            for key, text in rt:
                chk.add_finding(key, text, {"real_time": True, "text": text})
        return
    with contextlib.redirect_stdout(sink):
        restores = probe_keepalive_restores()
        exact = probe_stamp_exact()
        chk.notes["clock_reads_per_endpoint"] = probe_reads()
        exp_rows = probe_expiry()
    exp_bad = [(i, T, v) for i, T, v in exp_rows if bool(v) != (T <= i)]
    chk.notes["cfg"] = {"keepAliveRestores": restores, "stampExact": exact, "expiryIsFullDuration": not exp_bad}
    chk.notes["expiry_rows"] = {"rows": len(exp_rows), "deviating": exp_bad[:10]}
    ok, why = chk.prove(gen_lean(restores, exact, exp_rows))
    chk.cov["trusted_base"] = [
        "Lean 4.33 kernel; axioms propext, Classical.choice, Quot.sound (audited per run via #print axioms)",
        "hand-written model lean/Bptk/Core/C17.lean of InstanceManager (create/get/keep-alive/metrics, _timeout_instances) and of the instance-scoped views' _ensure_instance_exists -> get_instance order; tied to /repo by the correspondence of this check",
        "controlled clock: the module attribute `datetime` of bptkServer.py and externalStateAdapter.py is replaced by a harness object that advances between requests AND between the datetime.now() reads of one request (per-request increment plan; the number of reads the real code performs is compared with the model's); CPython datetime/timedelta arithmetic is exact integer microsecond arithmetic",
        "Flask test client instead of a network server; wall-clock behaviour only through the thorough tier's real-time timelines",
    ]
    chk.assumptions = [
        "requests are sequential; inside a request the clock advances between reads (CfgR / stepR / C17R_*), except load-state included: one read per stored file in the directory-listing order, which is observed before the request and passed to the model (loadOrd); timeouts: any JSON numbers the endpoint accepts — the model runs on max(0, timedelta) in microseconds (clamp_expiry), fractional values in quarters of a unit with timedelta's single half-even rounding (quarterMicros, validated against timedelta)",
        "stop-instance / save-state / load-state are events of the model (Ev2): stop-instance and a load-state overwrite drop the bptk object without destroy() (ghost log `dropped`); the live set is compared by id (dict / directory-listing order after load-state is not modelled)",
        "'resources released' is observed as bptk.destroy() being called on the instance's bptk object",
        "reading: the next *request* to a timed-out externalised instance includes keep-alive (Cfg.keepAliveRestores); restored content is C19/C20's subject, here only presence, timer and timeout",
    ]
    req, real, ctx = [f"cfg keepAliveRestores {1 if restores else 0}", f"cfg stampExact {1 if exact else 0}"], ["ok", "ok"], [None, None]
    all_viols = []     # (history index, events, idx, key, text)
    hists = []
    dist = {"events": {}, "units": {}, "ok": 0, "err": 0, "expiries": 0, "restores": 0, "histories": 0}
    rows = {}
    with contextlib.redirect_stdout(sink):
        # unit conversion stream
        rng = chk.rng.fork("c17-units")
        for _ in range(200 if chk.quick else 2000):
            vals = [rng.range(0, 3), rng.range(0, 9), rng.range(0, 30), rng.range(0, 200), rng.range(0, 5000), rng.range(0, 10**4), rng.range(0, 10**7)]
            req.append("micros " + " ".join(map(str, vals))); real.append(str(micros(dict(zip(UNITS, vals))))); ctx.append(("units", vals))
        for evs in fixed_histories():
            lines, viols = run_history(evs)
            hists.append((evs, lines, viols))
        # quarter-unit conversion stream (negative and fractional values): timedelta rounds once, half to even
        rng = chk.rng.fork("c17-quarters")
        for _ in range(300 if chk.quick else 3000):
            qs = [rng.range(-8, 8), rng.range(-30, 30), rng.range(-100, 100), rng.range(-400, 400), rng.range(-20000, 20000), rng.range(-4 * 10**4, 4 * 10**4), rng.range(-4 * 10**6, 4 * 10**6)]
            req.append("qmicros " + " ".join(map(str, qs))); real.append(str(micros({u: q / 4 for u, q in zip(UNITS, qs)}))); ctx.append(("units", qs))
        rng = chk.rng.fork("c17-pattern")
        n_pat = 150 if chk.quick else 1500
        for h in range(n_pat):
            evs = pattern_history(rng.fork(h))
            lines, viols = run_history(evs)
            hists.append((evs, lines, viols))
        rng = chk.rng.fork("c17-hist")
        for h in range(400 if chk.quick else 5000):
            evs, lines, viols = generate_and_run(rng.fork(h), rng.range(8, 40), rng.range(1, 4))
            hists.append((evs, lines, viols))
    for hi, (evs, lines, viols) in enumerate(hists):
        req.append("new"); real.append("ok"); ctx.append(None)
        prev_destroyed = 0
        for j, (item, ln) in enumerate(zip(evs, lines)):
            now, ev, incs = norm(item)
            ml, rl = model_lines(now, ev, incs, ln)
            for a_, b_ in zip(ml, rl):
                req.append(a_); real.append(b_); ctx.append((hi, j))
            rows[row_of(ev)] = rows.get(row_of(ev), 0) + 1
            if incs:
                dist["requests_with_increments"] = dist.get("requests_with_increments", 0) + 1
            dist["events"][ev[0]] = dist["events"].get(ev[0], 0) + 1
            if ev[0] == "create":
                for u, v in (ev[1] or {}).items():
                    if v:
                        dist["units"][u] = dist["units"].get(u, 0) + 1
                if ev[1] and any(v < 0 or v != int(v) for v in ev[1].values()):
                    dist["odd_timeouts"] = dist.get("odd_timeouts", 0) + 1
            dist["ok" if ln.startswith("ok") else "err"] += 1
            nd = len([x for x in ln.split(";destroyed=")[1].split(";")[0].split(",") if x])
            dist["expiries"] += nd - prev_destroyed
            prev_destroyed = nd
        dist["histories"] += 1
        chk.case(tuple(ev_line(*norm(x)) for x in evs), nontrivial=prev_destroyed > 0,
                 sample=[ev_line(*norm(x)) for x in evs][:12] if hi in (3, 9) else None)
        for idx, key, text in viols:
            all_viols.append((hi, evs, idx, key, text))
    model = drive("C17", req)
    chk.cov["traces_validated_against_impl"] = len(hists)
    dist.update(STATS)
    chk.cov["input_distribution"] = dist
    chk.notes["coverage_rows"] = dict(sorted(rows.items()))
    chk.cov["rule"] = ("timed histories of 8..40 requests over <= 4 instances generated online from the observed server state (create with a timeout in "
                       "1..4 of the 7 units incl. 0, short/long mixes, negative and fractional values; begin/results/step/end/keep-alive on live, expired, externalised "
                       "and unknown ids, metrics, full-metrics, stop-instance, save-state, load-state); plus scripted restored-instance patterns with random parameters "
                       "(short-timeout instance externalised next to a long-timeout one, swept, restored by request / keep-alive / load-state, idle past its timeout, "
                       "trigger, metrics, new restore or stop-instance + refused id) — see input_distribution.restored_then_expired_with_other_live; "
                       "over every whole history no bptk object gets destroy() twice; "
                       "the clock jumps to an expiry boundary (last+timeout-2..+2 µs) in 60% of the steps, to the last microseconds of a wall-clock second in 10%; "
                       "in 60% of the requests it also advances BETWEEN the datetime.now() reads of the request (all-1 µs increments so that a deadline falls between two "
                       "particular reads, small random steps, occasionally > 1 s) — input_distribution.requests_with_moving_clock / deadline_inside_request; after every request the live set with last-access "
                       "times, timeouts, session flags, the destroy() log and the external state listing are compared with the model; "
                       "a case is the canonical event list; non-trivial = at least one instance expired")
    chk.cov["exhaustive"] = False
    def same(m_, r_):
        return r_ == "*" or m_ == r_ or (";reads=" not in r_ and m_.rsplit(";reads=", 1)[0] == r_)
    diff = next((i for i, (a, b) in enumerate(zip(model, real)) if not same(a, b)), None)
    if diff is None and len(model) != len(real):
        diff = min(len(model), len(real))
    seen = set()
    for hi, evs, idx, key, text in all_viols:
        if key in seen:
            continue
        seen.add(key)
        with contextlib.redirect_stdout(sink):
            small = shrink(evs[:idx + 1], key)
            _, vv = run_history(small)
        t = next((x[2] for x in vv if x[1] == key), text)
        chk.add_finding(key, f"history {[ev_line(*norm(x)) for x in small]}: {t}",
                        {"events": [[x[0], list(x[1]), list(x[2])] for x in map(norm, small)], "key": key})
    if not chk.quick:
        with contextlib.redirect_stdout(sink):
            t = time.time()
            rt = real_time_timelines(chk.notes)
            chk.notes["real_time_s"] = round(time.time() - t, 1)
        for key, text in rt:
            chk.add_finding(key, text, {"real_time": True, "text": text})
    if not restores and "keep-alive-no-restore" not in seen:
        chk.add_finding("keep-alive-no-restore", "probe: create {seconds:1}; begin-session; run-step (externalised); metrics at 5 s (timed out); keep-alive at 6 s -> HTTP 500, not restored",
                        {"events": [[0, ["create", {"seconds": 1}]], [1, ["access", 0, "begin"]], [2, ["access", 0, "step"]], [5000000, ["metrics"]], [6000000, ["keepalive", 0]]],
                         "key": "keep-alive-no-restore"})
    if exp_bad and not [k for k in seen if k in ("immortal", "removed-early", "release-count")]:
        i, T, v = exp_bad[0]
        chk.add_finding("expiry-not-full-duration", f"probe: instance with timeout {T} µs, metrics after {i} µs of idle time: removed={v}, but timeout <= idle is {T <= i}",
                        {"events": [[0, ["create", {"microseconds": T}], []], [i, ["metrics"], []], [i, ["fullmetrics"], []]], "key": None})
    if not exact and not [k for k in seen if k in ("timestamp-before-request", "timer-corrupted", "removed-early")]:
        chk.add_finding("timestamp-before-request", "probe: create at 1.5 s / session-results at 2.999999 s / keep-alive at 3.99999 s: the stored last-access time is not a clock reading of the request",
                        {"events": [[1500000, ["create", {"seconds": 5}], []], [2999999, ["access", 0, "results"], []]], "key": "timestamp-before-request"})
    if not ok:
        chk.add_finding("obligation", f"proof obligations of C17 no longer check: {why}",
                        {"theorem": "Bptk.C17.Gen.* / Bptk.Props.C17", "detail": why}, found_input=False)
    if diff is not None and not [k for k in seen if k != "keep-alive-no-restore"] and isinstance(ctx[diff] if diff < len(ctx) else None, tuple) \
            and ctx[diff][0] != "units":
        # The model places the clock reads of a request where the pinned code does (one per key of the sweep loop, in dict
        # order).  Another placement or order (one read per sweep, an LRU-ordered dict, a guarded sweep) is a legitimate
        # implementation; the per-step reference check above has already judged every moving-clock request on the interval
        # of its reads.  So: run the same histories once more with the clock FIXED inside each request — where every
        # placement is the same request (theorem stepR_const_eq_step2) — and compare with the model without the read count.
        with contextlib.redirect_stdout(sink):
            diff2, where2, n2, v2 = fixed_clock_recheck(hists, restores, exact, same)
        chk.notes["read_placement"] = {"first_difference": {"line": req[diff], "model": model[diff] if diff < len(model) else None,
                                                            "impl": real[diff] if diff < len(real) else None},
                                       "fixed_clock_recheck": {"histories": n2, "agrees": diff2 is None and not v2}}
        if diff2 is None and not v2:
            diff = None      # only the intra-request read placement / order differs from the model: not a finding
        else:
            chk.notes["read_placement"]["fixed_clock_difference"] = where2
    if diff is not None and not [k for k in seen if k != "keep-alive-no-restore"]:
        c = ctx[diff] if diff < len(ctx) else None
        evs = hists[c[0]][0][:c[1] + 1] if isinstance(c, tuple) and c[0] != "units" else None
        chk.add_finding("correspondence", f"model and implementation disagree at protocol line {diff}: {req[diff]!r}",
                        {"correspondence": "Drive/C17 vs BptkServer under the controlled clock", "line": diff,
                         "events": [[x[0], list(x[1]), list(x[2])] for x in map(norm, evs)] if evs else c,
                         "model": model[diff] if diff < len(model) else None, "impl": real[diff] if diff < len(real) else None},
                        found_input=False)


def fixed_clock_recheck(hists, restores, exact, same):
    """the generated histories again, without clock increments: model vs server, read counts not compared"""
    req = [f"cfg keepAliveRestores {1 if restores else 0}", f"cfg stampExact {1 if exact else 0}"]
    real = ["ok", "ok"]
    viols = []
    n = 0
    for evs, _, _ in hists:
        flat = [(x[0], x[1], []) for x in map(norm, evs)]
        lines, vv = run_history(flat)
        viols += vv
        n += 1
        req.append("new"); real.append("ok")
        for item, ln in zip(flat, lines):
            ml, rl = model_lines(item[0], item[1], [], ln.rsplit(";reads=", 1)[0])
            req += ml; real += rl
    model = drive("C17", req)
    d = next((i for i, (a, b) in enumerate(zip(model, real)) if not same(a, b)), None)
    where = None if d is None else {"line": req[d], "model": model[d], "impl": real[d]}
    return d, where, n, viols[:3]


def replay(path):
    quiet_bptk_logging()
    r = json.load(open(path))["replay"]
    if "events" not in r or not isinstance(r["events"], list) or r.get("real_time"):
        print("replay file has no timed history:", json.dumps(r)[:600])
        return 1
    evs = [norm(x) for x in r["events"]]
    sink = io.StringIO()
    with contextlib.redirect_stdout(sink):
        lines, viols = run_history(evs)
    for x, ln in zip(evs, lines):
        print(ev_line(*x), "->", ln)
    print("violations of the statement on the current tree:", viols)
    key = r.get("key")
    return 1 if (viols if key is None else [v for v in viols if v[1] == key]) else 0
