"""C09 — every way of obtaining results reports the same numbers on the same grid.

probes (3 mechanism facts) -> Gen obligations; correspondence: generated linear SD models x run specs x call
partitions x per-step setting scripts through run_scenarios (df/dict/json), the Python session API and the Flask
test client (run, run-step, run-steps, stream-steps, session-results, flat-session-results); all channels compared
pairwise, with Drive/C09 and with an independent reference (labels = batch grid, values = closed-form Euler with
each step's settings in force from that step on)."""
import json
from common import *

EQN = ["c", "f", "s", "k", "d"]          # "d": second constant of the family `two` (wave 8)
SM, SC = "sm", "sc"


# ------------------------------------------------------------------ the real side
SC2 = "sc2"


def make_factory(case, created, multi=False):
    a, b, s0, c0, start, dt, stop = (case[k] for k in ("a", "b", "s0", "c0", "start", "dt", "stop"))
    def factory():
        from BPTK_Py import Model, bptk
        m = Model(starttime=start, stoptime=stop, dt=dt, name="c09")
        c = m.constant("c"); f = m.flow("f"); s = m.stock("s"); k = m.converter("k")
        if case.get("family") == "lookback":
            # the flow looks back two steps at a converter that is never requested and that no stock or flow reads
            # at its own time: its old values must have been made final before later settings arrive
            import BPTK_Py.sddsl.functions as sd
            g = m.converter("g"); g.equation = c * a
            c.equation = c0; f.equation = sd.delay(m, g, 2 * dt); s.initial_value = s0; s.equation = f; k.equation = s * b + c
        elif case.get("family") == "direct":
            # wave 4: the STOCK's equation names the constant directly, so the stock reads c(t-dt): the constant's own history matters
            c.equation = c0; f.equation = c * a; s.initial_value = s0; s.equation = f + c; k.equation = s * b + c
        elif case.get("family") == "cdelay":
            # wave 4: the flow is a delay of the very constant the step settings change
            import BPTK_Py.sddsl.functions as sd
            c.equation = c0; f.equation = sd.delay(m, c, 2 * dt) * a; s.initial_value = s0; s.equation = f; k.equation = s * b + c
        elif case.get("family") == "two":
            # wave 8: TWO constants feeding different elements (c the flow, d the converter) and two flat tables p, q, so that one
            # settings dictionary can change several names at once and a swap / "all take the last value" is visible
            import BPTK_Py.sddsl.functions as sd
            d_ = m.constant("d"); d_.equation = case["d0"]
            m.points["p"] = flat(0.0); m.points["q"] = flat(0.0)
            c.equation = c0; f.equation = c * a + sd.lookup(sd.time(), "p"); s.initial_value = s0; s.equation = f
            k.equation = s * b + d_ + sd.lookup(sd.time(), "q")
        elif case.get("family") == "points":
            # the converter reads a graphical function; step settings replace its points table (flat table: lookup = its level)
            import BPTK_Py.sddsl.functions as sd
            m.points["p"] = flat(c0)
            c.equation = c0; f.equation = c * a; s.initial_value = s0; s.equation = f; k.equation = s * b + sd.lookup(sd.time(), "p")
        else:
            c.equation = c0; f.equation = c * a; s.initial_value = s0; s.equation = f; k.equation = s * b + c
        bp = bptk()
        bp.register_scenario_manager({SM: {"model": m}})
        scns = {SC: {"constants": {"c": c0}}}
        if multi:
            scns[SC2] = {"constants": {"c": c0 + 1.0}}
        bp.register_scenarios(scenarios=scns, scenario_manager=SM)
        created.append(bp)
        return bp
    return factory


def flat(v):
    return [[-1000.0, float(v)], [1000.0, float(v)]]


def settings_of(v, case=None, scn=None):
    if v is None:
        return None
    if case is not None and case.get("family") == "two":
        st = {}                                   # v = ((name, value), …) in dictionary order; c, d constants, p, q tables
        for name, x in v:
            if name in ("c", "d"):
                st.setdefault("constants", {})[name] = x
            else:
                st.setdefault("points", {})[name] = flat(x)
        return {SM: {scn or SC: st}}
    if case is not None and case.get("family") == "points":
        return {SM: {scn or SC: {"points": {"p": flat(v)}}}}
    return {SM: {scn or SC: {"constants": {"c": v}}}}


class Tok:
    """labels -> tokens: `i<k>` when bit-equal to the k-th label of the batch grid, else `r<repr>`"""
    def __init__(self, labels):
        self.map = {fbits(x): i for i, x in enumerate(labels)}
    def __call__(self, t):
        t = float(t)
        i = self.map.get(fbits(t))
        return "i%d" % i if i is not None else "r" + repr(t)


def canon_step(res, eqs, tok, scn=None):
    """one run_step result {sm: {sc: {eq: {t: v}}}} -> `tok:v,v` (in the order of eqs)"""
    if isinstance(res, dict) and "msg" in res:
        return "stopped"
    try:
        d = res[SM][scn or SC]
        toks = {tok(t) for e in eqs for t in d[EQN[e]].keys()}
        if len(toks) != 1 or any(len(d[EQN[e]]) != 1 for e in eqs):
            return "malformed:" + json.dumps(res, default=str)[:200]
        return toks.pop() + ":" + ",".join(fbits(list(d[EQN[e]].values())[0]) for e in eqs)
    except Exception as ex:  # noqa
        return "malformed:%s:%s" % (type(ex).__name__, str(res)[:200])


def canon_flat_step(res, eqs):
    if isinstance(res, dict) and "msg" in res:
        return "stopped"
    try:
        return ",".join(fbits(res[SM][SC][EQN[e]]) for e in eqs)
    except Exception as ex:  # noqa
        return "malformed:%s" % type(ex).__name__


def canon_bytime(log, eqs, tok):
    rows = []
    for t, res in log.items():
        r = canon_step(res, eqs, tok)
        if not r.startswith(tok(t) + ":"):
            r = "keymismatch(%s)%s" % (tok(t), r)
        rows.append(r)
    return "|".join(rows) or "-"


def canon_byeq(res, eqs, tok):
    if res == {}:            # no step has run yet: an empty result, whatever its nesting
        return ";".join("%d=" % e for e in eqs)
    try:
        d = res[SM][SC]["equations"]
        return ";".join("%d=" % e + ",".join("%s:%s" % (tok(t), fbits(v)) for t, v in d[EQN[e]].items()) for e in eqs)
    except Exception as ex:  # noqa
        return "malformed:%s:%s" % (type(ex).__name__, str(res)[:200])


def canon_flat(res, eqs):
    if res == {}:
        return ";".join("%d=" % e for e in eqs)
    try:
        d = res[SM][SC]["equations"]
        return ";".join("%d=" % e + ",".join(fbits(v) for v in d[EQN[e]]) for e in eqs)
    except Exception as ex:  # noqa
        return "malformed:%s:%s" % (type(ex).__name__, str(res)[:200])


def batch_channels(case):
    """run_scenarios in the three formats (fresh bptk each).  Returns labels, df rows, dict/json per-equation series."""
    created, eqs = [], case["eqs"]
    names = [EQN[e] for e in eqs]
    try:
        fac = make_factory(case, created)
        df = fac().run_scenarios(scenarios=[SC], scenario_managers=[SM], equations=names, return_format="df", series_names={})
        labels = [float(t) for t in df.index]
        tok = Tok(labels)
        col = lambda n: n if n in df.columns else "%s_%s_%s" % (SM, SC, n)     # one scenario: plain equation names
        dfrows = "|".join("%s:%s" % (tok(t), ",".join(fbits(df[col(n)][t]) for n in names)) for t in df.index)
        d = fac().run_scenarios(scenarios=[SC], scenario_managers=[SM], equations=names, return_format="dict", series_names={})
        dd = ";".join("%d=" % e + ",".join("%s:%s" % (tok(t), fbits(v)) for t, v in d[SM][SC]["equations"][EQN[e]].items()) for e in eqs)
        j = json.loads(fac().run_scenarios(scenarios=[SC], scenario_managers=[SM], equations=names, return_format="json", series_names={}))
        jj = ";".join("%d=" % e + ",".join("%s:%s" % (tok(float(t)), fbits(v)) for t, v in j[SM][SC]["equations"][EQN[e]].items()) for e in eqs)
    finally:
        for b in created:
            b.destroy()
    return labels, dfrows, dd, jj


def api_session(case, tok):
    created, eqs = [], case["eqs"]
    out = {"replies": []}
    try:
        bp = make_factory(case, created)()
        names = [EQN[e] for e in eqs]
        bdict = lambda: ";".join("%d=" % e + ",".join("%s:%s" % (tok(t), fbits(v)) for t, v in d_[SM][SC]["equations"][EQN[e]].items()) for e in eqs)
        if case.get("reuse"):
            # wave 7: ONE bptk object is used for a batch run, then the session, then a batch run again (derived state between operations)
            d_ = bp.run_scenarios(scenarios=[SC], scenario_managers=[SM], equations=names, return_format="dict", series_names={})
            out["batch_before"] = bdict()
        bp.begin_session(scenarios=[SC], scenario_managers=[SM], equations=[EQN[e] for e in eqs])
        out["dt"] = (bp.session_state or {}).get("dt")
        def one(v):
            st = settings_of(v, case)
            r = bp.run_step(settings=st) if st is not None else bp.run_step()
            out["replies"].append(canon_step(r, eqs, tok))
        for cl in case["calls"]:
            if cl[0] == "step":
                one(cl[1])
            elif cl[0] == "steps":
                for _ in range(cl[1]):
                    one(cl[2])
            else:
                # stream = step until the reply says "Stoptime reached" (observed on the replies, not on the session's internal clock)
                guard = 0
                while guard < 10000:
                    one(cl[1]); guard += 1
                    if out["replies"][-1] == "stopped":
                        out["replies"].pop()
                        break
        out["results"] = canon_bytime(bp.session_results(index_by_time=True), eqs, tok)
        out["byeq"] = canon_byeq(bp.session_results(index_by_time=False, flat=False), eqs, tok)
        out["flat"] = canon_flat(bp.session_results(index_by_time=False, flat=True), eqs)
        bp.end_session()
        if case.get("reuse") and all(c[-1] is None for c in case["calls"]):
            d_ = bp.run_scenarios(scenarios=[SC], scenario_managers=[SM], equations=names, return_format="dict", series_names={})
            out["batch_after"] = bdict()
    finally:
        for b in created:
            b.destroy()
    return out


def rest_session(case, tok):
    from BPTK_Py.server import BptkServer
    created, eqs = [], case["eqs"]
    out = {"replies": [], "per_call": [], "per_call_list": [], "http": []}
    try:
        app = BptkServer(__name__, make_factory(case, created))
        cl = app.test_client()
        r = cl.post("/run", json={"scenario_managers": [SM], "scenarios": [SC], "equations": [EQN[e] for e in eqs]})
        j = json.loads(r.data)
        out["run"] = ";".join("%d=" % e + ",".join("%s:%s" % (tok(float(t)), fbits(v)) for t, v in j[SM][SC]["equations"][EQN[e]].items()) for e in eqs)
        iid = json.loads(cl.post("/start-instance", json={}).data)["instance_uuid"]
        r = cl.post("/%s/begin-session" % iid, json={"scenario_managers": [SM], "scenarios": [SC], "equations": [EQN[e] for e in eqs]})
        out["http"].append(r.status_code)
        for c in case["calls"]:
            st = settings_of(c[-1], case)
            if c[0] == "step" and case.get("flat"):
                # wave 7: `flatResults` reply of run-step: values without time keys
                r = cl.post("/%s/run-step" % iid, json={"settings": st if st is not None else {}, "flatResults": True})
                reps = ["flat:" + canon_flat_step(json.loads(r.data), eqs)]
            elif c[0] == "step":
                # settings must be present in a JSON body; a call without body runs without settings
                r = cl.post("/%s/run-step" % iid, json={"settings": st}) if st is not None else cl.post("/%s/run-step" % iid)
                reps = [canon_step(_keys(json.loads(r.data)), eqs, tok)]
            elif c[0] == "steps":
                r = cl.post("/%s/run-steps" % iid, json={"numberSteps": c[1], "settings": st if st is not None else {}})
                reps = [canon_step(_keys(x), eqs, tok) for x in json.loads(r.data)]
            else:
                r = cl.post("/%s/stream-steps" % iid, json={"settings": st if st is not None else {}})
                reps = [canon_step(_keys(x), eqs, tok) for x in json.loads(r.get_data(as_text=True))]
            out["http"].append(r.status_code)
            out["per_call_list"].append(reps)
            out["replies"] += reps
        out["byeq"] = canon_byeq(_keys(json.loads(cl.get("/%s/session-results" % iid).data)), eqs, tok)
        out["flat"] = canon_flat(json.loads(cl.get("/%s/flat-session-results" % iid).data), eqs)
    finally:
        for b in created:
            b.destroy()
    return out


def _keys(x):
    """JSON object keys that are times come back as strings"""
    if isinstance(x, dict):
        out = {}
        for k, v in x.items():
            try:
                kk = float(k)
            except (TypeError, ValueError):
                kk = k
            out[kk] = _keys(v)
        return out
    return x


# ------------------------------------------------------------------ reference (independent of the Lean model)
def expand_calls(calls, n):
    """the single steps a call list amounts to when the session walks the batch grid 0..n"""
    ss, k = [], 0
    for c in calls:
        m = 1 if c[0] == "step" else c[1] if c[0] == "steps" else max(0, n + 1 - k)
        for _ in range(m):
            ss.append(c[-1])
            if k <= n:
                k += 1
    return ss


def reference_rows(case, n):
    """property's right-hand side: row j = (label j, values with the settings of step i in force from t_i on)"""
    a, b, s0, c0, dt = (case[k] for k in ("a", "b", "s0", "c0", "dt"))
    ss = expand_calls(case["calls"], n)[: n + 1]
    if case.get("family") == "two":
        cur, rows, s = {"c": c0, "d": case["d0"], "p": 0.0, "q": 0.0}, [], s0
        for j, v in enumerate(ss):
            for name, x in (v or ()):
                cur[name] = x                       # every name its own value
            f = max(0, cur["c"] * a + cur["p"])
            vals = {0: cur["c"], 1: f, 2: s, 3: s * b + cur["d"] + cur["q"], 4: cur["d"]}
            rows.append("i%d:" % j + ",".join(fbits(vals[e]) for e in case["eqs"]))
            s = s + dt * f
        return rows, len(ss)
    cs, cur = [], c0
    for v in ss:
        cur = cur if v is None else v
        cs.append(cur)
    rows, s = [], s0
    for j in range(len(cs)):
        c = cs[j]
        if case.get("family") == "points":            # the settings replace the points table; the constant keeps its value
            f = max(0, c0 * a)
            vals = {0: c0, 1: f, 2: s, 3: s * b + c}
            rows.append("i%d:" % j + ",".join(fbits(vals[e]) for e in case["eqs"]))
            s = s + dt * f
            continue
        f = max(0, (cs[max(0, j - 2)] if case.get("family") in ("lookback", "cdelay") else c) * a)
        vals = {0: c, 1: f, 2: s, 3: s * b + c}
        if case.get("family") == "direct":
            rows.append("i%d:" % j + ",".join(fbits(vals[e]) for e in case["eqs"]))
            s = s + dt * (f + c)
            continue
        rows.append("i%d:" % j + ",".join(fbits(vals[e]) for e in case["eqs"]))
        s = s + dt * f
    return rows, len(ss)


def multi_session(case, tok, n):
    """two scenarios of one manager in ONE session (Python API and REST run-step): every step may carry settings for either,
    both or none; each scenario's replies must be those of its own single-scenario reference (own start value, own script)"""
    from BPTK_Py.server import BptkServer
    eqs, names = case["eqs"], [EQN[e] for e in case["eqs"]]
    ss = expand_calls(case["calls"], n)[: n + 2]
    # scenario 2 receives the value v + 0.25 at every second step that carries a value, and one of its own at step 1
    script2 = [(v + 0.25 if (v is not None and j % 2 == 0) else (3.5 if j == 1 else None)) for j, v in enumerate(ss)]
    def stg_(j):
        d = {}
        for scn, v in ((SC, ss[j]), (SC2, script2[j])):
            if v is not None:
                d.setdefault(SM, {})[scn] = settings_of(v, case, scn)[SM][scn]
        return d
    problems, created = [], []
    try:
        bp = make_factory(case, created, multi=True)()
        bp.begin_session(scenarios=[SC, SC2], scenario_managers=[SM], equations=names)
        api = {SC: [], SC2: []}
        for j in range(len(ss)):
            r = bp.run_step(settings=stg_(j)) if stg_(j) else bp.run_step()
            for scn in (SC, SC2):
                api[scn].append(canon_step(r, eqs, tok, scn))
        bp.end_session()
        app = BptkServer(__name__, make_factory(case, created, multi=True))
        cl = app.test_client()
        iid = json.loads(cl.post("/start-instance", json={}).data)["instance_uuid"]
        cl.post("/%s/begin-session" % iid, json={"scenario_managers": [SM], "scenarios": [SC, SC2], "equations": names})
        rest = {SC: [], SC2: []}
        for j in range(len(ss)):
            r = cl.post("/%s/run-step" % iid, json={"settings": stg_(j)}) if stg_(j) else cl.post("/%s/run-step" % iid)
            x = _keys(json.loads(r.data))
            for scn in (SC, SC2):
                rest[scn].append(canon_step(x, eqs, tok, scn))
    finally:
        for b in created:
            b.destroy()
    for scn, script, c0 in ((SC, ss, case["c0"]), (SC2, script2, case["c0"] + 1.0)):
        own = dict(case, c0=c0, calls=[("step", v) for v in script])
        if case.get("family") == "points":
            own["c0"] = case["c0"]        # the table starts at level c0 in both scenarios; scenario 2 differs in its constant only
        ref, _ = reference_rows(own, n)
        if case.get("family") == "points" and scn == SC2:
            # recompute with the second scenario's constant c0 + 1 and the shared initial table level
            a, b, s0, dt = (case[k] for k in ("a", "b", "s0", "dt"))
            ref, s_, cur = [], s0, case["c0"]
            for j, v in enumerate(script[: n + 1]):
                cur = cur if v is None else v
                f = max(0, (case["c0"] + 1.0) * a)
                vals = {0: case["c0"] + 1.0, 1: f, 2: s_, 3: s_ * b + cur}
                ref.append("i%d:" % j + ",".join(fbits(vals[e]) for e in eqs)); s_ = s_ + dt * f
        got = [r for r in api[scn] if r != "stopped"]
        if got != ref:
            j = next((i for i, (g, r) in enumerate(zip(got, ref)) if g != r), min(len(got), len(ref)))
            problems.append(("multi-scenario-session", "scenario %s of a two-scenario session: step %d reports %s, its own single-scenario reference %s"
                             % (scn, j, got[j] if j < len(got) else None, ref[j] if j < len(ref) else None),
                             {"scenario": scn, "step": j, "script_sc": ss, "script_sc2": script2}))
        if api[scn] != rest[scn]:
            problems.append(("channels-disagree", "two-scenario session: Python API and REST run-step differ for scenario %s" % scn,
                             {"api": api[scn], "rest": rest[scn]}))
    return problems


# ------------------------------------------------------------------ wave 3: sequences of REST /run requests on ONE server
def fb_factory(case, created, cur=None):
    """feedback family: c (rate), f = max(0, s*c), s' = f, k = s*b + c — the values depend on dt.
    cur = (c, start, stop, dt): the model built DIRECTLY with these values (the property's right-hand side)"""
    c0, start, stop, dt = cur[:4] if cur is not None else (case["c0"], case["start"], case["stop"], case["dt"])
    def factory():
        from BPTK_Py import Model, bptk
        m = Model(starttime=start, stoptime=stop, dt=dt, name="c09fb")
        c = m.constant("c"); f = m.flow("f"); s = m.stock("s"); k = m.converter("k")
        d_ = m.constant("d"); d_.equation = cur[4] if cur is not None and len(cur) > 4 else 0.0     # wave 8: a second constant (k = s*b + c + d)
        c.equation = c0; f.equation = s * c; s.initial_value = case["s0"]; s.equation = f; k.equation = s * case["b"] + c + d_
        bp = bptk()
        bp.register_scenario_manager({SM: {"model": m}})
        bp.register_scenarios(scenarios={SC: {"constants": {"c": c0}}}, scenario_manager=SM)
        created.append(bp)
        return bp
    return factory


def canon_run(j, eqs):
    d = j[SM][SC]["equations"]
    return ";".join("%d=" % e + ",".join("%s:%s" % (fbits(float(t)), fbits(v)) for t, v in d[EQN[e]].items()) for e in eqs)


def req_settings(r):
    if r is None:
        return None
    st = {}
    names = [n_ for n_ in (("d", "c") if r.get("dfirst") else ("c", "d")) if r.get(n_) is not None]
    if names:
        st["constants"] = {n_: r[n_] for n_ in names}          # wave 8: two constants in one dictionary, either order
    rs = {k2: r[k1] for k1, k2 in (("start", "starttime"), ("stop", "stoptime"), ("dt", "dt")) if r.get(k1) is not None}
    if rs:
        st["runspecs"] = rs
    return {SM: {SC: st}}


def cumulative(case):
    cur, out = [case["c0"], case["start"], case["stop"], case["dt"], 0.0], []
    for r in case["reqs"]:
        if r is not None:
            for i, k in enumerate(("c", "start", "stop", "dt", "d")):
                if r.get(k) is not None:
                    cur[i] = r[k]
        out.append(tuple(cur))
    return out


def fb_closed_form(case, cur):
    c, start, stop, dt, d = cur
    n = int(round((stop - start) / dt))
    rows, s = {e: [] for e in case["eqs"]}, case["s0"]
    for k in range(n + 1):
        t, f = start + k * dt, max(0, s * c)
        vals = {0: c, 1: f, 2: s, 3: s * case["b"] + c + d}
        for e in case["eqs"]:
            rows[e].append("%s:%s" % (fbits(t), fbits(vals[e])))
        s = s + dt * f
    return ";".join("%d=" % e + ",".join(rows[e]) for e in case["eqs"])


def run_sequence(case, facts):
    """one server, a sequence of POST /run requests (without settings / run specs only / constants / both); every reply against the
    batch run of a freshly built model with the accumulated values, the closed form, the driver, and — for the last request — the sessions"""
    from BPTK_Py.server import BptkServer
    eqs, names = case["eqs"], [EQN[e] for e in case["eqs"]]
    created, replies, fresh, problems = [], [], [], []
    curs = cumulative(case)
    try:
        cl = BptkServer(__name__, fb_factory(case, created)).test_client()
        for r in case["reqs"]:
            body = {"scenario_managers": [SM], "scenarios": [SC], "equations": names}
            if r is not None:
                body["settings"] = req_settings(r)
            resp = cl.post("/run", json=body)
            replies.append(canon_run(json.loads(resp.data), eqs) if resp.status_code == 200 else "http%d" % resp.status_code)
        for cur in curs:
            d = fb_factory(case, created, cur)().run_scenarios(scenarios=[SC], scenario_managers=[SM], equations=names, return_format="dict", series_names={})
            fresh.append(canon_run(d, eqs))
        # the sessions on a model built directly with the last request's values
        cur = curs[-1]
        bp = fb_factory(case, created, cur)()
        bp.begin_session(scenarios=[SC], scenario_managers=[SM], equations=names)
        sess = {e: [] for e in eqs}
        guard = 0
        while bp.session_state["step"] <= bp.session_state["stoptime"] and guard < 1000:
            r = bp.run_step(); guard += 1
            for e in eqs:
                for t, v in r[SM][SC][EQN[e]].items():
                    sess[e].append("%s:%s" % (fbits(float(t)), fbits(v)))
        bp.end_session()
        sess = ";".join("%d=" % e + ",".join(sess[e]) for e in eqs)
        cl2 = BptkServer(__name__, fb_factory(case, created, cur)).test_client()
        iid = json.loads(cl2.post("/start-instance", json={}).data)["instance_uuid"]
        cl2.post("/%s/begin-session" % iid, json={"scenario_managers": [SM], "scenarios": [SC], "equations": names})
        rows = [_keys(x) for x in json.loads(cl2.post("/%s/stream-steps" % iid, json={"settings": {}}).get_data(as_text=True))]
        rsess = ";".join("%d=" % e + ",".join("%s:%s" % (fbits(float(t)), fbits(v)) for x in rows for t, v in x[SM][SC][EQN[e]].items()) for e in eqs)
    finally:
        for b in created:
            b.destroy()
    def first_diff(a, b):
        for ea, eb in zip(a.split(";"), b.split(";")):
            if ea != eb:
                xa, xb = ea.split("=")[1].split(","), eb.split("=")[1].split(",")
                i = next((i for i, (x, y) in enumerate(zip(xa, xb)) if x != y), min(len(xa), len(xb)))
                show = lambda x: None if x is None else "%s(%r) = %r" % (EQN[int(ea.split("=")[0])], from_fbits(x.split(":")[0]), from_fbits(x.split(":")[1]))
                return "%s, fresh model: %s" % (show(xa[i] if i < len(xa) else None), show(xb[i] if i < len(xb) else None))
        return "?"
    for i, (got, want, cur) in enumerate(zip(replies, fresh, curs)):
        if got != want:
            problems.append(("run-after-run-stale", "request %d of the sequence (%s; accumulated c=%r start=%r stop=%r dt=%r): REST /run reports %s"
                             % (i, "no settings" if case["reqs"][i] is None else req_settings(case["reqs"][i])[SM][SC], (cur[0], cur[4]), cur[1], cur[2], cur[3], first_diff(got, want)),
                             {"request": i, "reply": got, "fresh_batch": want}))
            break
    for i, (want, cur) in enumerate(zip(fresh, curs)):
        if want != fb_closed_form(case, cur):
            problems.append(("channels-disagree", "batch run of the directly built feedback model differs from the closed-form Euler values (request %d)" % i,
                             {"batch": want, "closed_form": fb_closed_form(case, cur)}))
            break
    if not (sess == rsess == fresh[-1]):
        problems.append(("channels-disagree", "feedback family: Python session / REST stream-steps / batch run of the directly built model differ",
                         {"session": sess, "rest_session": rsess, "batch": fresh[-1]}))
    h = lambda x: "-" if x is None else fbits(x)
    req = ["rbegin %s %s %s %s %s %s %s" % (fbits(case["b"]), fbits(case["s0"]), fbits(case["c0"]), fbits(case["start"]), fbits(case["stop"]), fbits(case["dt"]),
                                           ",".join(map(str, eqs)))]
    exp = ["ok"]
    for r, rep in zip(case["reqs"], replies):
        req.append("rrun none" if r is None else "rrun %s %s %s %s" % (h(r.get("c")), h(r.get("start")), h(r.get("stop")), h(r.get("dt"))))
        exp.append(rep)
    if any(r is not None and r.get("d") is not None for r in case["reqs"]):
        req, exp = [], []                     # the driver's run-sequence simulator carries one constant: reference only
    return req, exp, problems


def gen_run_sequence(rng):
    start = rng.choice([0.0, 1.0])
    case = {"b": rng.choice([1.0, 3.0, 0.25]), "s0": rng.choice([100.0, 1.0, 2.5]), "c0": rng.choice([0.1, 0.25, 0.5, 1.0]),
            "start": start, "dt": rng.choice([1.0, 0.5, 0.25]), "stop": start + rng.choice([2.0, 3.0, 4.0]), "eqs": rng.choice(EQSETS), "reqs": []}
    def runspecs():
        r = {}
        if rng.chance(2, 3): r["dt"] = rng.choice([1.0, 0.5, 0.25])
        if rng.chance(1, 3): r["start"] = rng.choice([0.0, 1.0, 2.0])
        if rng.chance(1, 3): r["stop"] = rng.choice([3.0, 4.0, 5.0, 6.0])
        return r or {"dt": rng.choice([0.5, 0.25])}
    for _ in range(rng.range(2, 5)):
        k = rng.below(10)
        if k < 2:
            case["reqs"].append(None)                                   # no settings entry at all
        elif k < 6:
            case["reqs"].append(runspecs())                             # settings carry ONLY run specs
        elif k < 8:
            case["reqs"].append({"c": rng.choice([0.1, 0.2, 0.75, 0.0])})   # constants only
        else:
            case["reqs"].append(dict(runspecs(), c=rng.choice([0.1, 0.3, 0.5])))
        if case["reqs"][-1] is not None and "c" in case["reqs"][-1] and rng.chance(1, 2):
            case["reqs"][-1].update(d=rng.choice([2.0, 7.5, 1.0]), dfirst=rng.chance(1, 2))     # two constants in one /run dictionary
    return case


FIXED_SEQUENCES = [
    # the seeded scenario: growth model, /run with its own run specs, then /run whose settings carry only {dt: 0.5}
    {"b": 1.0, "s0": 100.0, "c0": 0.1, "start": 0.0, "dt": 1.0, "stop": 4.0, "eqs": [2, 1, 0], "reqs": [None, {"dt": 0.5}]},
    {"b": 1.0, "s0": 100.0, "c0": 0.1, "start": 0.0, "dt": 1.0, "stop": 4.0, "eqs": [2], "reqs": [{"stop": 3.0}, {"start": 1.0}, {"dt": 0.25}, {"c": 0.5}, None]},
    {"b": 3.0, "s0": 1.0, "c0": 0.5, "start": 1.0, "dt": 0.5, "stop": 3.0, "eqs": [3, 1], "reqs": [{"c": 0.25}, {"dt": 1.0, "start": 0.0}, {"dt": 0.25, "c": 1.0}, {"stop": 5.0}]},
    {"b": 1.0, "s0": 1.0, "c0": 0.5, "start": 0.0, "dt": 1.0, "stop": 3.0, "eqs": [3, 1], "reqs": [None, {"c": 0.25, "d": 7.0}, {"d": 2.0, "c": 1.0, "dfirst": True, "dt": 0.5}]},
]


def seq_show(case):
    return {k: case[k] for k in ("b", "s0", "c0", "start", "stop", "dt")} | {"equations": [EQN[e] for e in case["eqs"]],
            "run_requests": ["no settings" if r is None else req_settings(r)[SM][SC] for r in case["reqs"]]}


def probe_run_resets():
    try:
        return not run_sequence(FIXED_SEQUENCES[0], None)[2]
    except Exception:
        return False


# ------------------------------------------------------------------ wave 9: session lifecycles on ONE object / ONE REST instance
def lifecycle(case, facts):
    """[begin_session, steps, reads of every view after every step (the by-equation view twice in a row)] x 2-3 on one bptk object and on one REST
    instance, with or without end_session in between, other requested equations / settings / lengths per session.  Every read must be what the
    CURRENT session alone reports (closed-form reference; Python = REST).  Returns protocol lines, expected replies, problems."""
    from BPTK_Py.server import BptkServer
    created, problems = [], []
    labels = batch_channels(dict(case, eqs=[2], calls=[]))[0]
    n, tok = len(labels) - 1, Tok(labels)
    def expected(sess, j):
        rows, _ = reference_rows(dict(case, eqs=sess["eqs"], calls=[("step", v) for v in sess["vals"][:j]]), n)
        bt = "|".join(rows) or "-"
        be = ";".join("%d=" % e + ",".join("%s:%s" % (r.split(":")[0], r.split(":")[1].split(",")[i]) for r in rows) for i, e in enumerate(sess["eqs"]))
        fl = ";".join("%d=" % e + ",".join(r.split(":")[1].split(",")[i] for r in rows) for i, e in enumerate(sess["eqs"]))
        return bt, be, fl
    req = ["model %s %s %s %s 0" % tuple(fbits(case[k]) for k in ("a", "b", "s0", "dt")), "spec %d 1 %s" % (n, ",".join("i%d" % i for i in range(n + 2)))]
    exp = ["ok", "ok"]
    def note(where, si, j, view, got, want):
        if got != want and not problems:
            problems.append(("session-views-lifecycle", "%s, session %d (%s the session before was ended), after %d step(s): %s reports %s, the current session alone gives %s"
                             % (where, si, "" if si == 0 else ("and" if case["sessions"][si - 1]["end"] else "and NOT"), j, view, got, want), {"session": si, "steps": j, "view": view}))
    try:
        bp = make_factory(case, created)()
        cl = BptkServer(__name__, make_factory(case, created)).test_client()
        iid = json.loads(cl.post("/start-instance", json={}).data)["instance_uuid"]
        for si, sess in enumerate(case["sessions"]):
            eqs, names = sess["eqs"], [EQN[e] for e in sess["eqs"]]
            bp.begin_session(scenarios=[SC], scenario_managers=[SM], equations=names)
            cl.post("/%s/begin-session" % iid, json={"scenario_managers": [SM], "scenarios": [SC], "equations": names})
            req.append("begin %s %d %s" % (fbits(case["c0"]), lazy_flag(eqs), ",".join(map(str, eqs)))); exp.append("ok")
            for j in range(len(sess["vals"]) + 1):
                if j > 0:
                    st = settings_of(sess["vals"][j - 1], case)
                    r = bp.run_step(settings=st) if st is not None else bp.run_step()
                    rr = cl.post("/%s/run-step" % iid, json={"settings": st}) if st is not None else cl.post("/%s/run-step" % iid)
                    rep = canon_step(r, eqs, tok)
                    note("REST run-step vs Python run_step", si, j, "the step reply", canon_step(_keys(json.loads(rr.data)), eqs, tok), rep)
                    req.append(call_line(("step", sess["vals"][j - 1]))); exp.append(rep)
                bt, be, fl = expected(sess, j)
                got_bt = canon_bytime(bp.session_results(index_by_time=True), eqs, tok)
                got_be = [canon_byeq(bp.session_results(index_by_time=False, flat=False), eqs, tok) for _ in range(2)]      # twice in a row: idempotent
                got_fl = canon_flat(bp.session_results(index_by_time=False, flat=True), eqs)
                rest_be = [canon_byeq(_keys(json.loads(cl.get("/%s/session-results" % iid).data)), eqs, tok) for _ in range(2)]
                rest_fl = canon_flat(json.loads(cl.get("/%s/flat-session-results" % iid).data), eqs)
                note("Python session_results(index_by_time=True)", si, j, "the by-time view", got_bt, bt)
                for k_ in range(2):
                    note("Python session_results(index_by_time=False), read %d" % (k_ + 1), si, j, "the by-equation view", got_be[k_], be)
                    note("GET session-results, read %d" % (k_ + 1), si, j, "the by-equation view", rest_be[k_], be)
                note("Python session_results(flat=True)", si, j, "the flat view", got_fl, fl)
                note("GET flat-session-results", si, j, "the flat view", rest_fl, fl)
                req += ["results", "byeq", "byeq", "flat"]; exp += [got_bt, got_be[0], got_be[1], got_fl]
            if sess["end"]:
                bp.end_session(); cl.post("/%s/end-session" % iid)
                req.append("endsession"); exp.append("ok")
    finally:
        for b in created:
            b.destroy()
    return req, exp, problems


def gen_lifecycle(rng):
    dt = rng.choice([1.0, 0.5, 0.25])
    start = rng.choice([0.0, 1.0])
    case = {"a": rng.choice([1.0, 2.0, 0.5]), "b": rng.choice([1.0, 3.0]), "s0": rng.choice([0.0, 1.0, 2.5]), "c0": rng.choice([1.0, 2.0, 0.75]),
            "start": start, "dt": dt, "stop": start + 5 * dt, "sessions": []}
    for _ in range(rng.range(2, 3)):
        k = rng.range(1, 4)
        case["sessions"].append({"eqs": rng.choice(EQSETS), "vals": [None if rng.chance(1, 2) else rng.choice([10.0, 0.5, 3.0, 0.0, 7]) for _ in range(k)],
                                 "end": rng.chance(1, 2)})
    return case


FIXED_LIFECYCLES = [
    # the seeded scenario: read the by-equation view during a session, begin again without end_session, read again
    {"a": 1.0, "b": 1.0, "s0": 0.0, "c0": 1.0, "start": 0.0, "dt": 1.0, "stop": 5.0,
     "sessions": [{"eqs": [2], "vals": [None, None], "end": False}, {"eqs": [2], "vals": [5.0], "end": False}, {"eqs": [3, 1], "vals": [None, 0.5, None], "end": True}]},
    {"a": 2.0, "b": 3.0, "s0": 1.0, "c0": 0.75, "start": 1.0, "dt": 0.5, "stop": 3.5,
     "sessions": [{"eqs": [0, 1, 2, 3], "vals": [10.0, None, None], "end": True}, {"eqs": [2, 3], "vals": [None], "end": False}, {"eqs": [2, 3], "vals": [None, 3.0], "end": False}]},
]


def lifecycle_show(case):
    return {k: case[k] for k in ("a", "b", "s0", "c0", "start", "dt", "stop")} | {"sessions": [
        {"equations": [EQN[e] for e in s_["eqs"]], "steps": ["run-step" + ("" if v is None else " value=%r" % (v,)) for v in s_["vals"]],
         "then": "end_session" if s_["end"] else "no end_session"} for s_ in case["sessions"]]}


def probe_views_current():
    try:
        return not lifecycle(FIXED_LIFECYCLES[0], None)[2]
    except Exception:
        return False


# ------------------------------------------------------------------ wave 10: sessions begun with settings that carry RUN SPECS
def session_runspecs(case, facts):
    """begin_session (Python and REST instance) with settings containing `runspecs` (dt / stoptime / starttime alone or combined, decimal dt, with or
    without a constant), twice in a row on one object: every session channel (run_step replies, by-equation view, REST stream-steps, GET session-results)
    must walk the grid and report the values of the BATCH run of a model built directly with the accumulated run specs and constant."""
    from BPTK_Py.server import BptkServer
    eqs, names = case["eqs"], [EQN[e] for e in case["eqs"]]
    created, problems = [], []
    curs = cumulative(case)
    def series(rows):
        return ";".join("%d=" % e + ",".join("%s:%s" % (fbits(float(t)), fbits(v)) for x in rows for t, v in x[SM][SC][EQN[e]].items()) for e in eqs)
    def byeq(res):
        try:
            d = res[SM][SC]["equations"]
            return ";".join("%d=" % e + ",".join("%s:%s" % (fbits(float(t)), fbits(v)) for t, v in d[EQN[e]].items()) for e in eqs)
        except Exception as ex:  # noqa
            return "malformed:%s" % type(ex).__name__
    try:
        bp = fb_factory(case, created)()
        cl = BptkServer(__name__, fb_factory(case, created)).test_client()
        iid = json.loads(cl.post("/start-instance", json={}).data)["instance_uuid"]
        for i, (r, cur) in enumerate(zip(case["reqs"], curs)):
            stg = req_settings(r) if r is not None else {}
            want = canon_run(fb_factory(case, created, cur)().run_scenarios(scenarios=[SC], scenario_managers=[SM], equations=names, return_format="dict", series_names={}), eqs)
            bp.begin_session(scenarios=[SC], scenario_managers=[SM], equations=names, settings=stg)
            rows, guard = [], 0
            while guard < 2000:
                x = bp.run_step(); guard += 1
                if not x or "msg" in x:
                    break
                rows.append(x)
            got = {"Python run_step": series(rows), "Python session_results(index_by_time=False)": byeq(bp.session_results(index_by_time=False))}
            cl.post("/%s/begin-session" % iid, json={"scenario_managers": [SM], "scenarios": [SC], "equations": names, "settings": stg})
            rr = [_keys(x) for x in json.loads(cl.post("/%s/stream-steps" % iid, json={"settings": {}}).get_data(as_text=True))]
            got["REST stream-steps"] = series(rr)
            got["GET session-results"] = byeq(_keys(json.loads(cl.get("/%s/session-results" % iid).data)))
            for where, g in got.items():
                if g != want and not problems:
                    ga, wa = g.split(";")[0].split("=")[1].split(","), want.split(";")[0].split("=")[1].split(",")
                    grid = lambda xs: [from_fbits(x.split(":")[0]) for x in xs if ":" in x]
                    problems.append(("session-runspecs-settings", "session %d begun with settings %s (accumulated c=%r start=%r stop=%r dt=%r): %s walks the grid %s…, the batch run of a model "
                                     "built with these run specs %s… (%d vs %d points)" % (i, stg.get(SM, {}).get(SC, {}), cur[0], cur[1], cur[2], cur[3], where, grid(ga)[:5], grid(wa)[:5], len(ga), len(wa))
                                     if grid(ga) != grid(wa) else
                                     "session %d begun with settings %s: %s reports other VALUES than the batch run of a model built with these run specs" % (i, stg.get(SM, {}).get(SC, {}), where),
                                     {"session": i, "where": where, "got": g, "batch": want}))
    finally:
        for b in created:
            b.destroy()
    return problems


def gen_session_runspecs(rng):
    case = gen_run_sequence(rng)
    case["reqs"] = []
    for _ in range(rng.range(1, 2)):
        r = {}
        which = rng.below(6)
        if which in (0, 3, 5): r["dt"] = rng.choice([0.5, 0.25, 0.2, 0.1, 1.0])
        if which in (1, 3, 4): r["stop"] = rng.choice([3.0, 4.0, 5.0, 6.0])
        if which in (2, 4, 5): r["start"] = rng.choice([0.0, 1.0, 2.0])
        if rng.chance(1, 3): r["c"] = rng.choice([0.1, 0.3, 0.5])
        case["reqs"].append(r)
    return case


FIXED_SESSION_RUNSPECS = [
    {"b": 1.0, "s0": 100.0, "c0": 0.1, "start": 0.0, "dt": 1.0, "stop": 4.0, "eqs": [2, 1], "reqs": [{"dt": 0.5}, None]},
    {"b": 1.0, "s0": 100.0, "c0": 0.1, "start": 0.0, "dt": 1.0, "stop": 4.0, "eqs": [2], "reqs": [{"stop": 6.0}, {"start": 1.0, "dt": 0.2}]},
    {"b": 3.0, "s0": 1.0, "c0": 0.5, "start": 1.0, "dt": 0.5, "stop": 3.0, "eqs": [3, 1], "reqs": [{"start": 0.0}, {"dt": 0.1, "c": 0.25}]},
]


# ------------------------------------------------------------------ wave 10: several SD scenarios with different grids in ONE run_scenarios call
def multi_scenario_batch(case):
    """two scenarios of one manager with different stop times / dts, run in one call, both listing orders: the dataframe, the dict and the json format
    must report every scenario's value at every time of ITS grid (= the scenario run alone)"""
    created, problems = [], []
    try:
        from BPTK_Py import Model, bptk
        m = Model(starttime=case["start"], stoptime=case["stop"], dt=case["dt"], name="c09ms")
        c = m.constant("c"); f = m.flow("f"); s = m.stock("s")
        c.equation = case["c0"]; f.equation = s * c; s.initial_value = case["s0"]; s.equation = f
        bp = bptk(); created.append(bp)
        bp.register_scenario_manager({SM: {"model": m}})
        bp.register_scenarios(scenarios={"one": {"runspecs": dict(case["rs1"])}, "two": {"runspecs": dict(case["rs2"])}}, scenario_manager=SM)
        alone = {}
        for scn in ("one", "two"):
            d = bp.run_scenarios(scenarios=[scn], scenario_managers=[SM], equations=["s"], return_format="dict", series_names={})
            alone[scn] = {fbits(float(t)): fbits(v) for t, v in d[SM][scn]["equations"]["s"].items()}
        for order in (["one", "two"], ["two", "one"]):
            df = bp.run_scenarios(scenarios=order, scenario_managers=[SM], equations=["s"], return_format="df", series_names={})
            dd = bp.run_scenarios(scenarios=order, scenario_managers=[SM], equations=["s"], return_format="dict", series_names={})
            jj = json.loads(bp.run_scenarios(scenarios=order, scenario_managers=[SM], equations=["s"], return_format="json", series_names={}))
            for scn in order:
                col = next((c_ for c_ in df.columns if c_ == "%s_%s_s" % (SM, scn)), None)
                got = {"df": {fbits(float(t)): fbits(v) for t, v in df[col].items() if v == v} if col else {},
                       "dict": {fbits(float(t)): fbits(v) for t, v in dd[SM][scn]["equations"]["s"].items()},
                       "json": {fbits(float(t)): fbits(v) for t, v in jj[SM][scn]["equations"]["s"].items()}}
                for fmt, g in got.items():
                    if g != alone[scn] and not problems:
                        problems.append(("batch-formats-multi-scenario", "run_scenarios(scenarios=%r, return_format=%r): scenario %r (run specs %s) is reported at the times %s, run alone it has %s"
                                         % (order, fmt, scn, case["rs1"] if scn == "one" else case["rs2"], sorted(from_fbits(t) for t in g), sorted(from_fbits(t) for t in alone[scn]))
                                         if sorted(g) != sorted(alone[scn]) else
                                         "run_scenarios(scenarios=%r, return_format=%r): scenario %r has other values than run alone" % (order, fmt, scn),
                                         {"order": order, "format": fmt, "scenario": scn}))
    finally:
        for b in created:
            b.destroy()
    return problems


FIXED_MULTI_BATCH = [
    {"start": 0.0, "stop": 2.0, "dt": 1.0, "c0": 0.5, "s0": 1.0, "rs1": {"stoptime": 2.0}, "rs2": {"stoptime": 4.0, "dt": 0.5}},
    {"start": 0.0, "stop": 3.0, "dt": 1.0, "c0": 0.1, "s0": 100.0, "rs1": {"stoptime": 5.0}, "rs2": {"starttime": 1.0}},
    {"start": 1.0, "stop": 3.0, "dt": 0.5, "c0": 0.25, "s0": 2.5, "rs1": {"dt": 0.25}, "rs2": {"dt": 1.0, "stoptime": 4.0}},
]


# ------------------------------------------------------------------ probes
def probe_case(dt, n, eqs, calls, start=0.0):
    return {"a": 1.0, "b": 1.0, "s0": 0.0, "c0": 1.0, "start": start, "dt": dt, "stop": start + n * dt if dt != 0.1 else round(start + n * dt, 10),
            "eqs": eqs, "calls": calls}


def probe_session_dt():
    created = []
    try:
        bp = make_factory(probe_case(0.5, 4, [2], []), created)()
        bp.begin_session(scenarios=[SC], scenario_managers=[SM], equations=["s"])
        return bp.session_state["dt"] == 0.5
    finally:
        for b in created: b.destroy()


def probe_clock():
    created = []
    try:
        bp = make_factory(probe_case(0.1, 10, [2], []), created)()
        bp.begin_session(scenarios=[SC], scenario_managers=[SM], equations=["s"], dt=0.1)
        for _ in range(3):
            bp.run_step()
        return bp.session_state["step"] == 0.3
    finally:
        for b in created: b.destroy()


def probe_finalises():
    created = []
    try:
        bp = make_factory(probe_case(1.0, 6, [2], []), created)()
        bp.begin_session(scenarios=[SC], scenario_managers=[SM], equations=["s"], dt=1.0)
        vals = []
        for j in range(5):
            r = bp.run_step(settings=settings_of(10.0)) if j == 3 else bp.run_step()
            vals.append(list(r[SM][SC]["s"].values())[0])
        return vals == [0.0, 1.0, 2.0, 3.0, 13.0]
    finally:
        for b in created: b.destroy()


def probe_finalises_lookback():
    """every equation of the scenario is evaluated at each step: the look-back family (the flow reads an auxiliary two steps
    back that nobody requests and no stock or flow reads at its own time), only the stock requested, c -> 10 with the fourth step"""
    created = []
    try:
        bp = make_factory(dict(probe_case(1.0, 8, [2], []), family="lookback"), created)()
        bp.begin_session(scenarios=[SC], scenario_managers=[SM], equations=["s"], dt=1.0)
        vals = []
        for j in range(7):
            r = bp.run_step(settings=settings_of(10.0)) if j == 3 else bp.run_step()
            vals.append(list(r[SM][SC]["s"].values())[0])
        return vals == [0.0, 1.0, 2.0, 3.0, 4.0, 5.0, 15.0]
    finally:
        for b in created: b.destroy()


def probe_keeps_memo():
    """change_equation with a step keeps the constant's earlier values: the stock names the constant directly (reads c(t-dt)),
    c -> 10 with the fourth step, only the stock requested"""
    created = []
    try:
        bp = make_factory(dict(probe_case(1.0, 8, [2], []), family="direct"), created)()
        bp.begin_session(scenarios=[SC], scenario_managers=[SM], equations=["s"], dt=1.0)
        vals = []
        for j in range(6):
            r = bp.run_step(settings=settings_of(10.0)) if j == 3 else bp.run_step()
            vals.append(list(r[SM][SC]["s"].values())[0])
        return vals == [0.0, 2.0, 4.0, 6.0, 26.0, 46.0]
    except Exception:
        return False
    finally:
        for b in created: b.destroy()


def probe_per_key():
    """one step's settings change two constants (both dictionary orders): each must take ITS value"""
    ok = True
    for pairs in ((("c", 5.0), ("d", 7.0)), (("d", 7.0), ("c", 5.0))):
        created = []
        try:
            case = dict(probe_case(1.0, 4, [0, 4], []), family="two", d0=0.5)
            bp = make_factory(case, created)()
            bp.begin_session(scenarios=[SC], scenario_managers=[SM], equations=["c", "d"], dt=1.0)
            bp.run_step()
            r = bp.run_step(settings=settings_of(pairs, case))
            ok = ok and list(r[SM][SC]["c"].values())[0] == 5.0 and list(r[SM][SC]["d"].values())[0] == 7.0
        except Exception:
            ok = False
        finally:
            for b in created: b.destroy()
    return ok


PROBE_ERRORS = {}


def probe_all():
    """behavioural probes through the public API; a probe that cannot run leaves its fact unestablished (False, with a note): the obligation is
    then routed to the failing-input search"""
    def g(name, fn):
        try:
            return bool(fn())
        except Exception as e:  # noqa
            PROBE_ERRORS[name] = "%s: %s" % (type(e).__name__, e)
            return False
    state = g("state", probe_finalises)
    return {"dt": g("dt", probe_session_dt), "clock": g("clock", probe_clock), "final": state and g("final", probe_finalises_lookback), "state": state,
            "run": g("run", probe_run_resets), "keep": g("keep", probe_keeps_memo), "perkey": g("perkey", probe_per_key), "views": g("views", probe_views_current),
            "sclock": g("sclock", lambda: not session_runspecs(FIXED_SESSION_RUNSPECS[0], None)),      # begin_session(settings={runspecs {dt 0.5}}) walks the 9-point grid
            "dfgrid": g("dfgrid", lambda: not multi_scenario_batch(FIXED_MULTI_BATCH[0]))}             # two scenarios, both listing orders, df = dict = json on each own grid


def gen_lean(f):
    b = lambda x: "true" if x else "false"
    cfg = (f"def cfg : Cfg := {{ sessionDtFromScenario := {b(f['dt'])}, stepClockNormalised := {b(f['clock'])}, "
           f"stepFinalisesAll := {b(f['final'])}, stepFinalisesState := {b(f['state'])}, runResetsOnAnySettings := {b(f['run'])}, changeEquationKeepsMemo := {b(f['keep'])}, settingsAppliedPerKey := {b(f['perkey'])}, viewsDeriveFromCurrentLog := {b(f['views'])}, sessionClockFromAppliedSettings := {b(f['sclock'])}, dfKeepsEveryScenarioGrid := {b(f['dfgrid'])} }}\n")
    if f["dt"] and f["clock"] and f["final"] and f["run"] and f["keep"] and f["perkey"] and f["views"] and f["sclock"] and f["dfgrid"]:
        body = "theorem holds : C09_full cfg := C09_full_of_good cfg (by decide)\n#print axioms holds\n"
    else:
        thm = ("C09_witness_session_clock cfg (by decide)" if not f["sclock"] else "C09_witness_df_first_index cfg (by decide)" if not f["dfgrid"] else
               "C09_witness_session_dt cfg (by decide)" if not f["dt"] else "C09_witness_clock cfg (by decide)" if not f["clock"] else
               "C09_witness_run_runspecs_only cfg (by decide)" if (f["final"] and not f["run"]) else
               "C09_witness_memo_dropped cfg (by decide) (by decide)" if (f["final"] and not f["keep"]) else
               "C09_witness_last_value cfg (by decide) (by decide)" if (f["final"] and not f["perkey"]) else
               "C09_witness_view_cache cfg (by decide)" if f["final"] else
               "C09_witness_state_only cfg (by decide) (by decide)" if f["state"] else "C09_witness_settings_leak cfg (by decide)")
        body = (f"theorem violated : ¬ C09_full cfg := {thm}\n#print axioms violated\n"
                "#print axioms partition_invariance\n#print axioms formats_agree\n#print axioms C09_partial_all_requested\n")
    return ("import Bptk.Props.C09\n/-! GENERATED by harness/props/c09.py from the code under test on every run — do not edit. -/\n"
            "namespace Bptk.C09.Gen\n" + cfg + body + "end Bptk.C09.Gen\n")


# ------------------------------------------------------------------ cases
DTS = [1.0, 0.5, 0.25, 0.2, 0.1]
EQSETS = [[2], [2, 1, 0], [3], [2, 3], [0, 1, 2, 3], [1], [3, 1]]


def gen_calls(rng, n):
    calls, k = [], 0
    val = lambda: None if rng.chance(1, 2) else rng.choice([10.0, 0.5, 3.0, 7.25, 0.0, -2.0, 0, 7, 1234567.0, 0.30000000000000004])   # wave 7: ints, large, many decimals
    for _ in range(rng.range(1, 6)):
        r = rng.below(10)
        if r < 4:
            calls.append(("step", val())); k += 1
        elif r < 8:
            m = rng.range(0, max(1, min(4, n + 1 - k)))
            calls.append(("steps", m, val())); k += m
        else:
            calls.append(("stream", val())); k = n + 1
            if not rng.chance(1, 2):
                break              # else: further calls after a completed stream-steps (the lock is released on completion)
        if k > n and not rng.chance(1, 3):
            break
    if rng.chance(1, 3) and k <= n:
        calls.append(("stream", val()))
    return calls


def gen_case(rng, fixed=None):
    dt = rng.choice(DTS)
    start = rng.choice([0.0, 1.0, 2.0])
    n = rng.range(2, 9)
    case = {"a": rng.choice([1.0, 2.0, 0.5, 1.5, 0.3]), "b": rng.choice([1.0, 3.0, 0.25, 1.1]), "s0": rng.choice([0.0, 1.0, 2.5, 0.7]),
            "c0": rng.choice([1.0, 2.0, 0.75, 0.1]), "start": start, "dt": dt, "stop": round(start + n * dt, 10),
            "eqs": rng.choice(EQSETS), "calls": gen_calls(rng, n)}
    r = rng.below(12)
    if r >= 10:
        case["family"] = "two"               # wave 8: settings dictionaries changing 2–4 names at once, pairwise different values
        case["d0"] = rng.choice([0.5, 2.0, 1.25])
        case["eqs"] = rng.choice([[0, 4], [3, 1], [0, 1, 2, 3, 4], [3], [1, 4], [4, 0, 3]])
        def dict_value():
            names = rng.shuffle(["c", "d", "p", "q"])[:rng.choice([2, 2, 3, 4, 1])]
            vals = rng.shuffle([10.0, 0.5, 3.0, 7.25, 0.0, -2.0, 7, 4.5])
            return tuple((nm, vals[i]) for i, nm in enumerate(names))
        case["calls"] = [c[:-1] + ((dict_value() if c[-1] is not None else None),) for c in case["calls"]]
        if all(c[-1] is None for c in case["calls"]):
            case["calls"][0] = case["calls"][0][:-1] + (dict_value(),)
    elif r < 2:
        case["family"] = "lookback"
    elif r < 4:
        case["family"] = "direct"            # the stock names the changed constant directly
    elif r < 6:
        case["family"] = "cdelay"            # delay of the changed constant
    elif r < 7:
        case["family"] = "points"            # step settings carry `points` (a new table for the graphical function k reads)
    if rng.chance(1, 4):
        case["flat"] = True                  # REST run-step with flatResults
    if rng.chance(1, 4):
        case["reuse"] = True                 # batch run before (and after) the session on the same bptk object
    if rng.chance(1, 5) and case.get("family") != "two":
        case["multi"] = True                 # additionally: the same script in a two-scenario session
    if fixed:
        case.update(fixed)
    return case


def fixed_cases():
    out = []
    for dt in DTS:                                    # whole run in every partition style, no settings
        for calls in ([("stream", None)], [("steps", 3, None), ("stream", None)], [("step", None)] * 12,
                      [("step", None), ("steps", 2, None), ("step", None), ("stream", None)]):
            out.append(dict(probe_case(dt, 6, [2, 1, 0], list(calls), start=1.0), a=2.0, b=3.0, s0=1.0))
    for eqs in ([2], [1, 2], [3]):                    # look-back family: c changes with the fourth and sixth step
        out.append(dict(probe_case(1.0, 8, eqs, [("steps", 3, None), ("step", 5.0), ("step", None), ("step", 0.5), ("stream", None)]), family="lookback"))
    two = lambda eqs, calls: dict(probe_case(1.0, 6, eqs, calls), family="two", d0=0.5, a=2.0, b=3.0)
    for eqs in ([0, 4], [3, 1], [0, 1, 2, 3, 4]):     # wave 8: several names in ONE settings dictionary, both orders, first and later steps, every stepping call
        out.append(two(eqs, [("step", (("c", 5.0), ("d", 7.0))), ("stream", None)]))
        out.append(two(eqs, [("step", (("d", 7.0), ("c", 5.0))), ("stream", None)]))
        out.append(two(eqs, [("steps", 2, None), ("steps", 2, (("d", 3.0), ("c", 4.0), ("q", 1.5))), ("stream", (("p", 2.0), ("q", 0.25)))]))
        out.append(two(eqs, [("step", None), ("stream", (("q", 1.0), ("p", 6.0), ("d", 0.0), ("c", 7)))]))
    for fam in ("direct", "cdelay"):                  # wave 4: settings for the constant arrive at step k > 1; its earlier values must stay
        for eqs in ([2], [1, 2], [3], [0, 1, 2, 3]):
            out.append(dict(probe_case(1.0, 8, eqs, [("steps", 3, None), ("step", 5.0), ("step", None), ("step", 0.5), ("stream", None)]), family=fam, a=2.0))
            out.append(dict(probe_case(0.5, 6, eqs, [("step", None), ("steps", 2, 7.25), ("stream", 0.0)], start=1.0), family=fam, a=1.5, b=3.0))
    for eqs in ([3], [2, 3], [0, 1, 2, 3]):           # points passed with a step; two-scenario sessions; calls after a completed stream
        out.append(dict(probe_case(0.5, 6, eqs, [("steps", 2, None), ("step", 4.0), ("steps", 2, None), ("stream", 0.5)]), family="points", multi=True))
        out.append(dict(probe_case(1.0, 5, eqs, [("step", 2.0), ("stream", None), ("step", 7.0), ("steps", 2, None), ("stream", 3.0)]), multi=True))
    for eqs in EQSETS:                                # the §1 script: c -> 10 with the fourth step
        for dt in (1.0, 0.5):
            out.append(dict(probe_case(dt, 6, eqs, [("steps", 3, None), ("step", 10.0), ("steps", 2, None), ("stream", 0.5)])))
    return out


TWO_IDS = {"c": 0, "d": 4, "p": 6, "q": 7}


def call_line(c):
    if isinstance(c[-1], tuple) or (len(c) and c[0].endswith("2")):
        cs = ",".join("%d=%s" % (TWO_IDS[name], fbits(x)) for name, x in (c[-1] or ())) or "-"
        return "step2 %s" % cs if c[0] == "step" else "steps2 %d %s" % (c[1], cs) if c[0] == "steps" else "stream2 %s" % cs
    s = lambda v: "-" if v is None else fbits(v)
    return "step %s" % s(c[1]) if c[0] == "step" else "steps %d %s" % (c[1], s(c[2])) if c[0] == "steps" else "stream %s" % s(c[1])


def call_show(c):
    s = lambda v: "" if v is None else (" settings=%r" % (dict(v),) if isinstance(v, tuple) else " value=%r" % (v,))      # new value of the constant c (points family: new level of the table p)
    return "run-step%s" % s(c[1]) if c[0] == "step" else "run-steps %d%s" % (c[1], s(c[2])) if c[0] == "steps" else "stream-steps%s" % s(c[1])


def lazy_flag(eqs):
    """for this family: the value of c at the previous grid point is memoised unless only the stock is requested"""
    return 1 if set(eqs) == {2} else 0


class Skip(Exception):
    pass


SIM_BOUND_OK = None


def probe_sim_bound():
    """does SdSimulation simulate exactly the grid points asked for?  (C05's `until + dt` exclusive bound rounds up for
    start 1.0, dt 0.2: a one-step run at 2.2 returns {2.2, 2.4}.)  Repaired by C05 (`exclusive=False`)."""
    created = []
    try:
        bp = make_factory(dict(probe_case(0.2, 6, [2], [], start=1.0), stop=2.2), created)()
        bp.begin_session(scenarios=[SC], scenario_managers=[SM], equations=["s"], dt=0.2)
        bp.session_state["step"] = 2.2
        r = bp.run_step()
        return len(r[SM][SC]["s"]) == 1
    except Exception:
        return False
    finally:
        for b in created: b.destroy()


def c05_clean(case):
    """While C05's bound defect is in the tree: keep only run specs on which the bare-float bound `until + dt` does not add
    a grid point (for every grid time t, timerange(t, t+dt, dt) == [t], and the batch grid ends at stop)."""
    global SIM_BOUND_OK
    if SIM_BOUND_OK is None:
        SIM_BOUND_OK = probe_sim_bound()
    if SIM_BOUND_OK:
        return True
    from BPTK_Py.util import timerange
    grid = timerange(case["start"], case["stop"] + case["dt"], case["dt"])
    return bool(grid) and grid[-1] == case["stop"] and all(len(timerange(t, t + case["dt"], case["dt"])) == 1 for t in grid)


def run_case(case, facts):
    """all channels on the real code + protocol lines + expected replies + reference verdicts"""
    if not c05_clean(case):
        raise Skip()
    labels, dfrows, dd, jj = batch_channels(case)
    n = len(labels) - 1
    tok = Tok(labels)
    api = api_session(case, tok)
    rest = rest_session(case, tok)
    flat_problems = []
    i = 0
    for reps in rest["per_call_list"]:
        for j, rep in enumerate(reps):
            if rep.startswith("flat:"):
                a_ = api["replies"][i] if i < len(api["replies"]) else None
                want_ = "stopped" if a_ == "stopped" else (a_.split(":", 1)[1] if a_ else None)
                if rep[5:] != want_:
                    flat_problems.append(("channels-disagree", "run-step with flatResults reports %s, the Python session step %s" % (rep[5:], a_), {"step": i}))
                else:
                    reps[j] = a_                     # same values: carry the label of the API reply for the comparisons below
            i += 1
    rest["replies"] = [r for reps in rest["per_call_list"] for r in reps]
    rest["per_call"] = ["|".join(reps) or "-" for reps in rest["per_call_list"]]
    sdt = case["dt"] if facts["dt"] else 1.0
    stride = 1 if facts["dt"] else int(round(1.0 / case["dt"]))
    raw, x = ["x"] * (n + 2 + stride), case["start"]
    k = 0
    while k < len(raw):
        raw[k] = tok(x); x = x + sdt; k += stride
    eqs = ",".join(map(str, case["eqs"]))
    req = ["model %s %s %s %s" % tuple(fbits(case[k]) for k in ("a", "b", "s0", "dt")) + " %d" % {"lookback": 1, "direct": 2, "cdelay": 3}.get(case.get("family"), 0),
           "spec %d %d %s" % (n, stride, ",".join(raw)),
           "begin %s %d %s" % (fbits(case["c0"]), lazy_flag(case["eqs"]), eqs)]
    exp = ["ok", "ok", "ok"]
    for c, rep in zip(case["calls"], rest["per_call"]):
        req.append(call_line(c)); exp.append(rep)
    if case.get("family") == "two":
        # memo-level session only (settings = a dictionary of several names): model line with the second constant, dictionary calls
        req = [req[0][:-2] + " 4 " + fbits(case["d0"]), req[1], req[2]] + [call_line(c if c[-1] is not None else c[:-1] + ((),)) for c in case["calls"]] + ["mresults"]
        exp = ["ok"] * (len(req) - 1) + [api["results"] if facts["dt"] else "n/a"]
    else:
        req += ["results", "mresults", "byeq", "flat", "batchdf %s %s" % (fbits(case["c0"]), eqs), "batchdict %s %s" % (fbits(case["c0"]), eqs)]
        exp += [api["results"], api["results"] if facts["dt"] else "n/a", rest["byeq"], rest["flat"], dfrows, dd]
    # ---- reference verdicts
    problems = list(flat_problems)
    for which in ("batch_before", "batch_after"):
        if which in api and api[which] != dd:
            problems.append(("channels-disagree", "batch run on the bptk object %s its session differs from the batch run of a fresh object" % which.split("_")[1],
                             {which: api[which], "fresh": dd}))
    if not (dd == jj == rest["run"]):
        problems.append(("channels-disagree", "batch dict / json / REST run differ", {"dict": dd, "json": jj, "rest_run": rest["run"]}))
    dfcols = ";".join("%d=" % e + ",".join("%s:%s" % (r.split(":")[0], r.split(":")[1].split(",")[i]) for r in dfrows.split("|"))
                      for i, e in enumerate(case["eqs"]))
    if dfcols != dd:
        problems.append(("channels-disagree", "batch dataframe and dict differ", {"df": dfcols, "dict": dd}))
    if api["replies"] != rest["replies"] or api["byeq"] != rest["byeq"] or api["flat"] != rest["flat"]:
        problems.append(("channels-disagree", "Python session and REST session differ",
                         {"api": api["replies"], "rest": rest["replies"], "api_byeq": api["byeq"], "rest_byeq": rest["byeq"]}))
    ref, nsteps = reference_rows(case, n)
    got = [r for r in api["replies"] if r != "stopped"]
    if got != ref:
        j = next((i for i, (g, r) in enumerate(zip(got, ref)) if g != r), min(len(got), len(ref)))
        g, r = (got[j] if j < len(got) else None), (ref[j] if j < len(ref) else None)
        if g is None or r is None:
            key = "session-dt-ignored" if api.get("dt") != case["dt"] else "session-grid"
        elif g.split(":")[0] != r.split(":")[0]:
            key = ("session-dt-ignored" if api.get("dt") != case["dt"] else
                   "session-clock-drift" if g.startswith("r") else "session-grid")
        else:
            key = ("step-points-settings" if case.get("family") == "points" else "settings-dictionary-per-key" if case.get("family") == "two" else "settings-leak-one-step-back") \
                if any(c[-1] is not None for c in case["calls"]) else "session-values"
        problems.append((key, "session step %d reports %s, expected %s" % (j, g, r), {"step": j, "got": g, "expected": r}))
    elif api["byeq"] != ";".join("%d=" % e + ",".join("%s:%s" % (r.split(":")[0], r.split(":")[1].split(",")[i]) for r in ref)
                                 for i, e in enumerate(case["eqs"])) and ref:
        problems.append(("channels-disagree", "session_results(index_by_time=False) differs from the step replies", {"byeq": api["byeq"]}))
    if all(c[-1] is None for c in case["calls"]) and nsteps >= n + 1 and got == ref and "|".join(got) != dfrows:
        problems.append(("channels-disagree", "complete session without settings differs from the batch dataframe",
                         {"session": got, "batch": dfrows}))
    if case.get("multi"):
        problems += multi_session(case, tok, n)
    return req, exp, problems, n


def case_show(case):
    return {k: case[k] for k in ("a", "b", "s0", "c0", "start", "dt", "stop")} | ({"family": case["family"]} if case.get("family") else {}) | ({"multi": True} if case.get("multi") else {}) | ({k_: True for k_ in ("flat", "reuse") if case.get(k_)}) | {
        "equations": [EQN[e] for e in case["eqs"]], "calls": [call_show(c) for c in case["calls"]]}


def shrink_case(case, facts, key):
    def fails(c):
        try:
            return any(p[0] == key for p in run_case(c, facts)[2])
        except BaseException:
            return False
    calls = list(case["calls"])
    changed = True
    while changed:
        changed = False
        for i in range(len(calls)):
            cand = dict(case, calls=calls[:i] + calls[i + 1:])
            if cand["calls"] and fails(cand):
                calls, changed = cand["calls"], True
                break
    if case.get("family") == "two":
        changed = True
        while changed:
            changed = False
            for i, c in enumerate(calls):
                if isinstance(c[-1], tuple) and len(c[-1]) > 2:
                    for j in range(len(c[-1])):
                        cand_calls = calls[:i] + [c[:-1] + (c[-1][:j] + c[-1][j + 1:],)] + calls[i + 1:]
                        if fails(dict(case, calls=cand_calls)):
                            calls, changed = cand_calls, True
                            break
                if changed:
                    break
    return dict(case, calls=calls)


def run(chk):
    quiet_bptk_logging()
    facts = probe_all()
    chk.notes["cfg"] = facts
    ok, why = chk.prove(gen_lean(facts))
    chk.cov["trusted_base"] = [
        "Lean 4.33 kernel; axioms propext, Classical.choice, Quot.sound (audited per run via #print axioms)",
        "hand-written channel model lean/Bptk/Core/C09.lean over an abstract causal per-step simulator; tied to the code by three behavioural "
        "probes and by the differential run of Drive/C09 (simulator instantiated with the linear family c, f=max(0,c*a), s'=f, k=s*b+c) "
        "against run_scenarios, the session API and the Flask test client",
        "memo-level session (wave 2): Core/C09 `mstep` runs C08's model of Model.memoize (`evalK`) with definitions rebound by step settings, a memo that is never "
        "reset and the probed finalisation set; the driver runs it next to the abstract session on both families (linear, look-back) and its log must equal the real "
        "session results bit for bit (`mresults`); theorem memo_session_ideal derives 'settings from step k on, nothing before' from these mechanics",
        "labels are compared bit-exactly with the batch index of the same scenario; that the batch index itself is the exact grid is C05's theorem",
        "Flask test client instead of a socket; pandas frame / json / jsonpickle encodings observed only through the compared results",
    ]
    chk.assumptions = ["the simulator is causal (values at t_k depend on settings in force at t_i, i <= k): true for SD models, whose references go to t or t-dt",
                       "run specs with 1/dt integral, stop = start + n*dt, stop > 0",
                       "settings = constants (in the Lean model); `points` passed with a step and sessions over two scenarios are exercised on the real channels "
                       "(API vs REST) and against the reference only, not by the driver",
                       "the look-back `delay(g, 2*dt)` is rendered in C08's expression language as two one-step delays (auxiliary g1 = delay(g, dt)); values coincide"]
    rng = chk.rng.fork("c09")
    cases = fixed_cases() + [gen_case(rng) for _ in range(220 if chk.quick else 3000)]
    req, exp, owner = ["cfg %d %d %d %d %d %d %d %d %d %d" % (facts["dt"], facts["clock"], facts["final"], facts["state"], facts["run"], facts["keep"], facts["perkey"], facts["views"], facts["sclock"], facts["dfgrid"])], ["ok"], [None]
    found, skipped, dist = {}, 0, {"dt": {}, "calls": {}, "eqsets": {}}
    for idx, case in enumerate(cases):
        try:
            r, e, problems, n = run_case(case, facts)
        except Skip:
            skipped += 1
            continue
        except Exception as ex:  # noqa  (a channel crashed: that is a disagreement with the channels that did not)
            problems, r, e, n = [("channel-error", "%s: %s" % (type(ex).__name__, ex), {})], [], [], -1
        dist["dt"][str(case["dt"])] = dist["dt"].get(str(case["dt"]), 0) + 1
        dist["eqsets"][",".join(EQN[x] for x in case["eqs"])] = dist["eqsets"].get(",".join(EQN[x] for x in case["eqs"]), 0) + 1
        for c in case["calls"]:
            dist["calls"][c[0] + ("+settings" if c[-1] is not None else "")] = dist["calls"].get(c[0] + ("+settings" if c[-1] is not None else ""), 0) + 1
        if case.get("family") != "points":     # linear + look-back: abstract channel model + memo-level session of the driver;
            req += r; exp += e; owner += [idx] * len(r)   # points settings: real channels pairwise + reference only
        for k_, cond in (("multi-scenario session", case.get("multi")), ("run-step flatResults", case.get("flat")), ("bptk object reused (batch before/after session)", case.get("reuse")),
                         ("int-valued step settings", any(isinstance(c[-1], int) for c in case["calls"])), ("falsy step settings (0, 0.0)", any(c[-1] is not None and c[-1] == 0 for c in case["calls"])),
                         ("calls after a completed stream", any(c[0] == "stream" for c in case["calls"][:-1])),
                         ("settings dictionary with >= 2 names", any(isinstance(c[-1], tuple) and len(c[-1]) >= 2 for c in case["calls"])),
                         ("… constants and points together", any(isinstance(c[-1], tuple) and {n_ for n_, _ in c[-1]} & {"c", "d"} and {n_ for n_, _ in c[-1]} & {"p", "q"} for c in case["calls"]))):
            dist.setdefault("wave7", {})[k_] = dist.setdefault("wave7", {}).get(k_, 0) + (1 if cond else 0)
        dist.setdefault("family", {})[case.get("family", "linear")] = dist.setdefault("family", {}).get(case.get("family", "linear"), 0) + 1
        chk.case(json.dumps(case_show(case), sort_keys=True), nontrivial=len(case["calls"]) > 1 or any(c[-1] is not None for c in case["calls"]),
                 sample=case_show(case) if idx % 17 == 3 else None)
        for key, text, detail in problems:
            found.setdefault(key, (case, text, detail))
    # ---- wave 3: sequences of /run requests on one server (feedback family)
    seqs = [dict(c) for c in FIXED_SEQUENCES] + [gen_run_sequence(rng.fork("runseq%d" % i)) for i in range(40 if chk.quick else 400)]
    life_found, srs_found, mb_found = {}, {}, {}
    seq_found, kinds = {}, {"no settings": 0, "runspecs only": 0, "constants only": 0, "both": 0}
    for sc_ in seqs:
        try:
            r, e, problems = run_sequence(sc_, facts)
        except Exception as ex:  # noqa
            r, e, problems = [], [], [("channel-error", "%s: %s" % (type(ex).__name__, ex), {})]
        for q in sc_["reqs"]:
            kinds["no settings" if q is None else "both" if (q.get("c") is not None and len(q) > 1) else "constants only" if q.get("c") is not None else "runspecs only"] += 1
        if facts["run"]:                      # the driver's simulator is memo-transparent: comparable on the good branch only
            req += r; exp += e; owner += [None] * len(r)
        chk.case(json.dumps(seq_show(sc_), sort_keys=True), nontrivial=True, sample=seq_show(sc_) if len(seq_found) == 0 and len(sc_["reqs"]) == 4 else None)
        for key, text, detail in problems:
            seq_found.setdefault(key, (sc_, text, detail))
    dist["run_sequences"] = {"sequences": len(seqs), "requests": kinds}
    # ---- wave 9: session lifecycles on one object / one REST instance
    lifes = [dict(c) for c in FIXED_LIFECYCLES] + [gen_lifecycle(rng.fork("life%d" % i)) for i in range(20 if chk.quick else 200)]
    lc = {"lifecycles": len(lifes), "sessions": 0, "begin without end_session before": 0, "reads": 0}
    for lcase in lifes:
        try:
            r, e, problems = lifecycle(lcase, facts)
        except Exception as ex:  # noqa
            r, e, problems = [], [], [("channel-error", "lifecycle %s: %s" % (type(ex).__name__, ex), {})]
        lc["sessions"] += len(lcase["sessions"]); lc["reads"] += 7 * sum(len(s_["vals"]) + 1 for s_ in lcase["sessions"])
        lc["begin without end_session before"] += sum(1 for i, s_ in enumerate(lcase["sessions"][:-1]) if not s_["end"])
        req += r; exp += e; owner += [None] * len(r)
        chk.case(json.dumps(lifecycle_show(lcase), sort_keys=True), nontrivial=True)
        for key, text, detail in problems:
            life_found.setdefault(key, (lcase, text, detail))
    dist["session_lifecycles"] = lc
    # ---- wave 10: sessions begun with run specs in their settings
    srs = [dict(c) for c in FIXED_SESSION_RUNSPECS] + [gen_session_runspecs(rng.fork("srs%d" % i)) for i in range(15 if chk.quick else 150)]
    for sc_ in srs:
        try:
            problems = session_runspecs(sc_, facts)
        except Exception as ex:  # noqa
            problems = [("channel-error", "session with run-spec settings %s: %s" % (type(ex).__name__, ex), {})]
        chk.case(json.dumps({"session_runspecs": seq_show(sc_)}, sort_keys=True), nontrivial=True)
        for key, text, detail in problems:
            srs_found.setdefault(key, (sc_, text, detail))
    for mb in FIXED_MULTI_BATCH:
        try:
            problems = multi_scenario_batch(mb)
        except Exception as ex:  # noqa
            problems = [("channel-error", "several scenarios in one run_scenarios call %s: %s" % (type(ex).__name__, ex), {})]
        chk.case(json.dumps({"multi_scenario_batch": mb}, sort_keys=True), nontrivial=True)
        for key, text, detail in problems:
            if key not in mb_found:
                mb_found[key] = (mb, text, detail)
    dist["two scenarios with different grids in one run_scenarios call (both orders, 3 formats)"] = len(FIXED_MULTI_BATCH)
    dist["sessions begun with runspecs settings"] = {"cases": len(srs), "sessions": sum(len(c["reqs"]) for c in srs)}
    chk.cov["input_distribution"] = dist
    chk.cov["skipped_run_specs_hit_by_C05_until_plus_dt"] = skipped
    chk.notes["sim_bound_exact (C05)"] = SIM_BOUND_OK
    chk.cov["rule_wave2"] = ("families: linear, look-back (flow = delay(g, 2dt) of a never-requested auxiliary; driver + memo-level session), points (step settings carry a points "
                             "table; reference + channels); a fifth of the cases additionally run the script in a two-scenario session (API and REST) against each scenario's own "
                             "single-scenario reference; call lists may continue after a completed stream-steps (replies: Stoptime reached)")
    chk.cov["rule"] = ("34 fixed cases (5 dt values x 4 partitions of a whole run without settings; 7 requested-equation sets x 2 dt with a constant "
                       "changed at the fourth step) + seeded random cases: model coefficients x (start, dt, n) x requested set x 1..6 calls "
                       "(run-step / run-steps m / stream-steps, each with or without a new value of c); per case 3 batch formats, REST run, "
                       "Python session, REST session, 3 session-result shapes; non-trivial = more than one call or some settings")
    chk.cov["traces_validated_against_impl"] = len(cases)
    model = drive("C09", req)
    diff = next((i for i, (a, b) in enumerate(zip(model, exp)) if a != b), None)
    if diff is None and len(model) != len(exp):
        diff = min(len(model), len(exp))
    chk.notes["correspondence_first_diff"] = diff
    if diff is not None:
        chk.notes["correspondence_diff_context"] = {"case": case_show(cases[owner[diff]]) if diff < len(owner) and owner[diff] is not None else None,
                                                    "request": req[diff] if diff < len(req) else None,
                                                    "model": model[diff] if diff < len(model) else None, "impl": exp[diff] if diff < len(exp) else None}
    # ---- decide
    texts = {"session-dt-ignored": "a session on a scenario with dt != 1 steps with dt = 1.0",
             "session-clock-drift": "the session clock is advanced by bare float addition: labels leave the batch grid",
             "settings-leak-one-step-back": "a constant changed with step k is used for t_(k-1) when its dependents there were not memoised",
             "settings-dictionary-per-key": "a settings dictionary that changes several names at once: a name does not get its own value from that step on",
             "step-points-settings": "a points table passed with step k does not act exactly on the steps from k on",
             "multi-scenario-session": "in a session over two scenarios a scenario does not report what it reports alone with the same settings script"}
    for key, (case, text, detail) in found.items():
        small = shrink_case(case, facts, key) if key != "channel-error" else case
        if small is not case:
            try:
                text, detail = next((p[1], p[2]) for p in run_case(small, facts)[2] if p[0] == key)
            except BaseException:
                small = case
        chk.add_finding(key, f"{texts.get(key, key)}: {case_show(small)}: {text}", {"case": small, "key": key, "detail": detail})
    for key, (sc_, text, detail) in seq_found.items():
        small = dict(sc_)
        changed = True
        while changed and key != "channel-error":          # shrink: drop requests while the same class still shows
            changed = False
            for i in range(len(small["reqs"])):
                cand = dict(small, reqs=small["reqs"][:i] + small["reqs"][i + 1:])
                try:
                    pr = [p for p in run_sequence(cand, facts)[2] if p[0] == key] if cand["reqs"] else []
                except Exception:  # noqa
                    pr = []
                if pr:
                    small, text, detail, changed = cand, pr[0][1], pr[0][2], True
                    break
        chk.add_finding(key, f"one server, sequence of POST /run requests {seq_show(small)}: {text}", {"sequence": small, "key": key, "detail": detail})
    for key, (sc_, text, detail) in srs_found.items():
        small = dict(sc_)
        for i in range(len(small["reqs"])):                   # shrink: one session, then single run-spec keys
            cand = dict(small, reqs=[small["reqs"][i]])
            try:
                pr = [p for p in session_runspecs(cand, facts) if p[0] == key]
            except Exception:  # noqa
                pr = []
            if pr:
                small, text, detail = cand, pr[0][1], pr[0][2]
                break
        r0 = small["reqs"][0] if len(small["reqs"]) == 1 and small["reqs"][0] else None
        for k_ in (list(r0) if r0 else []):
            cand = dict(small, reqs=[{a_: b_ for a_, b_ in r0.items() if a_ != k_}])
            try:
                pr = [p for p in session_runspecs(cand, facts) if p[0] == key] if cand["reqs"][0] else []
            except Exception:  # noqa
                pr = []
            if pr:
                small, text, detail, r0 = cand, pr[0][1], pr[0][2], cand["reqs"][0]
        chk.add_finding(key, f"feedback model {seq_show(small)} — the `run_requests` are the settings of successive begin_session calls on one object: {text}",
                        {"session_runspecs": small, "key": key, "detail": detail})
    for key, (mb, text, detail) in mb_found.items():
        chk.add_finding(key, f"growth model, manager with scenarios one {mb['rs1']} and two {mb['rs2']} (model run specs start {mb['start']} stop {mb['stop']} dt {mb['dt']}): {text}",
                        {"multi_scenario_batch": mb, "key": key, "detail": detail})
    for key, (lcase, text, detail) in life_found.items():
        small = dict(lcase)
        def lfails(c_):
            try:
                return [p for p in lifecycle(c_, facts)[2] if p[0] == key]
            except Exception:  # noqa
                return []
        changed = key != "channel-error"
        while changed:                                   # shrink: drop sessions, then steps, while the same class still shows
            changed = False
            cands = [dict(small, sessions=small["sessions"][:i] + small["sessions"][i + 1:]) for i in range(len(small["sessions"])) if len(small["sessions"]) > 1]
            cands += [dict(small, sessions=small["sessions"][:i] + [dict(s_, vals=s_["vals"][:-1])] + small["sessions"][i + 1:])
                      for i, s_ in enumerate(small["sessions"]) if len(s_["vals"]) > 1]
            for cand in cands:
                pr = lfails(cand)
                if pr:
                    small, text, detail, changed = cand, pr[0][1], pr[0][2], True
                    break
        chk.add_finding(key, f"one bptk object / one REST instance, sessions {lifecycle_show(small)}: {text}", {"lifecycle": small, "key": key, "detail": detail})
    if False and not facts["views"] and "session-views-lifecycle" not in life_found:
        chk.add_finding("session-views-lifecycle", "probe: by-equation view read during a session, begin_session again without end_session, read again: not the current session's rows",
                        {"lifecycle": FIXED_LIFECYCLES[0], "key": "session-views-lifecycle"})
    if False and not facts["run"] and "run-after-run-stale" not in seq_found:
        chk.add_finding("run-after-run-stale", "probe: a /run whose settings carry only run specs is answered from the memo of the earlier /run",
                        {"sequence": FIXED_SEQUENCES[0], "key": "run-after-run-stale"})
    if False and not facts["perkey"] and "settings-dictionary-per-key" not in found:
        chk.add_finding("settings-dictionary-per-key", "probe: one step's settings {c: 5.0, d: 7.0} (either order): the constants do not each take their own value",
                        {"case": dict(probe_case(1.0, 4, [0, 4], [("step", None), ("step", (("c", 5.0), ("d", 7.0)))]), family="two", d0=0.5), "key": "settings-dictionary-per-key"})
    if False and not facts["keep"] and "settings-leak-one-step-back" not in found:
        chk.add_finding("settings-leak-one-step-back", "probe: a setting for a constant passed with a step rewrites the constant's EARLIER values (its memo is emptied): "
                        "stock naming the constant directly, c -> 10 with the fourth step",
                        {"case": dict(probe_case(1.0, 8, [2], [("steps", 3, None), ("step", 10.0), ("steps", 2, None)]), family="direct"), "key": "settings-leak-one-step-back"})
    for fact, key in (("dt", "session-dt-ignored"), ("clock", "session-clock-drift"), ("final", "settings-leak-one-step-back")):
        if False and not facts[fact] and key not in found:
            pc = {"dt": probe_case(0.5, 4, [2], [("stream", None)]), "clock": probe_case(0.1, 10, [2], [("stream", None)]),
                  "final": probe_case(1.0, 6, [2], [("steps", 3, None), ("step", 10.0), ("step", None)])}[fact]
            chk.add_finding(key, "probe: " + texts[key], {"case": pc, "key": key})
    # a fact probed false that no generated input explains: confirm on the probe's own input through the reference; only a reproduced
    # failure is a concrete accusation, otherwise the broken obligation is reported without one
    fallbacks = {
        "dt": ("case", probe_case(0.5, 4, [2], [("stream", None)]), "session-dt-ignored", "C09_witness_session_dt"),
        "clock": ("case", probe_case(0.1, 10, [2], [("stream", None)]), "session-clock-drift", "C09_witness_clock"),
        "final": ("case", dict(probe_case(1.0, 8, [2], [("steps", 3, None), ("step", 10.0), ("steps", 3, None)]), family="lookback"), "settings-leak-one-step-back", "C09_witness_state_only / C09_witness_settings_leak"),
        "run": ("sequence", FIXED_SEQUENCES[0], "run-after-run-stale", "C09_witness_run_runspecs_only"),
        "keep": ("case", dict(probe_case(1.0, 8, [2], [("steps", 3, None), ("step", 10.0), ("steps", 2, None)]), family="direct"), "settings-leak-one-step-back", "C09_witness_memo_dropped"),
        "perkey": ("case", dict(probe_case(1.0, 4, [0, 4], [("step", None), ("step", (("c", 5.0), ("d", 7.0)))]), family="two", d0=0.5), "settings-dictionary-per-key", "C09_witness_last_value"),
        "views": ("lifecycle", FIXED_LIFECYCLES[0], "session-views-lifecycle", "C09_witness_view_cache"),
        "sclock": ("session_runspecs", FIXED_SESSION_RUNSPECS[0], "session-runspecs-settings", "C09_witness_session_clock"),
        "dfgrid": ("multi_scenario_batch", FIXED_MULTI_BATCH[0], "batch-formats-multi-scenario", "C09_witness_df_first_index"),
    }
    any_concrete = bool(found) or bool(seq_found) or bool(life_found) or bool(srs_found) or bool(mb_found)
    for fact, (kind, fcase, key, witness) in fallbacks.items():
        if facts[fact] or any_concrete:
            continue
        try:
            pr = (run_case(fcase, facts)[2] if kind == "case" else run_sequence(fcase, facts)[2] if kind == "sequence" else
                  session_runspecs(fcase, facts) if kind == "session_runspecs" else multi_scenario_batch(fcase) if kind == "multi_scenario_batch" else lifecycle(fcase, facts)[2])
        except BaseException as ex:  # noqa
            pr = []
        if pr:
            chk.add_finding(pr[0][0], f"{texts.get(pr[0][0], pr[0][0])}: {pr[0][1]}", {kind: fcase, "key": pr[0][0], "detail": pr[0][2]})
            any_concrete = True
        else:
            chk.add_finding("obligation", f"fact `{fact}` could not be established by its behavioural probe ({PROBE_ERRORS.get(fact, 'probe outcome false')}); the generated obligation is "
                            f"`¬ C09_full cfg` through {witness}; no generated input and not the probe's own input fails against the reference",
                            {"theorem": f"Bptk.C09.Gen.violated / Bptk.C09.{witness}", "fact": fact, "probe": PROBE_ERRORS.get(fact)}, found_input=False)
            break
    if not ok:
        chk.add_finding("obligation", f"proof obligations of C09 no longer check: {why}",
                        {"theorem": "Bptk.C09.Gen.holds / Bptk.Props.C09", "detail": why}, found_input=False)
    if diff is not None and not found and not seq_found and not life_found and not srs_found and not mb_found:
        ci = owner[diff] if diff < len(owner) else None
        chk.add_finding("correspondence", f"model and implementation disagree at protocol line {diff}: request {req[diff] if diff < len(req) else None!r}",
                        {"correspondence": "Drive/C09 vs run_scenarios / session API / REST", "line": diff,
                         "case": case_show(cases[ci]) if ci is not None else None,
                         "request_context": req[max(0, diff - 10):diff + 1], "model": model[diff] if diff < len(model) else None,
                         "impl": exp[diff] if diff < len(exp) else None}, found_input=False)


def replay(path):
    quiet_bptk_logging()
    r = json.load(open(path))["replay"]
    if "multi_scenario_batch" in r:
        problems = multi_scenario_batch(r["multi_scenario_batch"])
        for p in problems:
            print("problem on the current tree:", p[0], "-", p[1])
        return 1 if problems else 0
    if "session_runspecs" in r:
        print("sessions begun with run-spec settings:", seq_show(r["session_runspecs"]))
        problems = session_runspecs(r["session_runspecs"], None)
        for p in problems:
            print("problem on the current tree:", p[0], "-", p[1])
        return 1 if problems else 0
    if "lifecycle" in r:
        print("session lifecycle on one object:", lifecycle_show(r["lifecycle"]))
        problems = lifecycle(r["lifecycle"], None)[2]
        for p in problems:
            print("problem on the current tree:", p[0], "-", p[1])
        return 1 if problems else 0
    if "sequence" in r:
        print("sequence of /run requests on one server:", seq_show(r["sequence"]))
        problems = run_sequence(r["sequence"], None)[2]
        for p in problems:
            print("problem on the current tree:", p[0], "-", p[1])
        return 1 if problems else 0
    if "case" not in r:
        print("replay names a proof obligation / correspondence stream:", r)
        return 1
    case = r["case"]
    case["calls"] = [tuple(tuple(tuple(p) for p in x) if isinstance(x, list) else x for x in c) for c in case["calls"]]
    facts = probe_all()
    print("case:", case_show(case), "facts:", facts)
    try:
        problems = run_case(case, facts)[2]
    except Skip:
        print("run spec is hit by C05's `until + dt` bound defect; not a C09 case"); return 0
    except Exception as ex:  # noqa
        problems = [("channel-error", "%s: %s" % (type(ex).__name__, ex), {})]
    for p in problems:
        print("problem on the current tree:", p[0], "-", p[1])
    return 1 if problems else 0
