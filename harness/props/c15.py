"""C15 — with a bearer token set, protected endpoints serve and change nothing without it.

Probe (route table of the live Flask app, protection of every view detected behaviourally) -> Gen/C15.lean
obligations; correspondence (every rule x method x credential shape x server state x instance id x body
through the Flask test client, against Drive/C15.lean); independent reference check of the statement on
the real server (status >= 400 and deep before/after equality of the server-side state)."""
import contextlib, hashlib, io, json, logging, os, re, shutil, sys, types
from common import *

TOKEN = "s3cr3tTok"
SENTINEL = "probe-sentinel-7f3a"
PUBLIC = ["/", "/healthy", "/metrics", "/full-metrics"]
MON_TOOL = 4   # sys.monitoring tool id

UNION_BODY = {
    "scenario_managers": ["firstManager"], "scenarios": ["1"], "equations": ["stock", "flow", "constant"],
    "settings": {"firstManager": {"1": {"constants": {"constant": 7.0}}}},
    "numberSteps": 2, "timeout": {"weeks": 0, "days": 0, "hours": 0, "minutes": 5, "seconds": 0,
                                  "milliseconds": 0, "microseconds": 0},
    "instances": 2, "scenarioManager": "firstManager", "scenario_manager": "firstManager", "scenario": "1",
}


# ------------------------------------------------------------------ the server under test
_made = []


def factory():
    import BPTK_Py
    from BPTK_Py import Model
    model = Model(starttime=1.0, stoptime=8.0, dt=1.0, name="c15model")
    stock, flow, constant = model.stock("stock"), model.flow("flow"), model.constant("constant")
    stock.initial_value = 0.0
    stock.equation = flow
    flow.equation = constant
    constant.equation = 1.0
    b = BPTK_Py.bptk()
    b.register_scenario_manager({"firstManager": {"model": model}})
    b.register_scenarios(scenario_manager="firstManager", scenarios={"1": {"constants": {"constant": 1.0}}})
    _made.append(b)
    return b


def destroy_all():
    while _made:
        b = _made.pop()
        try:
            b.destroy()
        except Exception:
            pass


def build_app(token, statedir):
    from BPTK_Py.server import BptkServer
    from BPTK_Py.externalstateadapter import FileAdapter
    app = BptkServer("c15app", factory, FileAdapter(False, statedir), token)
    app.logger.disabled = True
    logging.getLogger("werkzeug").disabled = True
    return app


def auth_hdr(tok=TOKEN):
    return {"Authorization": "Bearer " + tok}


# ------------------------------------------------------------------ "was the view function reached?"
def inner_codes(view):
    """Code objects of the functions behind a registered view, other than the outermost wrapper: followed
    through bound methods, functools.wraps `__wrapped__` and closure cells holding functions."""
    seen, out, todo = set(), [], [view]
    outer = getattr(getattr(view, "__func__", view), "__code__", None)
    while todo:
        f = todo.pop()
        f = getattr(f, "__func__", f)
        if id(f) in seen or not callable(f):
            continue
        seen.add(id(f))
        code = getattr(f, "__code__", None)
        if code is not None:
            out.append(code)
        w = getattr(f, "__wrapped__", None)
        if w is not None:
            todo.append(w)
        for cell in (getattr(f, "__closure__", None) or ()):
            try:
                v = cell.cell_contents
            except ValueError:
                continue
            if isinstance(v, (types.FunctionType, types.MethodType)):
                todo.append(v)
    inner = [c for c in out if c is not outer]
    return inner if inner else out


class Reach:
    """sys.monitoring PY_START on the inner code objects of every view: `hit` is set when one is entered."""
    def __init__(self, app):
        self.codes = {}
        for ep, view in app.view_functions.items():
            for c in inner_codes(view):
                self.codes[c] = ep
        self.hit = False
        mon = sys.monitoring
        try:
            mon.use_tool_id(MON_TOOL, "verif-c15")
        except ValueError:
            mon.free_tool_id(MON_TOOL)
            mon.use_tool_id(MON_TOOL, "verif-c15")
        mon.register_callback(MON_TOOL, mon.events.PY_START, self._cb)
        for c in self.codes:
            mon.set_local_events(MON_TOOL, c, mon.events.PY_START)

    def _cb(self, code, offset):
        if code in self.codes:
            self.hit = True

    def close(self):
        mon = sys.monitoring
        for c in self.codes:
            try:
                mon.set_local_events(MON_TOOL, c, 0)
            except Exception:
                pass
        mon.register_callback(MON_TOOL, mon.events.PY_START, None)
        mon.free_tool_id(MON_TOOL)


# ------------------------------------------------------------------ server-side state, deeply
def canon(x, depth=0):
    if isinstance(x, dict):
        return tuple(sorted(((repr(k), canon(v, depth + 1)) for k, v in x.items())))
    if isinstance(x, (list, tuple)):
        return tuple(canon(v, depth + 1) for v in x)
    if isinstance(x, (int, float, str, bool, type(None))):
        return repr(x)
    return "<%s>" % type(x).__name__


def settings_of(b):
    out = []
    if b is None:
        return ()
    for mname, man in sorted(b.scenario_manager_factory.scenario_managers.items()):
        for sname, sc in sorted(man.scenarios.items()):
            model = getattr(sc, "model", None)
            eqs = getattr(model, "equations", None)
            out.append((mname, sname, canon(getattr(sc, "constants", None)), canon(getattr(sc, "points", None)),
                        repr(getattr(sc, "starttime", None)), repr(getattr(sc, "stoptime", None)), repr(getattr(sc, "dt", None)),
                        canon(getattr(model, "points", None)),
                        repr(getattr(model, "starttime", None)), repr(getattr(model, "stoptime", None)), repr(getattr(model, "dt", None)),
                        tuple(sorted((k, id(v)) for k, v in eqs.items())) if isinstance(eqs, dict) else None,
                        element_texts(model)))
    return tuple(out)


def element_texts(model):
    """source text of every element's equation (constants, stocks, flows, converters): a served request that
    alters a constant shows here even if the lambda object's address were reused"""
    out = []
    for group in ("constants", "stocks", "flows", "converters"):
        d = getattr(model, group, None)
        if isinstance(d, dict):
            for k, v in sorted(d.items()):
                out.append((group, k, repr(getattr(v, "function_string", None))))
    return tuple(out)


def snapshot(app, statedir):
    inst = {}
    for k, v in app._instance_manager._instances.items():
        b = v.get("instance")
        inst[k] = (id(b), repr(v.get("time")), canon(v.get("timeout")),
                   canon(getattr(b, "session_state", None)), settings_of(b),
                   repr(getattr(b, "_locked", None)))       # read, not called: the call tracer is watching
    files = {}
    for root, _, fns in os.walk(statedir):
        for fn in fns:
            p = os.path.join(root, fn)
            st = os.stat(p)
            with open(p, "rb") as fh:
                files[os.path.relpath(p, statedir)] = (st.st_mtime_ns, st.st_size, hashlib.sha1(fh.read()).hexdigest())
    return {"instances": inst, "server_bptk": settings_of(app._bptk), "state_dir": files}


def describe_change(a, b):
    out = []
    ia, ib = a["instances"], b["instances"]
    for k in ia.keys() - ib.keys():
        out.append("instance removed")
    for k in ib.keys() - ia.keys():
        out.append("instance created")
    for k in ia.keys() & ib.keys():
        x, y = ia[k], ib[k]
        if x[0] != y[0]: out.append("instance object replaced")
        if x[1] != y[1]: out.append("instance touched (last-access time changed)")
        if x[2] != y[2]: out.append("instance timeout changed")
        if x[3] != y[3]: out.append("session state changed (begun / advanced / ended / locked)")
        if x[4] != y[4]: out.append("scenario settings of an instance changed")
        if x[5] != y[5]: out.append("lock flag of an instance changed")
    if a["server_bptk"] != b["server_bptk"]:
        out.append("scenario settings of the server-level bptk changed")
    fa, fb = a["state_dir"], b["state_dir"]
    for k in fa.keys() - fb.keys(): out.append("external state file removed")
    for k in fb.keys() - fa.keys(): out.append("external state file created")
    for k in fa.keys() & fb.keys():
        if fa[k] != fb[k]: out.append("external state file rewritten")
    return sorted(set(out))


# ------------------------------------------------------------------ server states
STATES = ["no-instance", "live-session", "locked-session"]


class World:
    """One server in one of the three states; `ids` maps symbolic instance ids to real ones."""
    def __init__(self, state, token=TOKEN):
        self.state = state
        self.token = token
        self.dir = scratch_dir("bptkc15")
        self.app = build_app(token, self.dir)
        self.client = self.app.test_client()
        self.ids = {"UNKNOWN": "0123456789abcdef0123456789abcdef"}
        self.server = None
        H = auth_hdr(token) if token is not None else {}
        c = self.client
        def start():
            r = c.post("/start-instance", json={"timeout": UNION_BODY["timeout"]}, headers=H)
            assert r.status_code == 200, r.data
            return json.loads(r.data)["instance_uuid"]
        def begin(i):
            r = c.post(f"/{i}/begin-session", json={k: UNION_BODY[k] for k in ("scenario_managers", "scenarios", "equations")}, headers=H)
            assert r.status_code == 200, r.data
        def step(i):
            r = c.post(f"/{i}/run-step", json={"settings": {}}, headers=H)
            assert r.status_code == 200, r.data
        # an externalised instance that is no longer in memory (its state file stays in the state directory)
        s = start(); begin(s); step(s)
        inst = self.app._instance_manager._instances[s]["instance"]
        self.app._instance_manager._delete_instance(s)
        inst.destroy()
        assert os.path.exists(os.path.join(self.dir, s + ".json"))
        self.ids["STORED"] = s
        if state in ("live-session", "locked-session"):
            a = start(); begin(a); step(a); step(a)
            self.ids["SESSION"] = a
            self.ids["IDLE"] = start()
            if state == "locked-session":
                self.app._instance_manager._instances[a]["instance"].lock()
        self.reach = Reach(self.app)
        self.base = snapshot(self.app, self.dir)

    def id_names(self):
        return ["UNKNOWN", "STORED"] + (["SESSION", "IDLE"] if "SESSION" in self.ids else [])

    def path_of(self, rule, id_name, slash=False):
        path = rule
        if "<path:filename>" in path:
            path = path.replace("<path:filename>", "x.txt")
        path = re.sub(r"<[^>]*>", self.ids[id_name], path)
        if slash and not path.endswith("/"):
            path += "/"
        return path

    def request(self, rule, method, id_name, hdr, body, slash=False, lines=None):
        """hdr: None (absent) or the header text; `lines`: instead, a list of (field name, value) header lines.
        Returns (status, reached, change-list)."""
        path = self.path_of(rule, id_name, slash)
        headers = list(lines) if lines is not None else ({} if hdr is None else {"Authorization": hdr})
        if isinstance(body, tuple):       # ("raw", bytes, content type)
            kw = {"data": body[1], "content_type": body[2]}
        else:
            kw = {"json": body} if body is not None else {}
        self.reach.hit = False
        try:
            resp = self.client.open(path, method=method, headers=headers, **kw)
            status = resp.status_code
            try:
                resp.get_data()      # run streaming bodies to their end (side effects happen there)
            finally:
                resp.close()
        except Exception:
            status = 599             # the view (or its streamed body) raised through the test client
        after = snapshot(self.app, self.dir)
        return status, self.reach.hit, describe_change(self.base, after)

    def raw_request(self, rule, method, id_name, wire_lines, body):
        """the same request over a real socket to werkzeug's WSGI server (HTTP parsing, header folding, joining
        of repeated lines happen there); `wire_lines`: the header lines as bytes, exactly as sent."""
        import socket, threading
        if self.server is None:
            from werkzeug.serving import make_server
            self.server = make_server("127.0.0.1", 0, self.app, threaded=False)
            self.server_thread = threading.Thread(target=self.server.serve_forever, kwargs={"poll_interval": 0.02}, daemon=True)
            self.server_thread.start()
        payload = b"" if body is None else json.dumps(body).encode()
        msg = (method + " " + self.path_of(rule, id_name) + " HTTP/1.1\r\nHost: localhost\r\nConnection: close\r\n").encode()
        if body is not None:
            msg += b"Content-Type: application/json\r\n"
        msg += b"Content-Length: %d\r\n" % len(payload)
        msg += b"".join(l + b"\r\n" for l in wire_lines) + b"\r\n" + payload
        self.reach.hit = False
        sk = socket.create_connection(("127.0.0.1", self.server.server_port), timeout=30)
        try:
            sk.sendall(msg)
            buf = b""
            while True:
                d = sk.recv(65536)
                if not d:
                    break
                buf += d
        finally:
            sk.close()
        m = re.match(rb"HTTP/1\.[01] (\d{3})", buf)
        status = int(m.group(1)) if m else 599
        after = snapshot(self.app, self.dir)
        return status, self.reach.hit, describe_change(self.base, after)

    def close(self):
        self.reach.close()
        if self.server is not None:
            self.server.shutdown(); self.server_thread.join(5); self.server.server_close(); self.server = None
        for v in list(self.app._instance_manager._instances.values()):
            try:
                v["instance"].destroy()
            except Exception:
                pass
        shutil.rmtree(self.dir, ignore_errors=True)


# ------------------------------------------------------------------ credential shapes
def flip(ch):
    return "x" if ch != "x" else "y"


def shapes(tok=TOKEN, quick=False):
    """(name, header text or None)  — whether a shape presents the token is decided by `presents_ref` (reading
    of DESIGN §7 C15: the second space-separated word equals the token)."""
    sw = tok.swapcase()
    import base64
    n = len(tok)
    ks = sorted({1, n // 2, n - 2} if quick else set(range(1, n - 1)))     # k = 0 and n-1 are in the base list
    w2 = [("prefix-%d" % k, "Bearer " + tok[:k]) for k in ks if 0 < k < n - 1]
    w2 += [("first-char-alone", tok[:1]), ("suffix-long", "Bearer " + tok + tok), ("suffix-of-token", "Bearer " + tok[1:]),
           ("same-length-first", "Bearer " + flip(tok[0]) + tok[1:]), ("same-length-last", "Bearer " + tok[:-1] + flip(tok[-1])),
           ("double-space-prefix", "Bearer  " + tok[:1])]
    return w2 + [
        ("absent", None), ("empty", ""), ("scheme-only", "Bearer"), ("token-alone", tok),
        ("empty-credentials", "Bearer "), ("wrong", "Bearer not-the-token"), ("prefix", "Bearer " + tok[:-1]),
        ("suffix-extended", "Bearer " + tok + "x"), ("prefix-extended", "Bearer x" + tok), ("case-variant", "Bearer " + sw),
        ("double-space", "Bearer  " + tok), ("tab-separator", "Bearer\t" + tok), ("swapped", tok + " Bearer"),
        ("colon-layout", "Bearer:" + tok), ("basic-b64", "Basic " + base64.b64encode(("user:" + tok).encode()).decode()),
        ("param-layout", "Token token=" + tok), ("quoted", 'Bearer "' + tok + '"'), ("space-only", " "),
        # the following present the token (credentials word == token): accepted by the reading
        ("bearer", "Bearer " + tok), ("basic-scheme", "Basic " + tok), ("lowercase-scheme", "bearer " + tok),
        ("trailing-word", "Bearer " + tok + " x"), ("empty-scheme", " " + tok), ("trailing-space", "Bearer " + tok + " "),
    ]


def presents_strict(hdr, tok):
    """The pinned decorator's reading, written independently (regex, not split): header = <no spaces> SP token [SP anything]."""
    if hdr is None or " " in tok:
        return False
    return re.fullmatch(r"[^ ]* " + re.escape(tok) + r"( .*)?", hdr, flags=re.S) is not None


def presents_ref(hdr, tok):
    """The reading the REFERENCE check uses for "presents exactly that token": the token occurs as a complete blank- or
    tab-delimited word of the Authorization value.  It contains the pinned decorator's reading (second word after one
    blank) and what a standard parser (werkzeug's `request.authorization`: `Bearer  tok`, `Bearer\ttok`) accepts; a
    request of this kind is not the statement's subject — serving or refusing it is never reported.  Prefixes, extensions,
    case variants, quoted / colon / key=value layouts are NOT words equal to the token."""
    if hdr is None:
        return False
    if tok == "":
        return presents_strict(hdr, tok)
    return tok in re.split(r"[ \t]+", hdr.strip(" \t")) or presents_strict(hdr, tok)


def enc(s):
    return "e" if s == "" else ".".join(str(ord(c)) for c in s)


# ------------------------------------------------------------------ probe: the credential comparison
EXPECTED_TOKENS = [TOKEN, "a", "ab", "aaaa", "Tok-1.2_3", "t\u00f6k\u00e9n", "", "0", "None"]
ABSENT_ROWS = []     # (configured token, view reached without any Authorization header?, status) — filled by probe_compare


def presented_for(e):
    """credential words tried against the configured token `e`: every proper prefix (the empty word included),
    `e` itself, extensions, one-character words, same-length words differing in the first / last character,
    case variant, suffixes, reversal."""
    ps = [e[:k] for k in range(len(e))] + [e, e + "x", e + e, e + e[:1], "x" + e, e[1:], e[::-1], e.swapcase(), "x", "not-the-token"]
    if e:
        ps += [flip(e[0]) + e[1:], e[:-1] + flip(e[-1]), e[:1], e[-1:], e[:1] * len(e)]
    out = []
    for p in ps:
        if p not in out and " " not in p:
            out.append(p)
    return out


def probe_compare():
    del ABSENT_ROWS[:]
    return _probe_compare()


def _probe_compare():
    """(presented, expected, accepted?) triples from the real decorator: a server configured with `expected`,
    `GET <protected rule>` with `Authorization: "Bearer " + presented` through the test client; accepted = the
    view's inner function was entered."""
    from BPTK_Py.server import BptkServer
    triples = []
    for e in EXPECTED_TOKENS:
        app = BptkServer("c15cmp", factory, None, e)
        app.logger.disabled = True
        reach = Reach(app)
        try:
            c = app.test_client()
            for p in presented_for(e):
                reach.hit = False
                try:
                    r = c.get("/scenarios", headers={"Authorization": "Bearer " + p})
                    st = r.status_code
                    r.close()
                except Exception:
                    st = 599
                triples.append((p, e, bool(reach.hit), st))
            reach.hit = False
            try:
                r = c.get("/scenarios"); st = r.status_code; r.close()
            except Exception:
                st = 599
            ABSENT_ROWS.append((e, bool(reach.hit), st))       # a falsy token ("" / "0") is still a configured token
        finally:
            reach.close()
    # two servers alive in one process, each with its own token: the token of the other one is not this one's
    t1, t2 = "token-of-server-1", "token-of-server-2"
    app1 = BptkServer("c15two1", factory, None, t1); app1.logger.disabled = True
    app2 = BptkServer("c15two2", factory, None, t2); app2.logger.disabled = True
    for app, own, other in ((app1, t1, t2), (app2, t2, t1), (app1, t1, t2)):
        reach = Reach(app)
        try:
            for p in (other, own, other):
                reach.hit = False
                try:
                    r = app.test_client().get("/scenarios", headers={"Authorization": "Bearer " + p}); st = r.status_code; r.close()
                except Exception:
                    st = 599
                if (p, own) not in [(a, b) for a, b, _, _ in triples]:
                    triples.append((p, own, bool(reach.hit), st))
        finally:
            reach.close()
    return triples


def lean_chars(s):
    return "[" + ", ".join("Char.ofNat %d" % ord(c) for c in s) + "]"


# ------------------------------------------------------------------ header LINES (duplicates, field-name case, blanks)
def header_line_cases(tok=TOKEN):
    """(name, [(field name, value)], wire lines or None).  `wire lines` (bytes) when the socket form differs
    from one line per pair (obs-fold); ASCII only."""
    A = "Authorization"
    cs = [
        ("dup-same", [(A, "Bearer " + tok), (A, "Bearer " + tok)]),
        ("dup-wrong-then-right", [(A, "Bearer wrong"), (A, "Bearer " + tok)]),
        ("dup-right-then-wrong", [(A, "Bearer " + tok), (A, "Bearer wrong")]),
        ("dup-split-scheme-token", [(A, "Bearer"), (A, tok)]),
        ("dup-right-then-empty", [(A, "Bearer " + tok), (A.lower(), "")]),
        ("dup-empty-then-right", [(A, ""), (A, "Bearer " + tok)]),
        ("dup-empty-empty", [(A, ""), (A, "")]),
        ("dup-prefix-then-rest", [(A, "Bearer " + tok[:4]), (A, tok[4:])]),
        ("triple-mixed-case", [(A, "Bearer wrong"), (A.lower(), "Bearer " + tok), (A.upper(), "x")]),
        ("name-lower", [(A.lower(), "Bearer " + tok)]),
        ("name-upper", [(A.upper(), "Bearer " + tok)]),
        ("name-mixed-wrong", [("aUtHoRiZaTiOn", "Bearer " + tok[:-1])]),
        ("name-upper-wrong", [(A.upper(), "Bearer not-the-token")]),
        ("name-underscore", [(A + "_", "Bearer " + tok)]),
        ("name-x-prefix", [("X-" + A, "Bearer " + tok)]),
        ("name-proxy", [("Proxy-" + A, "Bearer " + tok)]),
        ("name-other-plus-wrong", [("X-" + A, "Bearer " + tok), (A, "Bearer wrong")]),
        ("lead-blanks", [(A, "  Bearer " + tok)]),
        ("lead-tab", [(A, "\tBearer " + tok)]),
        ("lead-blank-token-only", [(A, " " + tok)]),
        ("lead-blanks-wrong", [(A, "   Bearer wrong")]),
        ("trail-blanks", [(A, "Bearer " + tok + "  ")]),
        ("trail-tab", [(A, "Bearer " + tok + "\t")]),
        ("inner-tab", [(A, "Bearer\t" + tok)]),
        ("inner-double", [(A, "Bearer  " + tok)]),
        ("only-blanks", [(A, "   ")]),
        ("empty-value", [(A, "")]),
    ]
    out = [(n, l, None) for n, l in cs]
    out.append(("obs-fold-blank", [(A, "Bearer " + tok)], [b"Authorization: Bearer", b" " + tok.encode()]))
    out.append(("obs-fold-tab", [(A, "Bearer\t" + tok)], [b"Authorization: Bearer", b"\t" + tok.encode()]))
    out.append(("obs-fold-wrong", [(A, "Bearer " + tok[:-1] + " " + tok)], [b"Authorization: Bearer " + tok[:-1].encode(), b" " + tok.encode()]))
    return out


def combined_ref(lines, transport):
    """value of request.headers["Authorization"] by RFC 9110 §5.2/§5.3 as the two gateways implement it (written
    independently of the Lean model): field names case-insensitive, repeated lines joined in order."""
    vals = [v for n, v in lines if n.lower() == "authorization"]
    if not vals:
        return None
    if transport == "ws":
        vals = [v.lstrip(" \t") for v in vals]
        return ",".join(vals)
    return ", ".join(vals)


# ------------------------------------------------------------------ probe: the route table
def probe_table():
    """Route table of the live app; protection detected behaviourally on a server configured with a
    sentinel token: a request without Authorization header must not reach the view's inner function."""
    w = World("live-session", token=SENTINEL)
    try:
        app = w.app
        rules = sorted(app.url_map.iter_rules(), key=lambda r: (r.rule, sorted(r.methods)))
        table = []
        for r in rules:
            methods = sorted(r.methods)
            is_static = (r.endpoint == "static")
            reached_any, auto, reached_by = False, False, []
            for m in methods:
                for idn in (["SESSION", "UNKNOWN"] if "<" in r.rule and not is_static else ["UNKNOWN"]):
                    st, reached, ch = w.request(r.rule, m, idn, None, UNION_BODY)
                    if m == "OPTIONS":
                        if not reached and st < 400:
                            auto = True
                        if reached:
                            reached_any = True
                    elif reached:
                        reached_any = True
                    if reached and m not in reached_by:
                        reached_by.append(m)
                    if ch:
                        w.close(); w = World("live-session", token=SENTINEL)
            table.append({"rule": r.rule, "methods": methods, "prot": (not reached_any) and not is_static,
                          "auto": auto, "static": is_static, "endpoint": r.endpoint, "reached_by": reached_by})
        sf = []
        if app.static_folder and os.path.isdir(app.static_folder):
            for root, _, fns in os.walk(app.static_folder):
                for fn in fns:
                    sf.append(os.path.relpath(os.path.join(root, fn), app.static_folder))
        return table, sorted(sf)
    finally:
        w.close()


def lean_str(s):
    return '"' + s.replace("\\", "\\\\").replace('"', '\\"') + '"'


def route_ok(r, static_files):
    return r["rule"] in PUBLIC or ((not static_files) if r["static"] else r["prot"])


def gen_lean(table, static_files, triples=(), calls=None, mrows=None, rrows=None, id_rows=None):
    rows = ",\n    ".join(
        "{ rule := %s, methods := [%s], prot := %s, autoOptions := %s, static := %s }" % (
            lean_str(r["rule"]), ", ".join(lean_str(m) for m in r["methods"]),
            str(r["prot"]).lower(), str(r["auto"]).lower(), str(r["static"]).lower()) for r in table)
    all_ok = all(route_ok(r, static_files) for r in table)
    auto_at = next((i for i, r in enumerate(table) if r["rule"] not in PUBLIC and r["auto"] and "OPTIONS" in r["methods"]), None)
    unprot = None
    for i, r in enumerate(table):
        if r["rule"] not in PUBLIC and not r["static"] and not r["prot"]:
            ms = [m for m in r["methods"] if not (m == "OPTIONS" and r["auto"])]
            if ms:
                unprot = (i, ms[0]); break
    body, verdict = "", {}
    if all_ok and auto_at is None:
        body = "theorem holds : C15_full table := C15_full_of_good table (by decide) (by decide)\n#print axioms holds\n"
        verdict = {"full": True, "all_protected": True, "auto_options_at": None, "unprotected": None}
    else:
        if all_ok:
            body += "theorem holds_but_options : C15_but_options table := C15_partial table (by decide)\n#print axioms holds_but_options\n"
        else:
            body += "theorem not_all_protected : allProtected table = false := by decide\n"
        if auto_at is not None:
            body += (f"theorem violated_auto_options : ¬ C15_full table := C15_witness_auto_options table {auto_at} (by decide)\n"
                     "#print axioms violated_auto_options\n")
        if unprot is not None:
            body += (f"theorem violated_unprotected : ¬ C15_full table := C15_witness_unprotected table {unprot[0]} {lean_str(unprot[1])} (by decide)\n"
                     "#print axioms violated_unprotected\n")
        verdict = {"full": False, "all_protected": all_ok, "auto_options_at": auto_at, "unprotected": unprot}
    # ---- the comparison observed on the real decorator
    obs_rows = ",\n    ".join("(%s, %s, %s)" % (lean_chars(p), lean_chars(e), str(bool(v)).lower()) for p, e, v, _ in triples)
    cmp_ok = all(bool(v) == (p == e) for p, e, v, _ in triples)
    verdict["compare_is_equality"] = cmp_ok
    body += "def obs : Obs := [\n    " + obs_rows + " ]\ndef cfg : Cfg := { table := table, obs := obs }\n"
    if cmp_ok:
        body += ("theorem compare_is_equality : compareIsEquality obs = true := by decide +kernel\n"
                 "theorem decorator_exact (h τ : List Char) : authOKW (cmpOf obs) (some h) τ = .accept ↔ word2 h = some τ :=\n"
                 "  auth_exact_obs obs compare_is_equality h τ\n"
                 "theorem fullC_iff : C15_fullC cfg ↔ C15_full table := C15_fullC_iff cfg compare_is_equality\n"
                 "#print axioms compare_is_equality\n#print axioms decorator_exact\n#print axioms fullC_iff\n")
        if verdict.get("full"):
            body += "theorem holdsC : C15_fullC cfg := C15_fullC_of_good cfg (by decide) (by decide) compare_is_equality\n#print axioms holdsC\n"
        else:
            if all_ok:
                body += ("theorem holds_but_optionsC : C15_but_optionsW table (cmpOf obs) := C15_partialC cfg (by decide) compare_is_equality\n"
                         "#print axioms holds_but_optionsC\n")
            if auto_at is not None:
                body += "theorem violatedC_auto_options : ¬ C15_fullC cfg := fun h => violated_auto_options (fullC_iff.mp h)\n#print axioms violatedC_auto_options\n"
            elif unprot is not None:
                body += "theorem violatedC_unprotected : ¬ C15_fullC cfg := fun h => violated_unprotected (fullC_iff.mp h)\n#print axioms violatedC_unprotected\n"
    else:
        verdict["full"] = False
        body += "theorem compare_not_equality : compareIsEquality obs = false := by decide +kernel\n#print axioms compare_not_equality\n"
        wrong = [(p, e) for p, e, v, _ in triples if v and p != e]
        wrong.sort(key=lambda pe: (not pe[1].startswith(pe[0]), pe[1] != TOKEN, len(pe[0])))   # a proper prefix first
        tgt = None
        for i, r in enumerate(table):
            if r["rule"] not in PUBLIC and not r["static"] and r["prot"]:
                ms = [m for m in r["methods"] if not (m == "OPTIONS" and r["auto"])]
                if ms:
                    tgt = (i, ms[0]); break
        verdict["wrongly_accepted"] = [list(x) for x in wrong[:8]]
        verdict["wrongly_refused"] = [[p, e] for p, e, v, _ in triples if not v and p == e][:8]
        if wrong and tgt is not None:
            p0, e0 = wrong[0]
            body += (f"theorem violated_compare : ¬ C15_fullC cfg :=\n  C15_witness_compare cfg {tgt[0]} {lean_str(tgt[1])} {lean_chars(p0)} {lean_chars(e0)} (by decide +kernel)\n"
                     "#print axioms violated_compare\n")
            verdict["compare_witness"] = {"presented": p0, "expected": e0, "rule": table[tgt[0]]["rule"], "method": tgt[1]}
    if mrows is not None:
        body += "def methodObs : MethodObs := [" + ", ".join("(%s, %s)" % (lean_str(m), str(bool(v)).lower()) for m, v in mrows) + "]\n"
        skipped = [m for m, v in mrows if v]
        verdict["check_ignores_method"] = not skipped
        if not skipped:
            body += "theorem check_ignores_method : checkIgnoresMethod methodObs = true := by decide\n#print axioms check_ignores_method\n"
            body += "theorem fullM_iff : C15_fullM table methodObs ↔ C15_full table := C15_fullM_iff table methodObs check_ignores_method\n#print axioms fullM_iff\n"
            if all_ok:
                body += ("theorem every_method {σ π : Type} (V : View σ π) (τ : List Char) (s : σ) (i : Nat) (rt : Route) (hr : table.routes[i]? = some rt)\n"
                         "    (hp : isPublic rt = false) (m : String) (a : Option (List Char)) (f : String) (p : π)\n"
                         "    (hnp : ¬ presents ({ route := i, method := m, auth := a, file := f, payload := p } : Request π) τ) :\n"
                         "    (handleM methodObs V table (some τ) s { route := i, method := m, auth := a, file := f, payload := p }).1 = s ∧\n"
                         "    (¬ (m = \"OPTIONS\" ∧ rt.autoOptions = true) →\n"
                         "      (handleM methodObs V table (some τ) s { route := i, method := m, auth := a, file := f, payload := p }).2 ≥ 400) :=\n"
                         "  C15_every_method table methodObs (by decide) check_ignores_method V τ s i rt hr hp m a f p hnp\n#print axioms every_method\n")
        else:
            verdict["full"] = False
            body += "theorem check_consults_method : checkIgnoresMethod methodObs = false := by decide\n#print axioms check_consults_method\n"
            tgt = None
            for i, r in enumerate(table):
                if r["rule"] not in PUBLIC and not r["static"] and r["prot"]:
                    ms = [m for m in r["methods"] if m in skipped and not (m == "OPTIONS" and r["auto"])]
                    if ms:
                        tgt = (i, ms[0]); break
            verdict["method_witness"] = tgt and {"rule": table[tgt[0]]["rule"], "method": tgt[1]}
            if tgt is not None:
                body += (f"theorem violated_method : ¬ C15_fullM table methodObs := C15_witness_method table methodObs {tgt[0]} {lean_str(tgt[1])} (by decide)\n"
                         "#print axioms violated_method\n")
    if id_rows is not None:
        ibody, iverdict = gen_ids(table, static_files, id_rows)
        body += ibody
        verdict.update(iverdict)
        if not iverdict["protection_decided_by_rule"]:
            verdict["full"] = False
    if rrows is not None:
        body += "def residueObs : ResidueObs := [\n    " + ",\n    ".join("(%s, %s)" % (lean_str(n_), str(bool(v_)).lower()) for n_, v_ in rrows) + " ]\n"
        stateless = not any(v_ for _, v_ in rrows)
        verdict["check_is_stateless"] = stateless
        if stateless:
            body += ("theorem check_is_stateless : checkIsStateless residueObs = true := by decide\n#print axioms check_is_stateless\n"
                     "theorem fullH_iff : C15_fullH false table ↔ C15_full table := C15_fullH_iff table\n#print axioms fullH_iff\n")
            if all_ok:
                body += ("theorem refuse_after_history {σ π : Type} (V : View σ π) (τ : List Char) (s0 : σ) (hist : List (Request π × Bool)) (r : Request π) (raised : Bool)\n"
                         "    (hnp : ¬ presents r τ) (hpub : ∀ rt, table.routes[r.route]? = some rt → isPublic rt = false) (hopt : r.method ≠ \"OPTIONS\") :\n"
                         "    (stepH false V table τ (runH false V table τ ⟨s0, false⟩ hist) r raised).2 ≥ 400 ∧\n"
                         "    (stepH false V table τ (runH false V table τ ⟨s0, false⟩ hist) r raised).1.st = (runH false V table τ ⟨s0, false⟩ hist).st :=\n"
                         "  C15_refuse_after_history table (by decide) V τ s0 hist r raised hnp hpub hopt\n#print axioms refuse_after_history\n")
        else:
            verdict["full"] = False
            body += "theorem check_is_not_stateless : checkIsStateless residueObs = false := by decide\n#print axioms check_is_not_stateless\n"
            tgt = None
            for i, r in enumerate(table):
                if r["rule"] not in PUBLIC and not r["static"] and r["prot"]:
                    ms = [m for m in r["methods"] if not (m == "OPTIONS" and r["auto"])]
                    if ms:
                        tgt = (i, ms[0]); break
            if tgt is not None:
                body += (f"theorem violated_sticky : ¬ C15_fullH true table := C15_witness_sticky table {tgt[0]} {lean_str(tgt[1])} (by decide)\n"
                         "#print axioms violated_sticky\n")
    if calls is not None:
        cbody, cverdict = gen_calls(calls)
        body += cbody
        verdict.update(cverdict)
        if not cverdict["calls_ok"]:
            verdict["full"] = False
    text = ("import Bptk.Props.C15\n/-! GENERATED by harness/props/c15.py from the live Flask app of /repo on every run — do not edit. -/\n"
            "namespace Bptk.C15.Gen\n"
            "def table : Table :=\n  { routes := [\n    " + rows + " ],\n    staticFiles := [" + ", ".join(lean_str(f) for f in static_files) + "] }\n"
            + body + "end Bptk.C15.Gen\n")
    return text, verdict


# ------------------------------------------------------------------ probe: does the wrapper consult the method? (wave 6)
PROBE_METHODS = ["GET", "HEAD", "POST", "PUT", "DELETE", "PATCH", "OPTIONS", "TRACE"]


def probe_method_check(table=()):
    """(method, was a refused credential let through for this method?).  If the check wraps the view (decorator), a
    wrapped view is called directly inside a request context of each method, so that Flask's own 405 / automatic OPTIONS
    hide nothing.  If calling the view directly reaches it even for GET (the check sits in front of the dispatch, e.g. a
    before_request hook), every method is sent through the dispatcher to a protected rule that allows it; a method no
    protected rule dispatches cannot reach a view."""
    from BPTK_Py.server import BptkServer
    app = BptkServer("c15meth", factory, None, TOKEN)
    app.logger.disabled = True
    reach = Reach(app)
    rows = []
    def direct(m, hdrs):
        reach.hit = False
        try:
            with app.test_request_context("/scenarios", method=m, headers=hdrs):
                app._scenarios_resource()
        except Exception:
            pass
        return bool(reach.hit)
    try:
        wrapper_mode = not direct("GET", {})
        for m in PROBE_METHODS:
            through = False
            for hdrs in ({}, {"Authorization": "Bearer not-the-token"}):
                if wrapper_mode:
                    through = through or direct(m, hdrs)
                else:
                    rule = next((r["rule"] for r in table if r["rule"] not in PUBLIC and not r["static"] and m in r["methods"]
                                 and not (m == "OPTIONS" and r["auto"])), None)
                    if rule is not None:
                        reach.hit = False
                        try:
                            resp = app.test_client().open(re.sub(r"<[^>]*>", "0123456789abcdef0123456789abcdef", rule), method=m, headers=hdrs)
                            resp.close()
                        except Exception:
                            pass
                        through = through or bool(reach.hit)
            rows.append((m, through))
    finally:
        reach.close()
    return rows


# ------------------------------------------------------------------ the server-state axis: histories of authorised requests (wave 8)
_SB = {k: UNION_BODY[k] for k in ("scenario_managers", "scenarios", "equations")}
AUTH_OPS = {     # name -> (rule, method, instance id name, body)     — all sent WITH the right token
    "scenarios": ("/scenarios", "GET", "UNKNOWN", None),
    "equations-ok": ("/equations", "POST", "UNKNOWN", {"scenarioManager": "firstManager", "scenario": "1"}),
    "equations-unknown-scenario": ("/equations", "POST", "UNKNOWN", {"scenarioManager": "firstManager", "scenario": "no-such-scenario"}),
    "equations-unknown-manager": ("/equations", "POST", "UNKNOWN", {"scenarioManager": "no-such-manager", "scenario": "1"}),
    "equations-empty-body": ("/equations", "POST", "UNKNOWN", {}),
    "run-ok": ("/run", "POST", "UNKNOWN", UNION_BODY),
    "run-unknown-manager": ("/run", "POST", "UNKNOWN", dict(UNION_BODY, scenario_managers=["no-such-manager"])),
    "run-unknown-scenario": ("/run", "PUT", "UNKNOWN", dict(UNION_BODY, scenarios=["no-such-scenario"])),
    "run-unknown-equation": ("/run", "POST", "UNKNOWN", dict(UNION_BODY, equations=["no-such-equation"])),
    "run-bad-settings": ("/run", "POST", "UNKNOWN", dict(UNION_BODY, settings={"firstManager": {"1": {"constants": {"no-such-constant": 1.0}}}})),
    "run-malformed-json": ("/run", "POST", "UNKNOWN", ("raw", b'{"scenario_managers": [', "application/json")),
    "run-json-list": ("/run", "POST", "UNKNOWN", ("raw", b"[1, 2, 3]", "application/json")),
    "agents": ("/agents", "POST", "UNKNOWN", UNION_BODY),
    "start": ("/start-instance", "POST", "UNKNOWN", {"timeout": UNION_BODY["timeout"]}),
    "start-bad-timeout": ("/start-instance", "POST", "UNKNOWN", {"timeout": {"seconds": "soon"}}),
    "start-instances-bad-count": ("/start-instances", "POST", "UNKNOWN", {"instances": "many"}),
    "begin-idle": ("/<instance_uuid>/begin-session", "POST", "IDLE", _SB),
    "begin-unknown-equation": ("/<instance_uuid>/begin-session", "POST", "IDLE", dict(_SB, equations=["no-such-equation"])),
    "begin-unknown-manager": ("/<instance_uuid>/begin-session", "POST", "IDLE", dict(_SB, scenario_managers=["no-such-manager"])),
    "begin-empty-body": ("/<instance_uuid>/begin-session", "POST", "IDLE", {}),
    "step": ("/<instance_uuid>/run-step", "POST", "SESSION", {"settings": {}}),
    "step-bad-settings": ("/<instance_uuid>/run-step", "POST", "SESSION", {"settings": {"firstManager": {"1": {"constants": {"no-such-constant": 1.0}}}}}),
    "step-settings-not-a-dict": ("/<instance_uuid>/run-step", "POST", "SESSION", {"settings": 5}),
    "step-idle-no-session": ("/<instance_uuid>/run-step", "POST", "IDLE", {"settings": {}}),
    "steps-past-stoptime": ("/<instance_uuid>/run-steps", "POST", "SESSION", {"numberSteps": 40, "settings": {}}),
    "steps-bad-count": ("/<instance_uuid>/run-steps", "POST", "SESSION", {"numberSteps": "x", "settings": {}}),
    "stream": ("/<instance_uuid>/stream-steps", "POST", "SESSION", {"settings": {}}),
    "stream-idle-no-session": ("/<instance_uuid>/stream-steps", "POST", "IDLE", {"settings": {}}),
    "results-idle-no-session": ("/<instance_uuid>/flat-session-results", "GET", "IDLE", None),
    "results-unknown": ("/<instance_uuid>/session-results", "GET", "UNKNOWN", None),
    "restore-stored": ("/<instance_uuid>/session-results", "GET", "STORED", None),
    "end": ("/<instance_uuid>/end-session", "POST", "SESSION", None),
    "keepalive-unknown": ("/<instance_uuid>/keep-alive", "POST", "UNKNOWN", None),
    "stop-unknown": ("/<instance_uuid>/stop-instance", "POST", "UNKNOWN", None),
    "save-state": ("/save-state", "GET", "UNKNOWN", None),
    "load-state": ("/load-state", "POST", "UNKNOWN", None),
}
H_SHAPES = [("absent", None), ("wrong", "Bearer not-the-token"), ("prefix", "Bearer " + TOKEN[:-1]), ("empty-credentials", "Bearer "), ("token-alone", TOKEN)]
H_FIXED = [("/scenarios", "GET", "UNKNOWN"), ("/start-instance", "POST", "UNKNOWN"), ("/run", "POST", "UNKNOWN"), ("/<instance_uuid>/run-step", "POST", "SESSION"),
           ("/<instance_uuid>/stop-instance", "POST", "IDLE"), ("/save-state", "GET", "UNKNOWN")]


def do_auth_op(w, name):
    """one authorised request of a history. Returns (rule, method, status, raised?, reached?) — raised = the handler let an
    exception out (Flask's own error page: 500, or 400 for an unparsable body)."""
    rule, m, idn, body = AUTH_OPS[name]
    path = w.path_of(rule, idn)
    kw = {"data": body[1], "content_type": body[2]} if isinstance(body, tuple) else ({"json": body} if body is not None else {})
    w.reach.hit = False
    raised = False
    try:
        resp = w.client.open(path, method=m, headers=auth_hdr(w.token), **kw)
        status = resp.status_code
        try:
            resp.get_data()
        except Exception:
            raised = True          # the streamed body raised
        raised = raised or (status >= 400 and (resp.mimetype or "").startswith("text/html"))
        resp.close()
    except Exception:
        status, raised = 599, True
    return rule, m, status, raised, bool(w.reach.hit)


def own_attributes(app):
    """what the wrapper could leave behind: attributes of the server object and of its class that Flask itself does not
    have, and the simple-valued globals of bptkServer.py — simple values by value, objects by identity"""
    import flask
    import BPTK_Py.server.bptkServer as S
    def val(v):
        return repr(v) if isinstance(v, (bool, int, float, str, bytes, type(None), tuple, frozenset)) else "<%s at %x>" % (type(v).__name__, id(v))
    base = set(vars(flask.Flask("c15plain"))) | set(dir(flask.Flask))
    out = {"self." + k: val(v) for k, v in vars(app).items() if k not in base}
    out.update({"class." + k: val(v) for k, v in vars(type(app)).items() if k not in base and not callable(v) and not isinstance(v, (staticmethod, classmethod, property))})
    out.update({"module." + k: val(v) for k, v in vars(S).items() if not k.startswith("__") and isinstance(v, (bool, int, float, str, type(None), tuple))})
    return out


def run_history(w, ops, lines=None, table=None):
    """drive the server through a history of authorised requests; afterwards the state the history left is the base for
    the state-equality reference. Returns [(name, status, raised, attributes changed by the request)]."""
    log = []
    for name in ops:
        before = own_attributes(w.app)
        rule, m, status, raised, reached = do_auth_op(w, name)
        after = own_attributes(w.app)
        changed = sorted(k for k in set(before) | set(after) if before.get(k) != after.get(k))
        log.append((name, status, raised, changed))
        if lines is not None and table is not None:
            ti = next((j for j, r in enumerate(table) if r["rule"] == rule and m in r["methods"]), None)
            if ti is not None:
                lines[0].append("hreq %d %s %s %s %d" % (ti, m, enc("Bearer " + w.token), enc("x.txt"), raised))
                lines[1].append("view" if reached else str(status)); lines[2].append({"history_op": name})
    w.base = snapshot(w.app, w.dir)
    return log


def refused_after(chk, w, state, ops, table, targets, out, label):
    """refused requests after a history: status >= 400 and nothing changed relative to what the history left"""
    req_lines, real_lines, ctx, findings, dist = out
    n = 0
    for (rule, m, idn), (name, hdr) in targets:
        ti = next((j for j, r in enumerate(table) if r["rule"] == rule and m in r["methods"]), None)
        if ti is None or idn not in w.ids:
            continue
        status, reached, changes = w.request(rule, m, idn, hdr, UNION_BODY if m in ("POST", "PUT") else None)
        n += 1
        req_lines.append("req %d %s %s %s" % (ti, m, "absent" if hdr is None else enc(hdr), enc("x.txt")))
        real_lines.append("view" if reached else str(status))
        case = {"state": state, "history": list(ops), "rule": rule, "method": m, "instance": idn, "shape": name, "header": hdr,
                "body": m in ("POST", "PUT"), "trailing_slash": False}
        ctx.append(case)
        chk.case(("history", tuple(ops), rule, m, idn, name), nontrivial=rule not in PUBLIC)
        dist["after_history"][label] = dist["after_history"].get(label, 0) + 1
        key = classify(rule, m, presents_ref(hdr, TOKEN), status, reached, changes)
        if key == "auto-options-200":
            key = None
        if key and key not in findings:
            findings[key] = (f"after the authorised requests {list(ops)} (state {state}): {m} {rule} (instance {idn}) with Authorization "
                             f"{'absent' if hdr is None else repr(hdr)} -> HTTP {status}, view reached: {reached}, state changes: {changes or 'none'}",
                             dict(case, status=status, reached=reached, changes=changes, token=TOKEN))
        if changes:
            w.base = snapshot(w.app, w.dir)
    return n


def in_flight_probe():
    """a request WITHOUT the token that arrives while an authorised request is inside its handler (same server object;
    issued from inside bptk.get_scenario_names during an authorised GET /scenarios): refused?"""
    w = World("live-session")
    seen = {}
    try:
        orig = w.app._bptk.get_scenario_names
        def during(*a, **k):
            if "status" not in seen:
                seen["status"] = None
                try:
                    r2 = w.app.test_client().get("/scenarios")
                    seen["status"] = r2.status_code
                    r2.close()
                except Exception:
                    seen["status"] = 599
            return orig(*a, **k)
        w.app._bptk.get_scenario_names = during
        r = w.client.get("/scenarios", headers=auth_hdr(w.token))
        seen["outer"] = r.status_code
        r.close()
    finally:
        w.close()
    return seen


def history_singles(chk, table, out):
    """every authorised request of the catalogue alone as a history, in the states it makes sense in, each followed by the
    fixed refused requests x 5 credential shapes; returns the rows of the residue table"""
    rows, residue_attrs, statuses = [], {}, {}
    # the same refused requests on a server WITHOUT history: what is served there already is not an effect of a history
    w = World("live-session")
    try:
        scratch = ([], [], [], {}, {"after_history": {}})
        refused_after(chk, w, "live-session", [], table, [(t, sh) for t in H_FIXED for sh in (H_SHAPES if t == H_FIXED[0] else H_SHAPES[:2])], scratch, "none")
        fresh_served = any(k in scratch[3] for k in ("served-without-token", "state-changed-without-token"))
    finally:
        w.close()
    for name in AUTH_OPS:
        for state in (["live-session", "locked-session"] if AUTH_OPS[name][2] == "SESSION" else ["live-session"]):
            w = World(state)
            out[0].append("hnew"); out[1].append("ok"); out[2].append(None)
            try:
                log = run_history(w, [name], out, table)
                targets = [(t, sh) for t in H_FIXED for sh in (H_SHAPES if t == H_FIXED[0] else H_SHAPES[:2])]
                before = dict(out[3])
                refused_after(chk, w, state, [name], table, targets, out, "single:" + ("raising" if log[0][2] else "status-%d" % log[0][1]))
                served = any(k in out[3] and k not in before for k in ("served-without-token", "state-changed-without-token"))
            finally:
                w.close()
            rows.append((name + ("" if state == "live-session" else " (locked)"), served and not fresh_served))
            statuses[rows[-1][0]] = {"status": log[0][1], "raised": log[0][2]}
            for a in log[0][3]:
                residue_attrs.setdefault(a, []).append(name)
    return rows, residue_attrs, statuses, fresh_served


def history_random(chk, table, out, n_hist, per_hist):
    rng = chk.rng.fork("c15-histories")
    names = list(AUTH_OPS)
    all_targets = [((r["rule"], m, idn)) for r in table if not r["static"] and r["rule"] not in PUBLIC
                   for m in r["methods"] if m != "OPTIONS" for idn in (["UNKNOWN", "STORED", "SESSION", "IDLE"] if "<" in r["rule"] else ["UNKNOWN"])]
    n = 0
    for h in range(n_hist):
        state = rng.choice(["live-session", "live-session", "locked-session", "no-instance"])
        ops = [rng.choice(names) for _ in range(rng.range(2, 7))]
        w = World(state)
        ops = [o for o in ops if AUTH_OPS[o][2] in w.ids]
        out[0].append("hnew"); out[1].append("ok"); out[2].append(None)
        try:
            log = run_history(w, ops, out, table)
            targets = [(rng.choice(all_targets), rng.choice(H_SHAPES)) for _ in range(per_hist)]
            n += refused_after(chk, w, state, ops, table, targets, out, "random:%s" % ("with-raising" if any(l[2] for l in log) else "no-raising"))
        finally:
            w.close()
    out[0].append("hnew"); out[1].append("ok"); out[2].append(None)
    return n


# ------------------------------------------------------------------ the instance-id axis: ids spelled like rule literals (wave 9)
LITERAL_IDS = ["metrics", "healthy", "full-metrics", "scenarios", "run", "save-state", "load-state", "start-instance", "start-instances",
               "equations", "agents"]       # not "static": GET /static/<x> is dispatched to Flask's static rule, not to the instance rule
PUBLIC_SEGMENTS = ["", "healthy", "metrics", "full-metrics"]
CONTROL_ID = "(an ordinary id)"


def collision_world(variant):
    """a server on which the ids of LITERAL_IDS are: `unknown` — not known at all; `stored` — externalised under that id
    (state file written through the adapter API, not in memory); `restarted` — written the same way and then loaded by a
    restarted server, i.e. LIVE sessions whose id is spelled `metrics`, `healthy`, `full-metrics`"""
    import copy as _copy
    from BPTK_Py.externalstateadapter import InstanceState
    w = World("live-session")
    lits = LITERAL_IDS if variant != "restarted" else LITERAL_IDS[:3]
    if variant in ("stored", "restarted"):
        ad = w.app._external_state_adapter
        src = ad.load_instance(w.ids["STORED"])
        for lit in lits:
            ad.save_instance(InstanceState(_copy.deepcopy(src.state), lit, src.time, _copy.deepcopy(src.timeout), src.step))
    if variant == "restarted":
        w.reach.close()
        for v in list(w.app._instance_manager._instances.values()):
            try:
                v["instance"].destroy()
            except Exception:
                pass
        w.app = build_app(w.token, w.dir)          # the server process is started again on the state directory
        w.client = w.app.test_client()
        w.reach = Reach(w.app)
    for lit in lits:
        w.ids["ID:" + lit] = lit
    w.lits = lits
    w.base = snapshot(w.app, w.dir)
    return w


def rule_patterns(table):
    pats = []
    for r in table:
        segs = [x for x in r["rule"].strip("/").split("/")] if r["rule"].strip("/") else []
        pats.append([None if x.startswith("<") else x for x in segs])
    return pats


def id_collision_stream(chk, table, out):
    """every instance rule x dispatched method (but OPTIONS) x refused credential shapes x ids spelled like the public
    resources and the other rule literals. Returns the rows (id spelling, rule index, refused credential served?)."""
    req_lines, real_lines, ctx, findings, dist = out
    served = {}
    n = 0
    for variant, shapes_ in (("unknown", H_SHAPES[:2]), ("stored", H_SHAPES[:3]), ("restarted", H_SHAPES[:2])):
        w = collision_world(variant)
        try:
            for ti, r in enumerate(table):
                if "<" not in r["rule"] or r["static"]:
                    continue
                for m in [x for x in r["methods"] if x != "OPTIONS"]:
                    for lit in list(w.lits) + [CONTROL_ID]:
                        for name, hdr in shapes_:
                            idn = "ID:" + lit if lit != CONTROL_ID else ("UNKNOWN" if variant == "unknown" else "STORED")
                            status, reached, changes = w.request(r["rule"], m, idn, hdr, UNION_BODY if m in ("POST", "PUT") else None)
                            n += 1
                            req_lines.append("req %d %s %s %s" % (ti, m, "absent" if hdr is None else enc(hdr), enc("x.txt")))
                            real_lines.append("view" if reached else str(status))
                            case = {"state": "live-session", "id_variant": variant, "rule": r["rule"], "method": m, "instance": idn, "shape": name,
                                    "header": hdr, "body": m in ("POST", "PUT"), "trailing_slash": False}
                            ctx.append(case)
                            chk.case(("id", variant, r["rule"], m, lit, name), nontrivial=True)
                            dist["by_instance_id"]["literal:" + variant] = dist["by_instance_id"].get("literal:" + variant, 0) + 1
                            key = classify(r["rule"], m, False, status, reached, changes)
                            served[(lit, ti)] = served.get((lit, ti), False) or bool(key)
                            if key and key not in findings:
                                findings[key] = (f"{m} {r['rule'].replace('<instance_uuid>', lit)} (the instance id is spelled {lit!r}; {variant}) with Authorization "
                                                 f"{'absent' if hdr is None else repr(hdr)} -> HTTP {status}, view reached: {reached}, state changes: {changes or 'none'}",
                                                 dict(case, status=status, reached=reached, changes=changes, token=TOKEN))
                            if changes:
                                w.close(); w = collision_world(variant); dist["rebuilds"] += 1
        finally:
            w.close()
    # a row counts only if the same rule refuses an ordinary id: what is served for every id is not an effect of the spelling
    return [(lit, ti, v and not served.get((CONTROL_ID, ti), False)) for (lit, ti), v in sorted(served.items()) if lit != CONTROL_ID], n


def gen_ids(table, static_files, id_rows):
    pats = rule_patterns(table)
    def lean_pat(p):
        return "[" + ", ".join(".var" if x is None else ".lit " + lean_str(x) for x in p) + "]"
    body = "def patterns : List (List Seg) := [" + ", ".join(lean_pat(p) for p in pats) + "]\n"
    body += "def idObs : IdObs := [" + ", ".join("(%s, %d, %s)" % (lean_str(l), i, str(bool(v)).lower()) for l, i, v in id_rows) + "]\n"
    bad = next(((l, i) for l, i, v in id_rows if v), None)
    verdict = {"protection_decided_by_rule": bad is None}
    if not static_files:
        body += ("theorem table_separated : tableSeparated table patterns = true := by decide\n"
                 "theorem protection_by_rule : C15_fullP (ruleExempt table patterns) table patterns :=\n"
                 "  C15_by_rule_of_separated table patterns rfl table_separated (pats_total table patterns (by decide))\n"
                 "#print axioms table_separated\n#print axioms protection_by_rule\n")
    if bad is None:
        body += "theorem protection_decided_by_rule : protectionDecidedByRule idObs = true := by decide\n#print axioms protection_decided_by_rule\n"
    else:
        body += "theorem protection_not_by_rule : protectionDecidedByRule idObs = false := by decide\n#print axioms protection_not_by_rule\n"
        lit, i = bad
        m = next((x for x in table[i]["methods"] if x != "OPTIONS"), None)
        if lit in PUBLIC_SEGMENTS and m and len(pats[i]) == 2 and pats[i][0] is None and pats[i][1] is not None:
            body += (f"theorem violated_first_segment : ¬ C15_fullP (firstSegExempt [{', '.join(lean_str(x) for x in PUBLIC_SEGMENTS)}]) table patterns :=\n"
                     f"  C15_witness_first_segment table patterns [{', '.join(lean_str(x) for x in PUBLIC_SEGMENTS)}] {i} {lean_str(m)} {lean_str(lit)} {lean_str(pats[i][1])} (by decide)\n"
                     "#print axioms violated_first_segment\n")
        verdict["id_collision"] = {"id": lit, "rule": table[i]["rule"]}
    return body, verdict


# ------------------------------------------------------------------ call order inside one request (wave 5)
TRACE_TOOL = 5
TRACE_MAX = 10


class CallTrace:
    """sys.monitoring, process-wide, filtered by source file.  The token check is recognised BEHAVIOURALLY, wherever it
    lives (decorator wrapper, before_request hook, helper): `discover` sends refused requests and takes every function
    of bptkServer.py that RETURNS the 401 response (or raises a 401) as check code.  Recorded afterwards: "check" = entry
    of check code; ("touch", qualified name) = entry of a function that reads or writes server state — every function of
    InstanceManager, of the external-state adapter package and of bptk.py, and the bodies of the registered views.
    Other functions of bptkServer.py (hooks, helpers that only look at the request and the configured token) are
    neither: what they do to the state shows as calls into the state classes or in the state-equality reference."""
    def __init__(self, app):
        import BPTK_Py.server.bptkServer as S
        import BPTK_Py.externalstateadapter as A
        import BPTK_Py.bptk
        B = sys.modules["BPTK_Py.bptk"]
        self.server_file, self.bptk_file = S.__file__, B.__file__
        self.adir = os.path.dirname(A.__file__)
        self.check_codes = set()
        self.view_codes = set()
        for ep, view in app.view_functions.items():
            if ep != "static":
                self.view_codes.update(inner_codes(view))
        self.on = False
        self.discovering = False
        self.events = []
        mon = sys.monitoring
        try:
            mon.use_tool_id(TRACE_TOOL, "verif-c15-calls")
        except ValueError:
            mon.free_tool_id(TRACE_TOOL)
            mon.use_tool_id(TRACE_TOOL, "verif-c15-calls")
        mon.register_callback(TRACE_TOOL, mon.events.PY_START, self._cb)
        mon.register_callback(TRACE_TOOL, mon.events.PY_RETURN, self._ret)
        mon.register_callback(TRACE_TOOL, mon.events.PY_UNWIND, self._unwind)
        mon.set_events(TRACE_TOOL, mon.events.PY_START | mon.events.PY_RETURN | mon.events.PY_UNWIND)

    def _mine(self, code):
        fn = code.co_filename
        return fn == self.server_file or fn == self.bptk_file or fn.startswith(self.adir)

    def _ret(self, code, offset, value):
        if not self._mine(code):
            return sys.monitoring.DISABLE
        if self.discovering and code.co_filename == self.server_file and getattr(value, "status_code", None) == 401:
            self.check_codes.add(code)
        return None

    def _unwind(self, code, offset, exc):
        if self.discovering and self._mine(code) and code.co_filename == self.server_file and getattr(exc, "code", None) == 401:
            self.check_codes.add(code)

    def _cb(self, code, offset):
        if not self._mine(code):
            return sys.monitoring.DISABLE
        if not self.on or len(self.events) >= TRACE_MAX:
            return None
        if code in self.check_codes:
            self.events.append("check")
            return None
        q = getattr(code, "co_qualname", code.co_name)
        if "<" in q.split(".")[-1]:      # lambdas / comprehensions inside a traced function
            return None
        if code.co_filename == self.server_file and not q.startswith("InstanceManager.") and code not in self.view_codes:
            return None                  # hook / helper of the server class: not a state function by itself
        self.events.append(q)
        return None

    def discover(self, w):
        """refused requests (no header, wrong token, on a plain and on an instance rule): who answers 401?"""
        self.discovering = True
        try:
            for rule, m, idn, hdr in (("/scenarios", "GET", "UNKNOWN", None), ("/run", "POST", "UNKNOWN", "Bearer not-the-token"),
                                      ("/<instance_uuid>/run-step", "POST", "UNKNOWN", None)):
                try:
                    w.request(rule, m, idn, hdr, UNION_BODY if m == "POST" else None)
                except Exception:
                    pass
        finally:
            self.discovering = False
        self.view_codes -= self.check_codes
        return sorted(getattr(c, "co_qualname", c.co_name) for c in self.check_codes)

    def start(self):
        self.events, self.on = [], True

    def stop(self):
        self.on = False
        return list(self.events)

    def close(self):
        mon = sys.monitoring
        mon.set_events(TRACE_TOOL, 0)
        for ev in (mon.events.PY_START, mon.events.PY_RETURN, mon.events.PY_UNWIND):
            mon.register_callback(TRACE_TOOL, ev, None)
        mon.free_tool_id(TRACE_TOOL)


CHECK_LOCATED = []      # qualified names of the functions recognised as the token check (filled by probe_calls)


def probe_calls(table):
    """per rule x allowed method x instance id: the call trace with the right token, without header, with a
    wrong token (a fresh server state for each request that changed something)"""
    rows = []
    w = World("live-session")
    tr = CallTrace(w.app)
    try:
        del CHECK_LOCATED[:]
        CHECK_LOCATED.extend(tr.discover(w))
        if not CHECK_LOCATED:
            return None         # the 401 is not produced by a function of bptkServer.py: no call-order table can be built
        for i, r in enumerate(table):
            if r["static"]:
                continue
            idns = w.id_names() if "<" in r["rule"] else ["UNKNOWN"]
            for m in r["methods"]:
                if m in ("HEAD",):
                    continue
                for idn in idns:
                    got = {}
                    for name, hdr in (("accepted", "Bearer " + TOKEN), ("absent", None), ("wrong", "Bearer not-the-token")):
                        tr.start()
                        try:
                            status, reached, changes = w.request(r["rule"], m, idn, hdr, UNION_BODY if m in ("POST", "PUT") else None)
                        finally:
                            got[name] = tr.stop()
                        got[name + "_status"] = status
                        got[name + "_changes"] = changes
                        if changes:
                            w.close(); w = World("live-session")
                    rows.append({"rule": r["rule"], "method": m, "inst": idn, **got})
    finally:
        w.close()
        tr.close()
    return rows


def lean_trace(evs):
    return "[" + ", ".join(".check" if e == "check" else ".touch " + lean_str(e) for e in evs) + "]"


def refused_trace(evs):
    out = []
    for e in evs:
        out.append(e)
        if e == "check":
            break
    return out


def gen_calls(rows):
    bad = next((i for i, r in enumerate(rows) if r["rule"] not in PUBLIC and r["accepted"] and r["accepted"][0] != "check"), None)
    ok = all(r["rule"] in PUBLIC or ((not r["accepted"] or r["accepted"][0] == "check") and all(e == "check" for e in r["absent"] + r["wrong"])) for r in rows)
    cons = all(r["absent"] == refused_trace(r["accepted"]) and r["wrong"] == refused_trace(r["accepted"]) for r in rows)
    body = "def callTable : List CallRow := [\n    " + ",\n    ".join(
        "{ rule := %s, method := %s, inst := %s, accepted := %s, refusedAbsent := %s, refusedWrong := %s }" % (
            lean_str(r["rule"]), lean_str(r["method"]), lean_str(r["inst"]), lean_trace(r["accepted"]), lean_trace(r["absent"]), lean_trace(r["wrong"]))
        for r in rows) + " ]\n"
    if ok:
        body += ("theorem call_order_ok : callsOK callTable = true := by decide +kernel\n"
                 "theorem calls_refuse : CallsRefuse callTable := C15_calls_refuse callTable call_order_ok\n"
                 "#print axioms call_order_ok\n#print axioms calls_refuse\n")
    else:
        body += "theorem call_order_broken : callsOK callTable = false := by decide +kernel\n#print axioms call_order_broken\n"
        if bad is not None:
            body += (f"theorem violated_call_order : ¬ CallsRefuse callTable := C15_witness_call_order callTable {bad} (by decide +kernel)\n"
                     "#print axioms violated_call_order\n")
    if cons:
        body += "theorem traces_consistent : callTable.all rowConsistent = true := by decide +kernel\n#print axioms traces_consistent\n"
    return body, {"calls_ok": ok, "bad_row": bad, "traces_consistent": cons}


# ------------------------------------------------------------------ correspondence + reference check
def case_plan(chk, table, world):
    """All (rule index, method, id name, shape, body?, slash?) for one server state."""
    sh = shapes(quick=chk.quick)
    plan = []
    for i, r in enumerate(table):
        idns = world.id_names() if ("<" in r["rule"] and not r["static"]) else ["UNKNOWN"]
        methods = list(r["methods"]) + [m for m in ("DELETE",) if m not in r["methods"]]
        for m in methods:
            allowed = m in r["methods"]
            for idn in idns:
                for k, (name, hdr) in enumerate(sh):
                    if not allowed and k % 6 != 0:
                        continue
                    bodies = [True]
                    if not chk.quick or name in ("absent", "wrong"):
                        bodies = [True, False]
                    for b in bodies:
                        plan.append((i, m, idn, name, hdr, b, False))
                if allowed and (not chk.quick or idn == idns[0]):
                    plan.append((i, m, idn, "absent", None, True, True))
                    plan.append((i, m, idn, "wrong", "Bearer not-the-token", True, True))
    return plan


def fuzz_headers(rng, n, tok=TOKEN):
    alpha = list(" \t:=\"Bearerbasic") + list(tok) + ["x", "X", "é"]
    out = []
    for _ in range(n):
        k = rng.below(6)
        if k == 0:
            s = "".join(rng.choice(alpha) for _ in range(rng.range(0, 14)))
        elif k == 1:   # mutate the token inside a well-formed header
            t = list(tok)
            for _ in range(rng.range(1, 2)):
                j = rng.below(len(t) + 1)
                op = rng.below(3)
                if op == 0 and t: t.pop(min(j, len(t) - 1))
                elif op == 1: t.insert(j, rng.choice(alpha))
                elif t: t[min(j, len(t) - 1)] = rng.choice(alpha)
            s = "Bearer " + "".join(t)
        elif k == 2:   # words around the token
            ws = [rng.choice(["Bearer", "bearer", "Basic", "", tok, tok[:-1], "x", tok + tok]) for _ in range(rng.range(1, 4))]
            s = " ".join(ws)
        elif k == 3:
            s = rng.choice(["Bearer", "Bearer ", "Bearer  ", " ", "  "]) + rng.choice([tok, tok[1:], tok.upper(), tok.lower(), ""]) + rng.choice(["", " ", " x", "\t"])
        elif k == 4:
            s = rng.choice(["", " "]) + tok + rng.choice(["", " ", " Bearer"])
        else:
            s = "".join(rng.choice(alpha) for _ in range(rng.range(0, 6))) + " " + tok + rng.choice(["", " ", "x", " y z"])
        if "\n" in s or "\r" in s:
            continue
        out.append(s)
    return out


def header_line_stream(chk, w, state, table, out):
    """duplicate Authorization lines, field names in other cases, blanks — through werkzeug's test client (`tc`)
    and over a socket through werkzeug's WSGI server (`ws`).  Returns the (possibly rebuilt) world."""
    req_lines, real_lines, ctx, findings, dist = out
    targets = [("/scenarios", "GET", "UNKNOWN"), ("/start-instance", "POST", "UNKNOWN"), ("/<instance_uuid>/run-step", "POST", "SESSION"),
               ("/<instance_uuid>/begin-session", "POST", "STORED")]
    if chk.quick:
        targets = targets[:3]
    n = 0
    for rule, m, idn in targets:
        ti = next((j for j, r in enumerate(table) if r["rule"] == rule and m in r["methods"]), None)
        if ti is None:
            continue
        for name, lines, wire in header_line_cases():
            for tr in ("tc", "ws"):
                if tr == "tc" and wire is not None:
                    continue            # folding exists on the wire only
                body = UNION_BODY if m != "GET" else None
                if tr == "tc":
                    status, reached, changes = w.request(rule, m, idn, None, body, lines=lines)
                else:
                    wl = wire if wire is not None else [(k + ": " + v).encode("latin-1") for k, v in lines]
                    status, reached, changes = w.raw_request(rule, m, idn, wl, body)
                n += 1
                comb = combined_ref(lines, tr)
                # lenient reading for the reference check: the value the decorator sees presents the token, or one
                # of the lines alone does (a client that knows the token) — refusing those is never required
                pres = presents_ref(comb, TOKEN) or any(presents_ref(v.strip(" \t"), TOKEN) for k, v in lines if k.lower() == "authorization")
                req_lines.append("reqh %d %s %s e %s" % (ti, m, tr, " ".join(enc(k) + " " + enc(v) for k, v in lines)))
                real_lines.append("view" if reached else str(status))
                case = {"state": state, "rule": rule, "method": m, "instance": idn, "shape": "lines:" + name, "transport": tr,
                        "header_lines": [list(x) for x in lines], "wire": [x.decode("latin-1") for x in wire] if wire else None,
                        "header": comb, "body": body is not None, "trailing_slash": False}
                ctx.append(case)
                chk.case(("lines", rule, m, name, tr), nontrivial=not pres)
                dist["by_shape"]["lines-" + tr] = dist["by_shape"].get("lines-" + tr, 0) + 1
                dist["reached"] += reached
                dist["refused"] += (not reached and status >= 400)
                key = classify(rule, m, pres, status, reached, changes)
                if key and key not in findings:
                    findings[key] = (f"{m} {rule} (instance {idn}, {'test client' if tr == 'tc' else 'WSGI server over a socket'}) with header lines "
                                     f"{lines!r} (Authorization as seen: {comb!r}) -> HTTP {status}, view reached: {reached}, state changes: {changes or 'none'}",
                                     dict(case, status=status, reached=reached, changes=changes, token=TOKEN))
                if changes:
                    w.close(); w = World(state); dist["rebuilds"] += 1
    return w, n


BODY_KINDS = [("malformed-json", ("raw", b'{"settings": {"firstManager": ', "application/json")),
              ("form", ("raw", b"numberSteps=2&instances=2&timeout=5", "application/x-www-form-urlencoded")),
              ("text", ("raw", b"scenario_managers=firstManager", "text/plain")),
              ("json-list", ("raw", b"[1, 2, 3]", "application/json")),
              ("big-json", ("raw", json.dumps(dict(UNION_BODY, pad="x" * 200_000)).encode(), "application/json"))]


def body_kind_stream(chk, w, state, table, out):
    """bodies that are not the union JSON object (malformed JSON, form, text, a JSON list, 200 kB): a refused request is
    refused before its body matters"""
    req_lines, real_lines, ctx, findings, dist = out
    n = 0
    for ti, r in enumerate(table):
        if r["static"]:
            continue
        for m in [x for x in r["methods"] if x in ("POST", "PUT")]:
            for idn in (["UNKNOWN", "SESSION"] if "<" in r["rule"] else ["UNKNOWN"]):
                for bname, body in BODY_KINDS:
                    for name, hdr in (("absent", None), ("wrong", "Bearer not-the-token")):
                        status, reached, changes = w.request(r["rule"], m, idn, hdr, body)
                        n += 1
                        req_lines.append("req %d %s %s %s" % (ti, m, "absent" if hdr is None else enc(hdr), enc("x.txt")))
                        real_lines.append("view" if reached else str(status))
                        case = {"state": state, "rule": r["rule"], "method": m, "instance": idn, "shape": name, "header": hdr,
                                "body": "kind:" + bname, "trailing_slash": False}
                        ctx.append(case)
                        chk.case(("body", r["rule"], m, idn, bname, name), nontrivial=r["rule"] not in PUBLIC)
                        dist["by_body"]["kind:" + bname] = dist["by_body"].get("kind:" + bname, 0) + 1
                        key = classify(r["rule"], m, False, status, reached, changes)
                        if key and key not in findings:
                            findings[key] = (f"{m} {r['rule']} (instance {idn}) with a {bname} body and Authorization {'absent' if hdr is None else repr(hdr)} -> HTTP {status}, "
                                             f"view reached: {reached}, state changes: {changes or 'none'}",
                                             dict(case, status=status, reached=reached, changes=changes, token=TOKEN))
                        if changes:
                            w.close(); w = World(state); dist["rebuilds"] += 1
    return w, n


def no_adapter_stream(chk, table, out):
    """a server WITHOUT external state adapter (the handlers' `if adapter != None` branches): every rule x allowed method
    x {no header, wrong token} on an unknown id and on a live session"""
    from BPTK_Py.server import BptkServer
    req_lines, real_lines, ctx, findings, dist = out
    d = scratch_dir("bptkc15na")
    app = BptkServer("c15noadapter", factory, None, TOKEN)
    app.logger.disabled = True
    c = app.test_client()
    H = auth_hdr(TOKEN)
    u = json.loads(c.post("/start-instance", json={"timeout": UNION_BODY["timeout"]}, headers=H).data)["instance_uuid"]
    c.post(f"/{u}/begin-session", json={k: UNION_BODY[k] for k in ("scenario_managers", "scenarios", "equations")}, headers=H)
    reach = Reach(app)
    base = snapshot(app, d)
    n = 0
    try:
        for ti, r in enumerate(table):
            if r["static"]:
                continue
            for m in r["methods"]:
                for idn, ident in ((("UNKNOWN", "0123456789abcdef0123456789abcdef"), ("SESSION", u)) if "<" in r["rule"] else (("UNKNOWN", ""),)):
                    for name, hdr in (("absent", None), ("wrong", "Bearer not-the-token")):
                        path = re.sub(r"<[^>]*>", ident, r["rule"])
                        reach.hit = False
                        try:
                            resp = c.open(path, method=m, headers={} if hdr is None else {"Authorization": hdr}, json=UNION_BODY)
                            status = resp.status_code
                            try:
                                resp.get_data()
                            finally:
                                resp.close()
                        except Exception:
                            status = 599
                        n += 1
                        changes = describe_change(base, snapshot(app, d))
                        req_lines.append("req %d %s %s %s" % (ti, m, "absent" if hdr is None else enc(hdr), enc("x.txt")))
                        real_lines.append("view" if reach.hit else str(status))
                        case = {"state": "no-adapter", "rule": r["rule"], "method": m, "instance": idn, "shape": name, "header": hdr}
                        ctx.append(case)
                        chk.case(("no-adapter", r["rule"], m, idn, name), nontrivial=r["rule"] not in PUBLIC)
                        key = classify(r["rule"], m, False, status, bool(reach.hit), changes)
                        if key and key not in findings:
                            findings[key] = (f"server without state adapter: {m} {r['rule']} (instance {idn}) with Authorization {'absent' if hdr is None else repr(hdr)} -> HTTP {status}, "
                                             f"view reached: {bool(reach.hit)}, state changes: {changes or 'none'}",
                                             dict(case, status=status, reached=bool(reach.hit), changes=changes, token=TOKEN, no_failing_replay=True))
                        if changes:
                            base = snapshot(app, d)
    finally:
        reach.close()
        shutil.rmtree(d, ignore_errors=True)
    dist["by_state"]["no-adapter"] = n
    return n


CONTROLS = [
    ("/run", "POST", "UNKNOWN", ["scenario settings of the server-level bptk changed"]),
    ("/<instance_uuid>/run-step", "POST", "SESSION", ["scenario settings of an instance changed", "session state changed (begun / advanced / ended / locked)",
                                                       "external state file rewritten"]),
    ("/<instance_uuid>/run-step", "POST", "STORED", ["instance created", "external state file rewritten"]),
    ("/<instance_uuid>/begin-session", "POST", "IDLE", ["session state changed (begun / advanced / ended / locked)"]),
    ("/start-instance", "POST", "UNKNOWN", ["instance created"]),
    ("/<instance_uuid>/stop-instance", "POST", "SESSION", ["instance removed", "external state file removed"]),
]


def reference_controls(state="live-session"):
    """Positive controls of the state-equality reference: the SAME requests (bodies with settings) sent WITH the
    token must show up in the before/after comparison — scenario constants of the server-level bptk and of the
    instance, session state, content of the external-state files."""
    res = []
    for rule, m, idn, expect in CONTROLS:
        w = World(state)
        try:
            status, reached, changes = w.request(rule, m, idn, "Bearer " + TOKEN, UNION_BODY)
        finally:
            w.close()
        res.append({"rule": rule, "method": m, "instance": idn, "status": status, "reached": reached, "changes": changes,
                    "missing": [e for e in expect if e not in changes]})
    return res


def classify(rule, method, presents, status, reached, changes):
    """Reference check of the statement on one real request. Returns finding key or None."""
    if rule in PUBLIC or presents:
        return None
    if status >= 400 and not changes:
        return None
    if method == "OPTIONS" and not reached and not changes:
        return "auto-options-200"
    if changes:
        return "state-changed-without-token"
    return "served-without-token"


def run(chk):
    quiet_bptk_logging()
    sink = io.StringIO()
    findings = {}       # key -> (text, replay)
    try:
        with contextlib.redirect_stdout(sink):
            table, static_files = probe_table()
            triples = probe_compare()
            calls = probe_calls(table)
            mrows = probe_method_check(table)
        dist = {"by_state": {}, "by_shape": {}, "by_method": {}, "by_instance_id": {}, "by_body": {}, "trailing_slash": 0, "after_history": {},
                "status": {}, "reached": 0, "refused": 0, "rebuilds": 0}
        h_req, h_real, h_ctx = [], [], []
        skipped = {m for m, v in mrows if v}
        if skipped:
            # a view reached without the token only through methods for which the WRAPPER skips the check is a protected
            # view behind a method-dependent wrapper (handleM), not an undecorated one
            for r in table:
                if not r["static"] and r["reached_by"] and all(m in skipped for m in r["reached_by"]):
                    r["prot"] = True
        with contextlib.redirect_stdout(sink):
            # the server-state axis: every authorised request of the catalogue (succeeding, answering 500, raising) as a
            # history, followed by refused requests; and a refused request arriving while an authorised one is in flight
            rrows, residue_attrs, op_status, fresh_served = history_singles(chk, table, (h_req, h_real, h_ctx, findings, dist))
            flight = in_flight_probe()
            id_rows, n_ids = id_collision_stream(chk, table, (h_req, h_real, h_ctx, findings, dist))
        rrows.append(("in flight: inside the handler of an authorised GET /scenarios", flight.get("status") is not None and flight["status"] < 400 and not fresh_served))
        if flight.get("status") is not None and flight["status"] < 400 and "served-without-token" not in findings:
            findings["served-without-token"] = (f"GET /scenarios without Authorization header, arriving while an authorised GET /scenarios is inside its handler on the same "
                                                f"server object -> HTTP {flight['status']}", {"probe": "in-flight", "status": flight["status"]})
        if residue_attrs and any(v_ for _, v_ in rrows):
            for k_ in ("served-without-token", "state-changed-without-token"):
                if k_ in findings and "history" in findings[k_][1]:
                    findings[k_] = (findings[k_][0] + f" — server attributes written during authorised requests: {sorted(residue_attrs)}", findings[k_][1])
        chk.notes["history_probe"] = {"authorised_requests": op_status, "attributes_written_during_authorised_requests": residue_attrs,
                                      "served_afterwards": [n_ for n_, v_ in rrows if v_]}
        gen_text, verdict = gen_lean(table, static_files, triples, calls, mrows, rrows, id_rows)
        chk.notes["method_probe"] = [list(x) for x in mrows]
        chk.notes["tokens_without_header"] = [list(x) for x in ABSENT_ROWS]
        for e_, reached_, st_ in ABSENT_ROWS:
            if (reached_ or st_ < 400) and "served-without-token" not in findings:
                findings["served-without-token"] = (f"server configured with bearer token {e_!r}: GET /scenarios without Authorization header -> HTTP {st_}, view reached: {reached_}",
                                                    {"probe": "compare", "expected": e_, "presented": None, "status": st_, "rule": "/scenarios", "method": "GET"})
        chk.notes["call_order_probe"] = {"token_check_located_in": list(CHECK_LOCATED), "rows": len(calls or []),
                                         "programs": sorted({(r["rule"], r["method"], " > ".join(r["accepted"][:4])) for r in calls or []})[:80]}
        for r in calls or []:      # reference: a refused request must not enter any state-touching function
            if r["rule"] in PUBLIC:
                continue
            for name, hdr in (("absent", None), ("wrong", "Bearer not-the-token")):
                touched = [e for e in r[name] if e != "check"]
                if touched and "state-call-before-token-check" not in findings:
                    findings["state-call-before-token-check"] = (
                        f"{r['method']} {r['rule']} (instance {r['inst']}) with Authorization {'absent' if hdr is None else repr(hdr)} -> HTTP {r[name + '_status']}: "
                        f"entered {touched[:4]} {'before' if r[name][0] != 'check' else 'after'} the token check; state changes: {r[name + '_changes'] or 'none'}",
                        {"probe": "calls", "state": "live-session", "rule": r["rule"], "method": r["method"], "instance": r["inst"], "header": hdr,
                         "body": r["method"] in ("POST", "PUT"), "trace": r[name], "status": r[name + "_status"], "changes": r[name + "_changes"], "token": TOKEN})
            if not r["absent"] == r["wrong"] == refused_trace(r["accepted"]) and "call-trace-mismatch" not in findings and not [e for e in r["absent"] + r["wrong"] if e != "check"]:
                findings["call-trace-mismatch"] = (f"{r['method']} {r['rule']} ({r['inst']}): refused traces {r['absent']} / {r['wrong']} are not the prefix up to the first check of the accepted trace {r['accepted']}",
                                                   {"correspondence": "call order", "row": {k: r[k] for k in ("rule", "method", "inst", "accepted", "absent", "wrong")}})
        chk.notes["compare_probe"] = {"triples": len(triples), "expected_tokens": EXPECTED_TOKENS,
                                      "accepted": sum(1 for t in triples if t[2]),
                                      "disagreeing_with_equality": [[p, e, v] for p, e, v, _ in triples if bool(v) != (p == e)][:20]}
        chk.notes["route_table"] = [{k: r[k] for k in ("rule", "methods", "prot", "auto", "static")} for r in table]
        chk.notes["static_files"] = static_files
        chk.notes["obligation_selected"] = verdict
        ok, why = chk.prove(gen_text)
        chk.cov["trusted_base"] = [
            "Lean 4.33 kernel; axioms propext, Classical.choice, Quot.sound (audited per run via #print axioms)",
            "Flask/werkzeug: URL matching, method check (405), automatic OPTIONS, header parsing — modelled by `handle` from the probed table, validated only by the correspondence run",
            "the probe of this module: route table read from app.url_map; a view counts as protected iff a request without Authorization header (sentinel token configured) never enters the view's inner function (sys.monitoring on the code objects behind functools.wraps / closure cells)",
            "views are an arbitrary parameter V of the model: nothing about what a view does once reached is assumed",
            "the history probe (wave 8): 36 kinds of authorised requests (served, answered 500, raising) each as a history and random sequences of them, followed by refused requests; `raised` = Flask's own error page; the residue of the wrapper is observed behaviourally (a refused request served afterwards, or while an authorised one is inside its handler) and as attributes of the server object / class / module written during authorised requests (diagnostic only)",
            "the call-order probe (wave 5): sys.monitoring PY_START filtered to bptkServer.py, the external-state adapter package and bptk.py; `check` = entry of the token_required wrapper, `touch` = entry of any other function there; helpers the wrapper itself calls before the wrapped function count as part of the check unless they belong to InstanceManager / adapters / bptk; callsOK decided by the kernel on the generated table",
            "the comparison probe: (presented, expected, accepted?) triples from servers configured with 7 tokens (every proper prefix incl. the empty word, extensions, one-character words, same-length variants); the model's comparison is string equality patched by these observations, `compareIsEquality obs` is decided by the kernel",
            "werkzeug's two gateways (test client: repeated lines joined by ', '; WSGI server over a socket: joined by ',', leading blanks/tabs dropped, obs-fold = concatenation) are modelled by `headerValue` and validated by the correspondence only",
        ]
        chk.assumptions = [
            "reading (DESIGN §7 C15): a request presents the token iff the second space-separated word of its Authorization header equals the token; `Basic tok`, `bearer tok`, `Bearer tok x` are accepted requests",
            "server-side state compared: _instances (object identity, last-access time, timeout), every session_state, scenario settings (constants, points, run specs, model points, identity of equation lambdas) of every instance and of the server-level bptk, listing + mtime + sha1 of the external state directory; source text of every element equation; positive controls (the same bodies with settings sent WITH the token) must show up in this comparison on every run (notes.state_reference_controls)",
            "header lines: for the reference check a request given as header lines presents the token iff the joined value does or one Authorization line alone does",
        ]
        req_lines, real_lines, ctx = [], [], []
        req_lines += ["clear", "tok " + enc(TOKEN)]
        real_lines += ["ok", "ok"]
        ctx += [None, None]
        for r in table:
            req_lines.append("route %s %s %d %d %d" % (enc(r["rule"]), ",".join(r["methods"]), r["prot"], r["auto"], r["static"]))
            real_lines.append("ok"); ctx.append(None)
        for f in static_files:
            req_lines.append("static " + enc(f)); real_lines.append("ok"); ctx.append(None)
        req_lines.append("cfg sticky %d" % (not verdict.get("check_is_stateless", True))); real_lines.append("ok"); ctx.append(None)
        req_lines += h_req; real_lines += h_real; ctx += h_ctx
        for m_, v_ in mrows:              # methods for which the wrapper was observed to skip the check
            if v_:
                req_lines.append("mobs %s 1" % m_); real_lines.append("ok"); ctx.append(None)
        for p_, e_, v_, _ in triples:     # the model's comparison = string equality patched by what was observed
            req_lines.append("obs %s %s %d" % (enc(p_), enc(e_), v_)); real_lines.append("ok"); ctx.append(None)
        for p_, e_, v_, st_ in triples:   # reference: the decorator's verdict must be that of string equality
            if bool(v_) != (p_ == e_) and p_ != e_ and "wrong-credential-accepted" not in findings:
                findings["wrong-credential-accepted"] = (
                    f"server configured with bearer token {e_!r}: GET /scenarios with Authorization {'Bearer ' + p_!r} -> HTTP {st_}, view reached",
                    {"probe": "compare", "expected": e_, "presented": p_, "status": st_, "rule": "/scenarios", "method": "GET"})
        n_req = 0
        with contextlib.redirect_stdout(sink):
            for state in STATES:
                w = World(state)
                try:
                    for (i, m, idn, name, hdr, with_body, slash) in case_plan(chk, table, w):
                        r = table[i]
                        status, reached, changes = w.request(r["rule"], m, idn, hdr, UNION_BODY if with_body else None, slash)
                        n_req += 1
                        pres = presents_ref(hdr, TOKEN)
                        if r["static"]:
                            # Flask's own static view is always entered; what the model calls "view" is a file served
                            reached = reached and status < 400
                        real = "view" if reached else str(status)
                        req_lines.append("req %d %s %s %s" % (i, m, "absent" if hdr is None else enc(hdr), enc("x.txt")))
                        real_lines.append(real)
                        case = {"state": state, "rule": r["rule"], "method": m, "instance": idn, "shape": name,
                                "header": hdr, "body": with_body, "trailing_slash": slash}
                        ctx.append(case)
                        chk.case((state, r["rule"], m, idn, name, with_body, slash), nontrivial=not pres and r["rule"] not in PUBLIC,
                                 sample=dict(case, status=status, reached=reached) if (n_req % 997 == 1) else None)
                        for k, v in (("by_state", state), ("by_shape", name), ("by_method", m), ("status", str(status)), ("by_instance_id", idn),
                                     ("by_body", "union-json" if with_body else "none")):
                            dist[k][v] = dist[k].get(v, 0) + 1
                        dist["trailing_slash"] += bool(slash)
                        dist["reached"] += reached
                        dist["refused"] += (not reached and status >= 400)
                        key = classify(r["rule"], m, pres, status, reached, changes)
                        if key and key not in findings:
                            findings[key] = (f"{m} {r['rule']} (instance {idn}, state {state}) with Authorization "
                                             f"{'absent' if hdr is None else repr(hdr)} -> HTTP {status}, view reached: {reached}, state changes: {changes or 'none'}",
                                             dict(case, status=status, reached=reached, changes=changes, token=TOKEN))
                        if changes:
                            w.close(); w = World(state); dist["rebuilds"] += 1
                    # header fuzz against one protected rule (cheap GET), all header strings the client can send
                    if state == "live-session":
                        tgt = next((j for j, r in enumerate(table) if r["rule"] == "/scenarios"), None)
                        if tgt is None:
                            tgt = next((j for j, r in enumerate(table) if r["prot"] and "GET" in r["methods"] and "<" not in r["rule"]), None)
                        if tgt is not None:
                            rng = chk.rng.fork("c15-fuzz")
                            for hdr in fuzz_headers(rng, 300 if chk.quick else 6000):
                                try:
                                    hdr.encode("latin-1")
                                except UnicodeEncodeError:
                                    continue
                                r = table[tgt]
                                status, reached, changes = w.request(r["rule"], "GET", "UNKNOWN", hdr, None)
                                n_req += 1
                                pres = presents_ref(hdr, TOKEN)
                                req_lines.append("req %d GET %s e" % (tgt, enc(hdr)))
                                real_lines.append("view" if reached else str(status))
                                case = {"state": state, "rule": r["rule"], "method": "GET", "instance": "UNKNOWN", "shape": "fuzz",
                                        "header": hdr, "body": False, "trailing_slash": False}
                                ctx.append(case)
                                chk.case(("fuzz", hdr), nontrivial=not pres)
                                dist["by_shape"]["fuzz"] = dist["by_shape"].get("fuzz", 0) + 1
                                dist["reached"] += reached
                                key = classify(r["rule"], "GET", pres, status, reached, changes)
                                if key and key not in findings:
                                    findings[key] = (f"GET {r['rule']} with Authorization {hdr!r} -> HTTP {status}, view reached: {reached}, changes {changes}",
                                                     dict(case, status=status, reached=reached, changes=changes, token=TOKEN))
                                if changes:
                                    w.close(); w = World(state); dist["rebuilds"] += 1
                        w, k = header_line_stream(chk, w, state, table, (req_lines, real_lines, ctx, findings, dist))
                        n_req += k
                        w, k = body_kind_stream(chk, w, state, table, (req_lines, real_lines, ctx, findings, dist))
                        n_req += k
                finally:
                    w.close()
            n_req += no_adapter_stream(chk, table, (req_lines, real_lines, ctx, findings, dist))
            n_req += history_random(chk, table, (req_lines, real_lines, ctx, findings, dist), 20 if chk.quick else 300, 12)
            controls = reference_controls()
        chk.notes["state_reference_controls"] = controls
        blind = [c for c in controls if c["status"] < 400 and c["missing"]]
        if blind:
            findings.setdefault("reference-blind", (
                "the before/after state comparison does not see what an ACCEPTED request changes: " + json.dumps(blind[0]), {"controls": blind}))
        # pure header stream: Python's own split(" ") against the model's word2 (no server involved)
        rng = chk.rng.fork("c15-split")
        hs = [h for _, h in shapes() if h is not None] + fuzz_headers(rng, 1500 if chk.quick else 20000)
        for h in hs:
            parts = h.split(" ")
            req_lines.append("word2 " + enc(h))
            real_lines.append("none" if len(parts) < 2 else "some " + enc(parts[1]))
            ctx.append({"stream": "split", "header": h})
            if (len(parts) >= 2 and parts[1] == TOKEN) != presents_strict(h, TOKEN):
                findings.setdefault("harness-presents-ref", ("presents_ref disagrees with split on " + repr(h), {"header": h}))
        model = drive("C15", req_lines)
        chk.cov["traces_validated_against_impl"] = n_req
        chk.cov["input_distribution"] = dist
        chk.cov["rule"] = ("every rule of app.url_map (%d) x every allowed method incl. HEAD/OPTIONS (+ one disallowed) x %d credential shapes x 3 server "
                           "states (no instance + stored file / live session / locked session) x instance ids {unknown, externalised-only, session, idle} x "
                           "{union JSON body, no body}%s; plus seeded fuzzed headers against one protected rule, a pure split(\" \") stream, 30 header-LINE cases (duplicates, field-name case, blanks, obs-fold) x 3-4 rules x {test client, WSGI server over a socket}, and the comparison probe (105 triples); a case is "
                           "(state, rule, method, id, shape, body); non-trivial = does not present the token and rule not public"
                           % (len(table), len(shapes(quick=chk.quick)), "" if chk.quick else " x trailing-slash variant"))
        chk.cov["exhaustive"] = True
        def verdict_class(x):
            # the statement fixes "refused" (a non-success status), not WHICH one: 401 / 404 / 405 / 500 are one class —
            # a check that sits in front of the dispatch answers 401 where Flask would have answered 405
            return "refused" if x.isdigit() and int(x) >= 400 else x
        nonlocal_presenting = [0]
        def same_verdict(i, a, b):
            if verdict_class(a) == verdict_class(b):
                return True
            c = ctx[i] if i < len(ctx) else None
            # an OPTIONS request that PRESENTS the token: answered by the view or by Flask's automatic OPTIONS (which a check in
            # front of the dispatch lets through only with the token) — served either way, and not the statement's subject
            if not c or "header" not in c or not presents_ref(c.get("header"), TOKEN):
                return False
            # the request presents the token (as a word of the header): whether it is served — by the view, by Flask's automatic
            # OPTIONS behind a check in front of the dispatch, or refused by a stricter parser — is not the statement's subject
            nonlocal_presenting[0] += 1
            return True
        chk.notes["presenting_requests_with_other_verdict"] = nonlocal_presenting
        chk.notes["refusal_status_differences"] = sum(1 for a, b in zip(model, real_lines) if a != b and verdict_class(a) == verdict_class(b))
        diff = next((i for i, (a, b) in enumerate(zip(model, real_lines)) if not same_verdict(i, a, b)), None)
        if diff is None and len(model) != len(real_lines):
            diff = min(len(model), len(real_lines))
        for key, (text, rep) in findings.items():
            chk.add_finding(key, text, rep)
        if calls is None:
            chk.add_finding("obligation", "the call-order table could not be established: no function of bptkServer.py answers a refused request with 401 "
                            "(the token check was not located); refusal and state equality are still checked request by request",
                            {"theorem": "Bptk.C15.Gen.call_order_ok", "detail": "token check not located"}, found_input=False)
        if not ok:
            chk.add_finding("obligation", f"proof obligations of C15 no longer check: {why}",
                            {"theorem": "Bptk.C15.Gen.*", "detail": why, "route_table": chk.notes["route_table"]}, found_input=False)
        elif not verdict.get("full") and (not verdict.get("all_protected") or verdict.get("unprotected") is not None) \
                and not [k for k in findings if k in ("served-without-token", "state-changed-without-token")]:
            u = verdict.get("unprotected")
            chk.add_finding("obligation", "the route table generated from the live app has a non-public rule whose view is reached without the token check"
                            + (f" ({table[u[0]]['rule']} {u[1]})" if u else "") + "; Lean proved ¬C15_full for it (a view answering 200 is served), "
                            "but with this check's bptk factory every request tried got a status >= 400 and changed nothing",
                            {"theorem": "Bptk.C15.Gen.violated_unprotected / not_all_protected", "verdict": verdict,
                             "unprotected_rules": [r["rule"] for r in table if not route_ok(r, static_files)]}, found_input=False)
        elif not verdict.get("full") and not findings:
            chk.add_finding("obligation", f"the generated route table does not satisfy allProtected/noAutoOptions ({verdict}) "
                            "but no request violating the statement was found on the real server",
                            {"theorem": "Bptk.C15.Gen.violated_*", "verdict": verdict}, found_input=False)
        if diff is not None and not [k for k in findings if k != "auto-options-200"]:
            chk.add_finding("correspondence", f"model and implementation disagree at protocol line {diff}: {req_lines[diff]!r}",
                            {"correspondence": "Drive/C15 vs BptkServer (Flask test client)", "line": diff, "case": ctx[diff] if diff < len(ctx) else None,
                             "model": model[diff] if diff < len(model) else None,
                             "impl": real_lines[diff] if diff < len(real_lines) else None}, found_input=False)
    finally:
        destroy_all()


def replay(path):
    quiet_bptk_logging()
    r = json.load(open(path))["replay"]
    if r.get("probe") == "compare":
        from BPTK_Py.server import BptkServer
        sink = io.StringIO()
        try:
            with contextlib.redirect_stdout(sink):
                app = BptkServer("c15cmp", factory, None, r["expected"])
                app.logger.disabled = True
                if r["presented"] is not None:      # as in the probe: another server, configured with the presented word, is alive in the process
                    other = BptkServer("c15cmp2", factory, None, r["presented"])
                    other.logger.disabled = True
                resp = app.test_client().get("/scenarios", headers={} if r["presented"] is None else {"Authorization": "Bearer " + r["presented"]})
                st = resp.status_code
        finally:
            destroy_all()
        bad = st < 400 and r["presented"] != r["expected"]
        print(f"token {r['expected']!r} configured, GET /scenarios with Authorization {('Bearer ' + r['presented']) if r['presented'] is not None else None!r}: HTTP {st} -> "
              + ("served without the token" if bad else "refused correctly"))
        return 1 if bad else 0
    if r.get("probe") == "in-flight":
        sink = io.StringIO()
        try:
            with contextlib.redirect_stdout(sink):
                seen = in_flight_probe()
        finally:
            destroy_all()
        bad = seen.get("status") is not None and seen["status"] < 400
        print(f"GET /scenarios without header while an authorised GET /scenarios is inside its handler: HTTP {seen.get('status')} -> "
              + ("served without the token" if bad else "refused correctly"))
        return 1 if bad else 0
    if r.get("probe") == "calls":
        sink = io.StringIO()
        try:
            with contextlib.redirect_stdout(sink):
                w = World(r["state"], token=r.get("token", TOKEN))
                tr = CallTrace(w.app)
                try:
                    tr.discover(w)
                    tr.start()
                    status, reached, changes = w.request(r["rule"], r["method"], r["instance"], r["header"], UNION_BODY if r.get("body") else None)
                    trace = tr.stop()
                finally:
                    w.close(); tr.close()
        finally:
            destroy_all()
        touched = [e for e in trace if e != "check"]
        print(f"{r['method']} {r['rule']} instance={r['instance']} Authorization={r['header']!r}: HTTP {status}, call trace {trace}, state changes {changes or 'none'} -> "
              + ("state-touching call without the token" if touched else "nothing entered but the token check"))
        return 1 if touched else 0
    if "rule" not in r:
        print("replay file names a theorem / correspondence, no concrete request:", json.dumps(r)[:600])
        return 1
    sink = io.StringIO()
    try:
        with contextlib.redirect_stdout(sink):
            w = collision_world(r["id_variant"]) if r.get("id_variant") else World(r["state"], token=r.get("token", TOKEN))
            try:
                if r.get("history"):
                    run_history(w, [o for o in r["history"] if o in AUTH_OPS and AUTH_OPS[o][2] in w.ids])
                body = UNION_BODY if r.get("body") else None
                if r.get("transport") == "ws":
                    wl = [x.encode("latin-1") for x in r["wire"]] if r.get("wire") else [(k + ": " + v).encode("latin-1") for k, v in r["header_lines"]]
                    status, reached, changes = w.raw_request(r["rule"], r["method"], r["instance"], wl, body)
                elif r.get("header_lines") is not None:
                    status, reached, changes = w.request(r["rule"], r["method"], r["instance"], None, body, lines=[tuple(x) for x in r["header_lines"]])
                else:
                    status, reached, changes = w.request(r["rule"], r["method"], r["instance"], r["header"], body, r.get("trailing_slash", False))
            finally:
                w.close()
    finally:
        destroy_all()
    pres = presents_ref(r["header"], r.get("token", TOKEN))
    key = classify(r["rule"], r["method"], pres, status, reached, changes)
    if r.get("history"):
        print("after the authorised requests", r["history"], end=": ")
    print(f"{r['method']} {r['rule']} instance={r['instance']} state={r['state']} Authorization={r['header']!r}: "
          f"HTTP {status}, view reached {reached}, state changes {changes or 'none'} -> {key or 'refused correctly'}")
    return 1 if key else 0
