"""C15 — with a bearer token set, protected endpoints serve and change nothing without it.

Probe (route table of the live Flask app, protection of every view detected behaviourally) -> Gen/C15.lean
obligations; correspondence (every rule x method x credential shape x server state x instance id x body
through the Flask test client, against Drive/C15.lean); independent reference check of the statement on
the real server (status >= 400 and deep before/after equality of the server-side state)."""
import contextlib, hashlib, io, json, logging, os, re, shutil, sys, types
from common import *

TOKEN = "s3cr3tTok"
SENTINEL = "probe-sentinel-7f3a"
PUBLIC = ["/", "/healthy", "/metrics", "/full-metrics"]
MON_TOOL = 4   # sys.monitoring tool id

UNION_BODY = {
    "scenario_managers": ["firstManager"], "scenarios": ["1"], "equations": ["stock", "flow", "constant"],
    "settings": {"firstManager": {"1": {"constants": {"constant": 7.0}}}},
    "numberSteps": 2, "timeout": {"weeks": 0, "days": 0, "hours": 0, "minutes": 5, "seconds": 0,
                                  "milliseconds": 0, "microseconds": 0},
    "instances": 2, "scenarioManager": "firstManager", "scenario_manager": "firstManager", "scenario": "1",
}


# ------------------------------------------------------------------ the server under test
_made = []


def factory():
    import BPTK_Py
    from BPTK_Py import Model
    model = Model(starttime=1.0, stoptime=8.0, dt=1.0, name="c15model")
    stock, flow, constant = model.stock("stock"), model.flow("flow"), model.constant("constant")
    stock.initial_value = 0.0
    stock.equation = flow
    flow.equation = constant
    constant.equation = 1.0
    b = BPTK_Py.bptk()
    b.register_scenario_manager({"firstManager": {"model": model}})
    b.register_scenarios(scenario_manager="firstManager", scenarios={"1": {"constants": {"constant": 1.0}}})
    _made.append(b)
    return b


def destroy_all():
    while _made:
        b = _made.pop()
        try:
            b.destroy()
        except Exception:
            pass


def build_app(token, statedir):
    from BPTK_Py.server import BptkServer
    from BPTK_Py.externalstateadapter import FileAdapter
    app = BptkServer("c15app", factory, FileAdapter(False, statedir), token)
    app.logger.disabled = True
    logging.getLogger("werkzeug").disabled = True
    return app


def auth_hdr(tok=TOKEN):
    return {"Authorization": "Bearer " + tok}


# ------------------------------------------------------------------ "was the view function reached?"
def inner_codes(view):
    """Code objects of the functions behind a registered view, other than the outermost wrapper: followed
    through bound methods, functools.wraps `__wrapped__` and closure cells holding functions."""
    seen, out, todo = set(), [], [view]
    outer = getattr(getattr(view, "__func__", view), "__code__", None)
    while todo:
        f = todo.pop()
        f = getattr(f, "__func__", f)
        if id(f) in seen or not callable(f):
            continue
        seen.add(id(f))
        code = getattr(f, "__code__", None)
        if code is not None:
            out.append(code)
        w = getattr(f, "__wrapped__", None)
        if w is not None:
            todo.append(w)
        for cell in (getattr(f, "__closure__", None) or ()):
            try:
                v = cell.cell_contents
            except ValueError:
                continue
            if isinstance(v, (types.FunctionType, types.MethodType)):
                todo.append(v)
    inner = [c for c in out if c is not outer]
    return inner if inner else out


class Reach:
    """sys.monitoring PY_START on the inner code objects of every view: `hit` is set when one is entered."""
    def __init__(self, app):
        self.codes = {}
        for ep, view in app.view_functions.items():
            for c in inner_codes(view):
                self.codes[c] = ep
        self.hit = False
        mon = sys.monitoring
        try:
            mon.use_tool_id(MON_TOOL, "verif-c15")
        except ValueError:
            mon.free_tool_id(MON_TOOL)
            mon.use_tool_id(MON_TOOL, "verif-c15")
        mon.register_callback(MON_TOOL, mon.events.PY_START, self._cb)
        for c in self.codes:
            mon.set_local_events(MON_TOOL, c, mon.events.PY_START)

    def _cb(self, code, offset):
        if code in self.codes:
            self.hit = True

    def close(self):
        mon = sys.monitoring
        for c in self.codes:
            try:
                mon.set_local_events(MON_TOOL, c, 0)
            except Exception:
                pass
        mon.register_callback(MON_TOOL, mon.events.PY_START, None)
        mon.free_tool_id(MON_TOOL)


# ------------------------------------------------------------------ server-side state, deeply
def canon(x, depth=0):
    if isinstance(x, dict):
        return tuple(sorted(((repr(k), canon(v, depth + 1)) for k, v in x.items())))
    if isinstance(x, (list, tuple)):
        return tuple(canon(v, depth + 1) for v in x)
    if isinstance(x, (int, float, str, bool, type(None))):
        return repr(x)
    return "<%s>" % type(x).__name__


def settings_of(b):
    out = []
    if b is None:
        return ()
    for mname, man in sorted(b.scenario_manager_factory.scenario_managers.items()):
        for sname, sc in sorted(man.scenarios.items()):
            model = getattr(sc, "model", None)
            eqs = getattr(model, "equations", None)
            out.append((mname, sname, canon(getattr(sc, "constants", None)), canon(getattr(sc, "points", None)),
                        repr(getattr(sc, "starttime", None)), repr(getattr(sc, "stoptime", None)), repr(getattr(sc, "dt", None)),
                        canon(getattr(model, "points", None)),
                        repr(getattr(model, "starttime", None)), repr(getattr(model, "stoptime", None)), repr(getattr(model, "dt", None)),
                        tuple(sorted((k, id(v)) for k, v in eqs.items())) if isinstance(eqs, dict) else None))
    return tuple(out)


def snapshot(app, statedir):
    inst = {}
    for k, v in app._instance_manager._instances.items():
        b = v.get("instance")
        inst[k] = (id(b), repr(v.get("time")), canon(v.get("timeout")),
                   canon(getattr(b, "session_state", None)), settings_of(b))
    files = {}
    for root, _, fns in os.walk(statedir):
        for fn in fns:
            p = os.path.join(root, fn)
            st = os.stat(p)
            with open(p, "rb") as fh:
                files[os.path.relpath(p, statedir)] = (st.st_mtime_ns, st.st_size, hashlib.sha1(fh.read()).hexdigest())
    return {"instances": inst, "server_bptk": settings_of(app._bptk), "state_dir": files}


def describe_change(a, b):
    out = []
    ia, ib = a["instances"], b["instances"]
    for k in ia.keys() - ib.keys():
        out.append("instance removed")
    for k in ib.keys() - ia.keys():
        out.append("instance created")
    for k in ia.keys() & ib.keys():
        x, y = ia[k], ib[k]
        if x[0] != y[0]: out.append("instance object replaced")
        if x[1] != y[1]: out.append("instance touched (last-access time changed)")
        if x[2] != y[2]: out.append("instance timeout changed")
        if x[3] != y[3]: out.append("session state changed (begun / advanced / ended / locked)")
        if x[4] != y[4]: out.append("scenario settings of an instance changed")
    if a["server_bptk"] != b["server_bptk"]:
        out.append("scenario settings of the server-level bptk changed")
    fa, fb = a["state_dir"], b["state_dir"]
    for k in fa.keys() - fb.keys(): out.append("external state file removed")
    for k in fb.keys() - fa.keys(): out.append("external state file created")
    for k in fa.keys() & fb.keys():
        if fa[k] != fb[k]: out.append("external state file rewritten")
    return sorted(set(out))


# ------------------------------------------------------------------ server states
STATES = ["no-instance", "live-session", "locked-session"]


class World:
    """One server in one of the three states; `ids` maps symbolic instance ids to real ones."""
    def __init__(self, state, token=TOKEN):
        self.state = state
        self.token = token
        self.dir = scratch_dir("bptkc15")
        self.app = build_app(token, self.dir)
        self.client = self.app.test_client()
        self.ids = {"UNKNOWN": "0123456789abcdef0123456789abcdef"}
        H = auth_hdr(token) if token is not None else {}
        c = self.client
        def start():
            r = c.post("/start-instance", json={"timeout": UNION_BODY["timeout"]}, headers=H)
            assert r.status_code == 200, r.data
            return json.loads(r.data)["instance_uuid"]
        def begin(i):
            r = c.post(f"/{i}/begin-session", json={k: UNION_BODY[k] for k in ("scenario_managers", "scenarios", "equations")}, headers=H)
            assert r.status_code == 200, r.data
        def step(i):
            r = c.post(f"/{i}/run-step", json={"settings": {}}, headers=H)
            assert r.status_code == 200, r.data
        # an externalised instance that is no longer in memory (its state file stays in the state directory)
        s = start(); begin(s); step(s)
        inst = self.app._instance_manager._instances[s]["instance"]
        self.app._instance_manager._delete_instance(s)
        inst.destroy()
        assert os.path.exists(os.path.join(self.dir, s + ".json"))
        self.ids["STORED"] = s
        if state in ("live-session", "locked-session"):
            a = start(); begin(a); step(a); step(a)
            self.ids["SESSION"] = a
            self.ids["IDLE"] = start()
            if state == "locked-session":
                self.app._instance_manager._instances[a]["instance"].lock()
        self.reach = Reach(self.app)
        self.base = snapshot(self.app, self.dir)

    def id_names(self):
        return ["UNKNOWN", "STORED"] + (["SESSION", "IDLE"] if "SESSION" in self.ids else [])

    def request(self, rule, method, id_name, hdr, body, slash=False):
        """hdr: None (absent) or the header text.  Returns (status, reached, change-list)."""
        path = rule
        if "<path:filename>" in path:
            path = path.replace("<path:filename>", "x.txt")
        path = re.sub(r"<[^>]*>", self.ids[id_name], path)
        if slash and not path.endswith("/"):
            path += "/"
        headers = {} if hdr is None else {"Authorization": hdr}
        kw = {"json": body} if body is not None else {}
        self.reach.hit = False
        try:
            resp = self.client.open(path, method=method, headers=headers, **kw)
            status = resp.status_code
            try:
                resp.get_data()      # run streaming bodies to their end (side effects happen there)
            finally:
                resp.close()
        except Exception:
            status = 599             # the view (or its streamed body) raised through the test client
        after = snapshot(self.app, self.dir)
        return status, self.reach.hit, describe_change(self.base, after)

    def close(self):
        self.reach.close()
        for v in list(self.app._instance_manager._instances.values()):
            try:
                v["instance"].destroy()
            except Exception:
                pass
        shutil.rmtree(self.dir, ignore_errors=True)


# ------------------------------------------------------------------ credential shapes
def shapes(tok=TOKEN):
    """(name, header text or None, presents?)  — `presents` by the reading of DESIGN §7 C15: the second
    space-separated word equals the token."""
    sw = tok.swapcase()
    import base64
    return [
        ("absent", None), ("empty", ""), ("scheme-only", "Bearer"), ("token-alone", tok),
        ("empty-credentials", "Bearer "), ("wrong", "Bearer not-the-token"), ("prefix", "Bearer " + tok[:-1]),
        ("suffix-extended", "Bearer " + tok + "x"), ("prefix-extended", "Bearer x" + tok), ("case-variant", "Bearer " + sw),
        ("double-space", "Bearer  " + tok), ("tab-separator", "Bearer\t" + tok), ("swapped", tok + " Bearer"),
        ("colon-layout", "Bearer:" + tok), ("basic-b64", "Basic " + base64.b64encode(("user:" + tok).encode()).decode()),
        ("param-layout", "Token token=" + tok), ("quoted", 'Bearer "' + tok + '"'), ("space-only", " "),
        # the following present the token (credentials word == token): accepted by the reading
        ("bearer", "Bearer " + tok), ("basic-scheme", "Basic " + tok), ("lowercase-scheme", "bearer " + tok),
        ("trailing-word", "Bearer " + tok + " x"), ("empty-scheme", " " + tok), ("trailing-space", "Bearer " + tok + " "),
    ]


def presents_ref(hdr, tok):
    """Independent definition (regex, not split): header = <no spaces> SP token [SP anything]."""
    if hdr is None or " " in tok:
        return False
    return re.fullmatch(r"[^ ]* " + re.escape(tok) + r"( .*)?", hdr, flags=re.S) is not None


def enc(s):
    return "e" if s == "" else ".".join(str(ord(c)) for c in s)


# ------------------------------------------------------------------ probe: the route table
def probe_table():
    """Route table of the live app; protection detected behaviourally on a server configured with a
    sentinel token: a request without Authorization header must not reach the view's inner function."""
    w = World("live-session", token=SENTINEL)
    try:
        app = w.app
        rules = sorted(app.url_map.iter_rules(), key=lambda r: (r.rule, sorted(r.methods)))
        table = []
        for r in rules:
            methods = sorted(r.methods)
            is_static = (r.endpoint == "static")
            reached_any, auto = False, False
            for m in methods:
                for idn in (["SESSION", "UNKNOWN"] if "<" in r.rule and not is_static else ["UNKNOWN"]):
                    st, reached, ch = w.request(r.rule, m, idn, None, UNION_BODY)
                    if m == "OPTIONS":
                        if not reached and st < 400:
                            auto = True
                        if reached:
                            reached_any = True
                    elif reached:
                        reached_any = True
                    if ch:
                        w.close(); w = World("live-session", token=SENTINEL)
            table.append({"rule": r.rule, "methods": methods, "prot": (not reached_any) and not is_static,
                          "auto": auto, "static": is_static, "endpoint": r.endpoint})
        sf = []
        if app.static_folder and os.path.isdir(app.static_folder):
            for root, _, fns in os.walk(app.static_folder):
                for fn in fns:
                    sf.append(os.path.relpath(os.path.join(root, fn), app.static_folder))
        return table, sorted(sf)
    finally:
        w.close()


def lean_str(s):
    return '"' + s.replace("\\", "\\\\").replace('"', '\\"') + '"'


def route_ok(r, static_files):
    return r["rule"] in PUBLIC or ((not static_files) if r["static"] else r["prot"])


def gen_lean(table, static_files):
    rows = ",\n    ".join(
        "{ rule := %s, methods := [%s], prot := %s, autoOptions := %s, static := %s }" % (
            lean_str(r["rule"]), ", ".join(lean_str(m) for m in r["methods"]),
            str(r["prot"]).lower(), str(r["auto"]).lower(), str(r["static"]).lower()) for r in table)
    all_ok = all(route_ok(r, static_files) for r in table)
    auto_at = next((i for i, r in enumerate(table) if r["rule"] not in PUBLIC and r["auto"] and "OPTIONS" in r["methods"]), None)
    unprot = None
    for i, r in enumerate(table):
        if r["rule"] not in PUBLIC and not r["static"] and not r["prot"]:
            ms = [m for m in r["methods"] if not (m == "OPTIONS" and r["auto"])]
            if ms:
                unprot = (i, ms[0]); break
    body, verdict = "", {}
    if all_ok and auto_at is None:
        body = "theorem holds : C15_full table := C15_full_of_good table (by decide) (by decide)\n#print axioms holds\n"
        verdict = {"full": True}
    else:
        if all_ok:
            body += "theorem holds_but_options : C15_but_options table := C15_partial table (by decide)\n#print axioms holds_but_options\n"
        else:
            body += "theorem not_all_protected : allProtected table = false := by decide\n"
        if auto_at is not None:
            body += (f"theorem violated_auto_options : ¬ C15_full table := C15_witness_auto_options table {auto_at} (by decide)\n"
                     "#print axioms violated_auto_options\n")
        if unprot is not None:
            body += (f"theorem violated_unprotected : ¬ C15_full table := C15_witness_unprotected table {unprot[0]} {lean_str(unprot[1])} (by decide)\n"
                     "#print axioms violated_unprotected\n")
        verdict = {"full": False, "all_protected": all_ok, "auto_options_at": auto_at, "unprotected": unprot}
    text = ("import Bptk.Props.C15\n/-! GENERATED by harness/props/c15.py from the live Flask app of /repo on every run — do not edit. -/\n"
            "namespace Bptk.C15.Gen\n"
            "def table : Table :=\n  { routes := [\n    " + rows + " ],\n    staticFiles := [" + ", ".join(lean_str(f) for f in static_files) + "] }\n"
            + body + "end Bptk.C15.Gen\n")
    return text, verdict


# ------------------------------------------------------------------ correspondence + reference check
def case_plan(chk, table, world):
    """All (rule index, method, id name, shape, body?, slash?) for one server state."""
    sh = shapes()
    plan = []
    for i, r in enumerate(table):
        idns = world.id_names() if ("<" in r["rule"] and not r["static"]) else ["UNKNOWN"]
        methods = list(r["methods"]) + [m for m in ("DELETE",) if m not in r["methods"]]
        for m in methods:
            allowed = m in r["methods"]
            for idn in idns:
                for k, (name, hdr) in enumerate(sh):
                    if not allowed and k % 6 != 0:
                        continue
                    bodies = [True]
                    if not chk.quick or name in ("absent", "wrong"):
                        bodies = [True, False]
                    for b in bodies:
                        plan.append((i, m, idn, name, hdr, b, False))
                if not chk.quick and allowed:
                    plan.append((i, m, idn, "absent", None, True, True))
                    plan.append((i, m, idn, "wrong", "Bearer not-the-token", True, True))
    return plan


def fuzz_headers(rng, n, tok=TOKEN):
    alpha = list(" \t:=\"Bearerbasic") + list(tok) + ["x", "X", "é"]
    out = []
    for _ in range(n):
        k = rng.below(6)
        if k == 0:
            s = "".join(rng.choice(alpha) for _ in range(rng.range(0, 14)))
        elif k == 1:   # mutate the token inside a well-formed header
            t = list(tok)
            for _ in range(rng.range(1, 2)):
                j = rng.below(len(t) + 1)
                op = rng.below(3)
                if op == 0 and t: t.pop(min(j, len(t) - 1))
                elif op == 1: t.insert(j, rng.choice(alpha))
                elif t: t[min(j, len(t) - 1)] = rng.choice(alpha)
            s = "Bearer " + "".join(t)
        elif k == 2:   # words around the token
            ws = [rng.choice(["Bearer", "bearer", "Basic", "", tok, tok[:-1], "x", tok + tok]) for _ in range(rng.range(1, 4))]
            s = " ".join(ws)
        elif k == 3:
            s = rng.choice(["Bearer", "Bearer ", "Bearer  ", " ", "  "]) + rng.choice([tok, tok[1:], tok.upper(), tok.lower(), ""]) + rng.choice(["", " ", " x", "\t"])
        elif k == 4:
            s = rng.choice(["", " "]) + tok + rng.choice(["", " ", " Bearer"])
        else:
            s = "".join(rng.choice(alpha) for _ in range(rng.range(0, 6))) + " " + tok + rng.choice(["", " ", "x", " y z"])
        if "\n" in s or "\r" in s:
            continue
        out.append(s)
    return out


def classify(rule, method, presents, status, reached, changes):
    """Reference check of the statement on one real request. Returns finding key or None."""
    if rule in PUBLIC or presents:
        return None
    if status >= 400 and not changes:
        return None
    if method == "OPTIONS" and not reached and not changes:
        return "auto-options-200"
    if changes:
        return "state-changed-without-token"
    return "served-without-token"


def run(chk):
    quiet_bptk_logging()
    sink = io.StringIO()
    findings = {}       # key -> (text, replay)
    try:
        with contextlib.redirect_stdout(sink):
            table, static_files = probe_table()
        gen_text, verdict = gen_lean(table, static_files)
        chk.notes["route_table"] = [{k: r[k] for k in ("rule", "methods", "prot", "auto", "static")} for r in table]
        chk.notes["static_files"] = static_files
        chk.notes["obligation_selected"] = verdict
        ok, why = chk.prove(gen_text)
        chk.cov["trusted_base"] = [
            "Lean 4.33 kernel; axioms propext, Classical.choice, Quot.sound (audited per run via #print axioms)",
            "Flask/werkzeug: URL matching, method check (405), automatic OPTIONS, header parsing — modelled by `handle` from the probed table, validated only by the correspondence run",
            "the probe of this module: route table read from app.url_map; a view counts as protected iff a request without Authorization header (sentinel token configured) never enters the view's inner function (sys.monitoring on the code objects behind functools.wraps / closure cells)",
            "views are an arbitrary parameter V of the model: nothing about what a view does once reached is assumed",
        ]
        chk.assumptions = [
            "reading (DESIGN §7 C15): a request presents the token iff the second space-separated word of its Authorization header equals the token; `Basic tok`, `bearer tok`, `Bearer tok x` are accepted requests",
            "server-side state compared: _instances (object identity, last-access time, timeout), every session_state, scenario settings (constants, points, run specs, model points, identity of equation lambdas) of every instance and of the server-level bptk, listing + mtime + sha1 of the external state directory",
        ]
        req_lines, real_lines, ctx = [], [], []
        req_lines += ["clear", "tok " + enc(TOKEN)]
        real_lines += ["ok", "ok"]
        ctx += [None, None]
        for r in table:
            req_lines.append("route %s %s %d %d %d" % (enc(r["rule"]), ",".join(r["methods"]), r["prot"], r["auto"], r["static"]))
            real_lines.append("ok"); ctx.append(None)
        for f in static_files:
            req_lines.append("static " + enc(f)); real_lines.append("ok"); ctx.append(None)
        dist = {"by_state": {}, "by_shape": {}, "by_method": {}, "status": {}, "reached": 0, "refused": 0, "rebuilds": 0}
        n_req = 0
        with contextlib.redirect_stdout(sink):
            for state in STATES:
                w = World(state)
                try:
                    for (i, m, idn, name, hdr, with_body, slash) in case_plan(chk, table, w):
                        r = table[i]
                        status, reached, changes = w.request(r["rule"], m, idn, hdr, UNION_BODY if with_body else None, slash)
                        n_req += 1
                        pres = presents_ref(hdr, TOKEN)
                        if r["static"]:
                            # Flask's own static view is always entered; what the model calls "view" is a file served
                            reached = reached and status < 400
                        real = "view" if reached else str(status)
                        req_lines.append("req %d %s %s %s" % (i, m, "absent" if hdr is None else enc(hdr), enc("x.txt")))
                        real_lines.append(real)
                        case = {"state": state, "rule": r["rule"], "method": m, "instance": idn, "shape": name,
                                "header": hdr, "body": with_body, "trailing_slash": slash}
                        ctx.append(case)
                        chk.case((state, r["rule"], m, idn, name, with_body, slash), nontrivial=not pres and r["rule"] not in PUBLIC,
                                 sample=dict(case, status=status, reached=reached) if (n_req % 997 == 1) else None)
                        for k, v in (("by_state", state), ("by_shape", name), ("by_method", m), ("status", str(status))):
                            dist[k][v] = dist[k].get(v, 0) + 1
                        dist["reached"] += reached
                        dist["refused"] += (not reached and status >= 400)
                        key = classify(r["rule"], m, pres, status, reached, changes)
                        if key and key not in findings:
                            findings[key] = (f"{m} {r['rule']} (instance {idn}, state {state}) with Authorization "
                                             f"{'absent' if hdr is None else repr(hdr)} -> HTTP {status}, view reached: {reached}, state changes: {changes or 'none'}",
                                             dict(case, status=status, reached=reached, changes=changes, token=TOKEN))
                        if changes:
                            w.close(); w = World(state); dist["rebuilds"] += 1
                    # header fuzz against one protected rule (cheap GET), all header strings the client can send
                    if state == "live-session":
                        tgt = next((j for j, r in enumerate(table) if r["rule"] == "/scenarios"), None)
                        if tgt is None:
                            tgt = next((j for j, r in enumerate(table) if r["prot"] and "GET" in r["methods"] and "<" not in r["rule"]), None)
                        if tgt is not None:
                            rng = chk.rng.fork("c15-fuzz")
                            for hdr in fuzz_headers(rng, 300 if chk.quick else 6000):
                                try:
                                    hdr.encode("latin-1")
                                except UnicodeEncodeError:
                                    continue
                                r = table[tgt]
                                status, reached, changes = w.request(r["rule"], "GET", "UNKNOWN", hdr, None)
                                n_req += 1
                                pres = presents_ref(hdr, TOKEN)
                                req_lines.append("req %d GET %s e" % (tgt, enc(hdr)))
                                real_lines.append("view" if reached else str(status))
                                case = {"state": state, "rule": r["rule"], "method": "GET", "instance": "UNKNOWN", "shape": "fuzz",
                                        "header": hdr, "body": False, "trailing_slash": False}
                                ctx.append(case)
                                chk.case(("fuzz", hdr), nontrivial=not pres)
                                dist["by_shape"]["fuzz"] = dist["by_shape"].get("fuzz", 0) + 1
                                dist["reached"] += reached
                                key = classify(r["rule"], "GET", pres, status, reached, changes)
                                if key and key not in findings:
                                    findings[key] = (f"GET {r['rule']} with Authorization {hdr!r} -> HTTP {status}, view reached: {reached}, changes {changes}",
                                                     dict(case, status=status, reached=reached, changes=changes, token=TOKEN))
                                if changes:
                                    w.close(); w = World(state); dist["rebuilds"] += 1
                finally:
                    w.close()
        # pure header stream: Python's own split(" ") against the model's word2 (no server involved)
        rng = chk.rng.fork("c15-split")
        hs = [h for _, h in shapes() if h is not None] + fuzz_headers(rng, 1500 if chk.quick else 20000)
        for h in hs:
            parts = h.split(" ")
            req_lines.append("word2 " + enc(h))
            real_lines.append("none" if len(parts) < 2 else "some " + enc(parts[1]))
            ctx.append({"stream": "split", "header": h})
            if (len(parts) >= 2 and parts[1] == TOKEN) != presents_ref(h, TOKEN):
                findings.setdefault("harness-presents-ref", ("presents_ref disagrees with split on " + repr(h), {"header": h}))
        model = drive("C15", req_lines)
        chk.cov["traces_validated_against_impl"] = n_req
        chk.cov["input_distribution"] = dist
        chk.cov["rule"] = ("every rule of app.url_map (%d) x every allowed method incl. HEAD/OPTIONS (+ one disallowed) x %d credential shapes x 3 server "
                           "states (no instance + stored file / live session / locked session) x instance ids {unknown, externalised-only, session, idle} x "
                           "{union JSON body, no body}%s; plus seeded fuzzed headers against one protected rule and a pure split(\" \") stream; a case is "
                           "(state, rule, method, id, shape, body); non-trivial = does not present the token and rule not public"
                           % (len(table), len(shapes()), "" if chk.quick else " x trailing-slash variant"))
        chk.cov["exhaustive"] = True
        diff = next((i for i, (a, b) in enumerate(zip(model, real_lines)) if a != b), None)
        if diff is None and len(model) != len(real_lines):
            diff = min(len(model), len(real_lines))
        for key, (text, rep) in findings.items():
            chk.add_finding(key, text, rep)
        if not ok:
            chk.add_finding("obligation", f"proof obligations of C15 no longer check: {why}",
                            {"theorem": "Bptk.C15.Gen.*", "detail": why, "route_table": chk.notes["route_table"]}, found_input=False)
        elif not verdict.get("full") and (not verdict.get("all_protected") or verdict.get("unprotected") is not None) \
                and not [k for k in findings if k in ("served-without-token", "state-changed-without-token")]:
            u = verdict.get("unprotected")
            chk.add_finding("obligation", "the route table generated from the live app has a non-public rule whose view is reached without the token check"
                            + (f" ({table[u[0]]['rule']} {u[1]})" if u else "") + "; Lean proved ¬C15_full for it (a view answering 200 is served), "
                            "but with this check's bptk factory every request tried got a status >= 400 and changed nothing",
                            {"theorem": "Bptk.C15.Gen.violated_unprotected / not_all_protected", "verdict": verdict,
                             "unprotected_rules": [r["rule"] for r in table if not route_ok(r, static_files)]}, found_input=False)
        elif not verdict.get("full") and not findings:
            chk.add_finding("obligation", f"the generated route table does not satisfy allProtected/noAutoOptions ({verdict}) "
                            "but no request violating the statement was found on the real server",
                            {"theorem": "Bptk.C15.Gen.violated_*", "verdict": verdict}, found_input=False)
        if diff is not None and not [k for k in findings if k != "auto-options-200"]:
            chk.add_finding("correspondence", f"model and implementation disagree at protocol line {diff}: {req_lines[diff]!r}",
                            {"correspondence": "Drive/C15 vs BptkServer (Flask test client)", "line": diff, "case": ctx[diff] if diff < len(ctx) else None,
                             "model": model[diff] if diff < len(model) else None,
                             "impl": real_lines[diff] if diff < len(real_lines) else None}, found_input=False)
    finally:
        destroy_all()


def replay(path):
    quiet_bptk_logging()
    r = json.load(open(path))["replay"]
    if "rule" not in r:
        print("replay file names a theorem / correspondence, no concrete request:", json.dumps(r)[:600])
        return 1
    sink = io.StringIO()
    try:
        with contextlib.redirect_stdout(sink):
            w = World(r["state"], token=r.get("token", TOKEN))
            try:
                status, reached, changes = w.request(r["rule"], r["method"], r["instance"], r["header"],
                                                     UNION_BODY if r.get("body") else None, r.get("trailing_slash", False))
            finally:
                w.close()
    finally:
        destroy_all()
    pres = presents_ref(r["header"], r.get("token", TOKEN))
    key = classify(r["rule"], r["method"], pres, status, reached, changes)
    print(f"{r['method']} {r['rule']} instance={r['instance']} state={r['state']} Authorization={r['header']!r}: "
          f"HTTP {status}, view reached {reached}, state changes {changes or 'none'} -> {key or 'refused correctly'}")
    return 1 if key else 0
