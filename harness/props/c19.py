"""C19 — externalised instance state is restored losslessly.

Probe (statecompression called directly, run-step without body) -> Gen obligations; correspondence of the
Lean model (Drive/C19) with a real BptkServer + FileAdapter on generated session histories x {plain,
compressed} x {per-instance reload, whole-server save/load}; independent reference check: the session
state and the served session results after the restore equal those before the save."""
import copy, json, os, shutil
from fractions import Fraction
from common import *

UNIT = 640000                                             # lcm of the dyadic 1/1024 and the decimal 1/10000 lattice
MANAGERS = {"smA": ["a", "b"], "smB": ["a"]}          # registered scenarios per manager
EQS = ["s", "f", "c", "g"]
STARTS = [0.0, 1.0, 2.0, 0.5, 3.25]
DTS = [1.0, 0.5, 0.25, 2.0]
STARTS3 = [0.0, 0.125, 0.375, 0.0625, 0.001]             # three and four decimals (a restore must not round the clock to two)
DTS3 = [0.125, 0.0625, 0.001]
STARTS10 = [0.0, 0.1, 0.3, 1.05]                          # non-dyadic lattice (the session clock is snapped to the decimal grid)
DTS10 = [0.1, 0.05, 0.3]
CVALS = [5.0, 7.0, 0.5, 3.0, 0.0, 0, -2.5, 1e10, 0.1 + 0.2]       # incl. falsy (0.0, int 0), negative, large, many decimals
ROWS = {}                                                 # wave 7: counts per row of the coverage table (notes/C19-report.md)


def row(name, n=1):
    ROWS[name] = ROWS.get(name, 0) + n


# ------------------------------------------------------------------ the system under test
def make_factory(start, stop, dt):
    import BPTK_Py
    from BPTK_Py import Model

    def factory():
        b = BPTK_Py.bptk()
        for sm, scs in MANAGERS.items():
            model = Model(starttime=start, stoptime=stop, dt=dt, name="M" + sm)
            s, f, c, k, g = model.stock("s"), model.flow("f"), model.constant("c"), model.constant("k"), model.converter("g")
            s.initial_value = 0.0
            s.equation = f
            f.equation = c
            c.equation = 1.0
            k.equation = 2.0
            g.equation = s * k
            b.register_scenario_manager({sm: {"model": model}})
            b.register_scenarios(scenario_manager=sm, scenarios={sc: {"constants": {"c": 1.0 + i}} for i, sc in enumerate(scs)})
        return b
    return factory


class Server:
    """A BptkServer on a scratch state directory; keeps track of every bptk object to destroy it."""
    def __init__(self, spec, compress, path):
        from BPTK_Py import FileAdapter
        from BPTK_Py.server import BptkServer
        self.made = []
        fac = make_factory(spec["start"], spec["stop"], spec["dt"])
        def tracked():
            b = fac(); self.made.append(b); return b
        self.adapter = FileAdapter(compress, path)
        self.app = BptkServer("c19", tracked, external_state_adapter=self.adapter)
        self.app.logger.disabled = True
        self.client = self.app.test_client()
        self.path = path
    def bptk(self, iid):
        d = self.app._instance_manager._instances.get(iid)
        return None if d is None else d["instance"]
    def close(self):
        for b in self.made:
            try: b.destroy()
            except Exception: pass


def post(client, url, body=None):
    if body is None:
        return client.post(url)
    return client.post(url, data=json.dumps(body), content_type="application/json")


# ------------------------------------------------------------------ canonical forms
def T(x):
    """A time label as an integer number of lattice units.  The label is read as the decimal number it prints as
    (repr): a clock that is snapped to the decimal grid gives labels with at most 4 decimals; a label such as
    0.30000000000000004 is off the lattice and rejected."""
    fr = Fraction(repr(float(x))) * UNIT
    if fr.denominator != 1:
        raise ValueError(f"time {x!r} off the 1/{UNIT} lattice")
    return int(fr)


def tkey(k):
    return repr(float(k))


def hexs(v):
    return json.dumps(v, sort_keys=True).encode().hex()


class Numbering:
    def __init__(self): self.m = {}
    def __call__(self, tup):
        return self.m.setdefault(tuple(tup), len(self.m))


def result_paths(state, num):
    out = []
    for sm in state["scenario_managers"]:
        for sc in MANAGERS.get(sm, []):
            if sc in state["scenarios"]:
                for eq in state["equations"]:
                    out.append(num((sm, sc, eq)))
    return out


def flat_settings(settings, num):
    """{sm:{sc:{vt:{name:v}}}} -> [(path, hex)]; None (no body) is kept as None"""
    out = []
    for sm, a in (settings or {}).items():
        for sc, b in a.items():
            for vt, c in b.items():
                for name, v in c.items():
                    out.append((num((sm, sc, vt, name)), hexs(v)))
    return out


def flat_result(res, num, key=None):
    """{sm:{sc:{eq:{step:v}}}} -> [(path, fbits)] (the inner dictionary has exactly one entry: the step)"""
    out = []
    for sm, a in res.items():
        for sc, b in a.items():
            for eq, c in b.items():
                vals = list(c.values())
                if len(vals) != 1 or (key is not None and [tkey(x) for x in c] != [tkey(key)]):
                    out.append((num((sm, sc, eq)), "BADINNER"))
                else:
                    out.append((num((sm, sc, eq)), fbits(vals[0])))
    return out


def fmt_row(pairs):
    return ",".join(f"{p}={v}" for p, v in sorted(pairs))


def fmt_session(state, nr, ns):
    S = "".join(f"{T(k)}{{{fmt_row(flat_settings(v, ns)) if v is not None else 'NONE'}}}" for k, v in state["settings_log"].items())
    R = "".join(f"{T(k)}{{{fmt_row(flat_result(v, nr, k))}}}" for k, v in state["results_log"].items())
    ps = ",".join(map(str, result_paths(state, nr)))
    return (f"paths={ps};start={T(state['starttime'])};dt={T(state['dt'])};stop={T(state['stoptime'])};"
            f"step={T(state['step'])};S={S};R={R}")


def fmt_cs(c, ns):
    try:
        cols = []
        for sm, a in c["values"].items():
            for sc, b in a.items():
                for vt, d in b.items():
                    for name, col in d.items():
                        cols.append((ns((sm, sc, vt, name)), ",".join(f"{i}={hexs(v)}" for i, v in col)))
        return "steps=" + ",".join(str(T(k)) for k in c["steps"]) + ";cols=" + "".join(f"{p}[{col}]" for p, col in sorted(cols))
    except Exception as e:
        return f"unparseable-format({type(e).__name__})"


def fmt_cr(c, nr):
    try:
        cols = []
        for sm, a in c["values"].items():
            for sc, b in a.items():
                for eq, col in b.items():
                    cols.append((nr((sm, sc, eq)), ",".join(fbits(v) for v in col)))
        return "steps=" + ",".join(str(T(k)) for k in c["steps"]) + ";cols=" + "".join(f"{p}[{col}]" for p, col in sorted(cols))
    except Exception as e:
        return f"unparseable-format({type(e).__name__})"


def fmt_res(res, nr, paths=()):
    """served session results; a requested path without any value yet (session with zero steps: the server answers {}) is an
    empty series"""
    cols = [(p, "") for p in paths if not any(True for sm, a in res.items() for sc, b in a.items() for eq in b.get("equations", {}) if nr((sm, sc, eq)) == p)]
    for sm, a in res.items():
        for sc, b in a.items():
            for eq, ser in b.get("equations", {}).items():
                cols.append((nr((sm, sc, eq)), ",".join(f"{T(k)}={fbits(v)}" for k, v in ser.items())))
    return "".join(f"{p}[{col}]" for p, col in sorted(cols))


def canon_state(st):
    """session_state with time keys canonicalised (JSON turns float keys into strings)."""
    if st is None:
        return None
    d = {k: copy.deepcopy(v) for k, v in st.items() if k not in ("lock", "settings_log", "results_log")}
    d["settings_log"] = {tkey(k): v for k, v in st["settings_log"].items()}
    d["results_log"] = {tkey(k): {sm: {sc: {eq: {tkey(k2): v for k2, v in ser.items()} for eq, ser in b.items()}
                                       for sc, b in a.items()} for sm, a in res.items()}
                        for k, res in st["results_log"].items()}
    return d


def classify(before, after, res_before, res_after, compress=False):
    """The property's right-hand side, checked directly on the real code. None = restored losslessly."""
    if after is None:
        return ("restore-failed", "the instance could not be restored")
    if compress and not KEEPS_EMPTY_INNER[0]:
        # the columnar format holds the leaves of a settings dictionary: {"smA": {}} comes back as {} (named partial
        # clause; with the repair C19-compressed-empty-inner the probe is true and the comparison is exact)
        before = dict(before, settings_log={k: prune(v) for k, v in before["settings_log"].items()})
        after = dict(after, settings_log={k: prune(v) for k, v in after["settings_log"].items()})
    if compress and not KEEPS_EMPTY_MANAGERS[0]:
        # same for the results of a step: a manager without any value ({"nosuch": {}}: named in the session, not registered) has
        # no column (named partial clause; exact with the repair C19-compressed-empty-manager)
        before = dict(before, results_log={k: prune(v) for k, v in before["results_log"].items()})
        after = dict(after, results_log={k: prune(v) for k, v in after["results_log"].items()})
    kb, ka = list(before["results_log"]), list(after["results_log"])
    if sorted(kb) != sorted(ka):
        return ("step-keys-not-restored", f"results_log steps before {kb} after {ka}")
    kb2, ka2 = list(before["settings_log"]), list(after["settings_log"])
    if sorted(kb2) != sorted(ka2):
        return ("settings-steps-not-restored", f"settings_log steps before {kb2} after {ka2}")
    order_only = None
    if kb != ka or kb2 != ka2:
        # the same steps in another dictionary order: two Python dictionaries with the same items are equal -- whether the order matters
        # depends on its consumers (the replay: C20 compares the continuation; the served results: compared below).  Not a failing input
        # by itself: reported without one (key `correspondence…`) unless something observable differs as well.
        order_only = ("correspondence-log-order", f"the logs come back with their steps in another dictionary order: results_log {kb} -> {ka}, "
                                                  f"settings_log {kb2} -> {ka2} (same entries)")
    if before["step"] != after["step"]:
        return ("session-clock-not-restored", f"step before {before['step']} after {after['step']}")
    for k in before["settings_log"]:                                  # entry by entry
        if before["settings_log"][k] != after["settings_log"][k]:
            return ("settings-log-not-restored", f"settings_log[{k}] before {before['settings_log'][k]} after {after['settings_log'][k]}")
    if before["results_log"] != after["results_log"]:
        return ("results-log-not-restored", f"results_log before {before['results_log']} after {after['results_log']}")
    if before != after:
        diff = [k for k in before if before.get(k) != after.get(k)]
        return ("session-fields-not-restored", f"fields {diff} differ")
    if res_before != res_after:
        return ("session-results-differ", f"session-results before {res_before} after {res_after}")
    return order_only


# ------------------------------------------------------------------ one case on the real code
def step_body(st):
    if st["k"] == "nobody":
        return None
    return {"settings": st.get("settings", {})}


def take_steps(srv, iid, steps, log):
    """log: list of (settings-or-None, response dict, request number) per single step taken; returns reference violations."""
    viol = []
    for st in steps:
        rid = (log[-1][2] + 1) if log else 0
        if st["k"] == "stream":
            # stream-steps: ONE request that steps the session to its end with one settings object, written once at the end
            r = post(srv.client, f"/{iid}/stream-steps", {"settings": st["settings"]})
            if r.status_code != 200:
                viol.append(("stream-steps-http-%d" % r.status_code, f"stream-steps {st} -> HTTP {r.status_code}"))
                break
            for one in json.loads(r.data):
                log.append((st["settings"], one, rid))
        elif st["k"] == "lib":
            # library use: bptk.run_step(settings=s) in a loop with the SAME objects (pattern = which object of the
            # pool each step gets), then what every stepping request of the server does: externalise the instance
            pool = [copy.deepcopy(x) for x in st["pool"]]
            b = srv.bptk(iid)
            for i in st["pattern"]:
                one = b.run_step(settings=pool[i])
                if one is None:
                    viol.append(("run-step-returned-none", f"library run_step {st} returned None")); break
                log.append((pool[i], one, rid))
            srv.adapter.save_instance(srv.app._instance_manager._get_instance_state(iid))
        elif st["k"] == "multi":
            r = post(srv.client, f"/{iid}/run-steps", {"settings": st["settings"], "numberSteps": st["n"]})
            if r.status_code != 200:
                viol.append(("run-steps-http-%d" % r.status_code, f"run-steps {st} -> HTTP {r.status_code}"))
                break
            for one in json.loads(r.data):
                log.append((st["settings"], one, rid))
        else:
            r = post(srv.client, f"/{iid}/run-step", step_body(st))
            if r.status_code != 200:
                key = "run-step-without-body-http-%d" % r.status_code if st["k"] == "nobody" else "run-step-http-%d" % r.status_code
                viol.append((key, f"run-step ({st['k']}) with a state adapter configured -> HTTP {r.status_code}"))
                break
            log.append((None if st["k"] == "nobody" else st.get("settings", {}), json.loads(r.data), rid))
    return viol


def metrics_step(srv, iid):
    """the session clock as the server reports it (GET /full-metrics)"""
    try:
        return json.loads(srv.client.get("/full-metrics").data).get(iid, {}).get("step", "instance unknown")
    except Exception as e:
        return f"full-metrics failed: {type(e).__name__}"


def with_clock(st, srv, iid):
    """what the server holds / serves for the instance beside the session dictionary: the clock in /full-metrics, the
    instance's timeout (InstanceState.timeout), the flat form of the session results"""
    if st is not None:
        st["metrics_step"] = metrics_step(srv, iid)
        d = srv.app._instance_manager._instances.get(iid)
        st["timeout"] = copy.deepcopy(d["timeout"]) if d is not None else "instance unknown"
        r = srv.client.get(f"/{iid}/flat-session-results")
        st["flat_results"] = json.loads(r.data) if r.status_code == 200 else {"http": r.status_code}
    return st


def observe(srv, iid):
    b = srv.bptk(iid)
    st = with_clock(canon_state(b.session_state), srv, iid) if b is not None else None
    raw = copy.deepcopy(b.session_state) if b is not None else None
    r = srv.client.get(f"/{iid}/session-results")
    res = json.loads(r.data) if r.status_code == 200 else {"http": r.status_code}
    return st, raw, res


def step_lines(log, nr, ns, req, exp):
    """the steps of one session; `flush` closes every step-advancing request (after it the server writes the instance)"""
    for i, (settings, resp, rid) in enumerate(log):
        sline = "none" if settings is None else (fmt_row(flat_settings(settings, ns)) or "-")
        vline = "-" if "msg" in resp else (fmt_row(flat_result(resp, nr)) or "-")
        if "msg" in resp:
            row("step request beyond the stop time (nothing logged, clock stays)")
        req.append(f"step {sline} {vline}"); exp.append("ok")
        if i + 1 == len(log) or log[i + 1][2] != rid:
            req.append("flush"); exp.append("ok")


def begin_line(raw, nr):
    return f"begin {','.join(map(str, result_paths(raw, nr))) or '-'} {T(raw['starttime'])} {T(raw['dt'])} {T(raw['stoptime'])}"


def file_line(filestate, compress, nr):
    if filestate is None:
        return "file=none"
    sl = filestate["settings_log"]
    n = len(sl["steps"]) if compress and isinstance(sl, dict) and "steps" in sl else len(sl)
    return f"file:paths={','.join(map(str, result_paths(filestate, nr)))};step={T(filestate['step'])};n={n}"


def model_lines(inst, raw_before, log, raw_after, res_after, compress, filestate, nr, ns, tag, fileraw=None, stats=None, prior=(), diverged=None):
    """Protocol lines (request, expected reply) for one instance at one save/load point: the whole history of the instance
    (earlier sessions included) for the instance-level machine, the last session for the save/load round trip."""
    req, exp = ["new", f"cfgs {int(SAVES_AFTER_EVERY_STEP_REQUEST[0])}"], ["ok", "ok"]
    for snap, plog, ended in prior:
        req.append(begin_line(snap, nr)); exp.append("ok")
        step_lines(plog, nr, ns, req, exp)
        if ended:
            req.append("endsession"); exp.append("ok")
    req.append(begin_line(raw_before, nr))
    exp.append("ok")
    step_lines(log, nr, ns, req, exp)
    if tag == "server":
        req.append("saveall"); exp.append("ok")
    req.append("saved"); exp.append(file_line(filestate, compress, nr))
    if tag == "server":
        # what the instance holds after POST /load-state: the stored session, whatever happened to the live one since the save
        req.append(f"cfgl {int(LOAD_INSTALLS_STORED[0])}"); exp.append("ok")
        if diverged and "end" in diverged:
            req.append("endsession"); exp.append("ok")
        if diverged and "begin" in diverged:
            req.append("ibegin 9990,9991 0 1 1"); exp.append("ok")
        req.append("loadstate"); exp.append("ok")
        req.append("live")
        exp.append("live=none" if raw_after is None else file_line(raw_after, False, nr).replace("file:", "live:"))
    req.append("state"); exp.append(fmt_session(raw_before, nr, ns))
    b = "1" if compress else "0"
    try:
        after_line = "RESTORE-FAILED" if raw_after is None else fmt_session(raw_after, nr, ns)
    except (AttributeError, TypeError, KeyError) as e:   # e.g. a settings entry restored as {"py/id": n}
        after_line = f"restored-state-not-a-session({type(e).__name__}: {e})"
    req.append(f"rt {b}"); exp.append(after_line)
    if compress and filestate is not None:
        req.append("cs"); exp.append(fmt_cs(filestate["settings_log"], ns))
        req.append("cr"); exp.append(fmt_cr(filestate["results_log"], nr))
    if fileraw is not None:
        # the concrete pickler: which entries of the written settings part are py/id back-references, and to what
        ids = idents(raw_before, compress)
        try:
            view, nrefs = pickle_view(fileraw, compress, ns)
        except Exception as e:
            view, nrefs = f"unparseable-file({type(e).__name__}: {e})", 0
        req.append(f"pk {b} {','.join(map(str, ids)) or '-'}")
        exp.append(f"{view};rt=ok;plain={'differs' if nrefs else 'same'}")
        if stats is not None:
            stats["files_with_backrefs"] += 1 if nrefs else 0
            stats["backrefs"] += nrefs
            stats["files"] += 1
    req.append(f"res {b}"); exp.append(fmt_res(res_after, nr, result_paths(raw_before, nr)) if "http" not in res_after else "HTTP-ERROR")
    return req, exp


PK_STATS = {"files": 0, "files_with_backrefs": 0, "backrefs": 0}
LOAD_INSTALLS_STORED = [True]                             # probed: POST /load-state installs the stored session also for a live instance
SAVES_AFTER_EVERY_STEP_REQUEST = [True]                   # probed: every step-advancing request is followed by a write of the instance
SAVE_STATE_SKIPS_SESSIONLESS = [False]                    # probed: GET /save-state works while an instance has no session yet
KEEPS_EMPTY_MANAGERS = [False]                           # probed: the compressed format keeps {"nosuch": {}} in a step's results
KEEPS_EMPTY_INNER = [False]                               # probed: the compressed format keeps {"smA": {}} (else compared up to those)


def prune(d):
    """A settings dictionary without its empty inner dictionaries (its set of leaves)."""
    if not isinstance(d, dict):
        return d
    out = {}
    for k, v in d.items():
        pv = prune(v)
        if isinstance(pv, dict) and not pv:
            continue
        out[k] = pv
    return out


def read_file_raw(path, iid):
    """The inner state as plain JSON (json.loads, NOT jsonpickle): back-references stay {"py/id": n}."""
    try:
        env = json.loads(open(os.path.join(path, iid + ".json")).read())
        return json.loads(env["data"]["state"])
    except Exception:
        return None


def is_ref(o):
    return isinstance(o, dict) and set(o.keys()) == {"py/id"}


def object_paths(raw):
    """object number -> path, numbered as jsonpickle does: depth first, every dict / list when first met, root = 0"""
    paths = {}
    def walk(o, path):
        if is_ref(o):
            return
        if isinstance(o, dict):
            paths[len(paths)] = path
            for k, v in o.items():
                walk(v, path + (k,))
        elif isinstance(o, list):
            paths[len(paths)] = path
            for i, v in enumerate(o):
                walk(v, path + (i,))
    walk(raw, ())
    return paths


def pickle_view(raw, compress, ns):
    """Which parts of the written settings log are back-references, and to what (same rendering as Drive/C19 `pk`)."""
    paths = object_paths(raw)
    sl = raw["settings_log"]
    nrefs = 0
    if not compress:
        out = []
        for t, v in sl.items():
            if is_ref(v):
                tp = paths.get(v["py/id"], ("?",))
                nrefs += 1
                out.append(f"{T(t)}:^/{T(tp[1])}" if len(tp) == 2 and tp[0] == "settings_log" else f"{T(t)}:^?{tp}")
            else:
                out.append(f"{T(t)}:obj")
        return ",".join(out), nrefs
    cols = []
    for sm, a in sl["values"].items():
        for sc, b in a.items():
            for vt, d in b.items():
                for name, col in d.items():
                    p = ns((sm, sc, vt, name))
                    ents = []
                    for ent in col:
                        i, v = ent
                        if is_ref(v):
                            tp = paths.get(v["py/id"], ("?",))
                            nrefs += 1
                            ok = len(tp) == 8 and tp[:2] == ("settings_log", "values") and tp[7] == 1
                            ents.append(f"{i}=^/{ns(tuple(tp[2:6]))}/{tp[6]}/1" if ok else f"{i}=^?{tp}")
                        else:
                            ents.append(f"{i}={hexs(v)}")
                    cols.append((p, f"{p}[" + ",".join(ents) + "]"))
    return "".join(c for _, c in sorted(cols)), nrefs


def leaves(settings):
    for sm, a in (settings or {}).items():
        for sc, b in a.items():
            for vt, c in b.items():
                for name, v in c.items():
                    yield (sm, sc, vt, name), v


def idents(state, compress):
    """Identity of the settings object each step logged (plain mode: the dictionary; compressed mode: its compound
    values, which is what the columns share), numbered by first occurrence."""
    seen, out = {}, []
    for n, (k, v) in enumerate(state["settings_log"].items()):
        if compress:
            key = tuple(sorted((pth, id(val)) for pth, val in leaves(v) if isinstance(val, (list, dict)))) or ("step", n)
        else:
            key = id(v)
        out.append(seen.setdefault(key, len(seen)))
    return out


def read_file_state(path, iid):
    try:
        import jsonpickle                           # shared sub-objects are written as py/id references
        env = jsonpickle.loads(open(os.path.join(path, iid + ".json")).read())
        return jsonpickle.loads(env["data"]["state"])
    except Exception:
        return None


def run_case(case, base):
    """Returns (request lines, expected replies, reference violations [(key, text, where)])."""
    import contextlib, io
    with contextlib.redirect_stdout(io.StringIO()):      # the adapter print()s its load errors
        return _run_case(case, base)


def _run_case(case, base):
    path = os.path.join(base, "state")
    shutil.rmtree(path, ignore_errors=True)
    os.makedirs(path)
    spec = case["spec"]
    srv = Server(spec, case["compress"], path)
    req, exp, viol = [], [], []
    nr, ns = Numbering(), Numbering()
    srv2 = twin = None
    try:
        ids, logs, priors = [], [], []
        for inst in case["instances"]:
            if case.get("timeouts"):                      # a timeout of its own per instance (InstanceState.timeout must come back)
                tmo = {"weeks": 0, "days": len(ids), "hours": 1, "minutes": 7 + len(ids), "seconds": 0, "milliseconds": 0, "microseconds": 0}
                iid = json.loads(post(srv.client, "/start-instance", {"timeout": tmo}).data)["instance_uuid"]
                row("instance timeout given at start-instance")
            else:
                iid = json.loads(post(srv.client, "/start-instance").data)["instance_uuid"]
            hist = []
            for ps in inst.get("prior", []):
                if viol or srv.bptk(iid) is None:
                    break
                # an EARLIER session on the same instance: other scenario managers / scenarios / equations / settings
                srv.bptk(iid).begin_session(scenarios=ps["scs"], scenario_managers=ps["sms"], settings=copy.deepcopy(ps.get("settings", {})),
                                            agents=[], agent_states=[], agent_properties=[], agent_property_types=[],
                                            individual_agent_properties=[], equations=ps["eqs"], starttime=spec["start"], dt=spec["dt"])
                snap = copy.deepcopy(srv.bptk(iid).session_state)
                plog = []
                v = take_steps(srv, iid, ps["steps"], plog)
                viol += [(k, t, {"instance": len(ids), "session": len(hist)}) for k, t in v]
                if ps.get("check") and plog and not viol:          # restore after this session too (per instance)
                    st_b, _, res_b = observe(srv, iid)
                    srv.app._instance_manager._delete_instance(iid)
                    res_r = srv.client.get(f"/{iid}/session-results")
                    b = srv.bptk(iid)
                    res_a = json.loads(res_r.data) if res_r.status_code == 200 and b is not None else {"http": res_r.status_code}
                    c = classify(st_b, with_clock(canon_state(copy.deepcopy(b.session_state)), srv, iid) if b is not None else None, res_b, res_a, case["compress"])
                    if c is not None:
                        viol.append((c[0], f"{'compressed' if case['compress'] else 'plain'} mode, restore after session {len(hist)}: {c[1]}",
                                     {"instance": len(ids), "session": len(hist)}))
                if ps.get("end") and srv.bptk(iid) is not None:
                    r = post(srv.client, f"/{iid}/end-session")
                hist.append((snap, plog, bool(ps.get("end"))))
            priors.append(hist)
            if viol:
                break
            sms = inst["sms"]
            srv.bptk(iid).begin_session(scenarios=inst["scs"], scenario_managers=sms, settings=copy.deepcopy(inst.get("settings", {})), agents=[], agent_states=[],
                                        agent_properties=[], agent_property_types=[], individual_agent_properties=[],
                                        equations=inst["eqs"], starttime=spec["start"], dt=spec["dt"])
            log = []
            v = take_steps(srv, iid, inst["steps"], log)
            viol += [(k, t, {"instance": len(ids)}) for k, t in v]
            ids.append(iid); logs.append(log)
        if viol:
            return req, exp, viol
        if case.get("twin"):
            # a SECOND server with its own adapter (other directory, other mode) alive in the same process: nothing of it may leak into
            # this one and vice versa (class-level or module-level state of the adapter / compression code)
            tpath = path + "-twin"
            shutil.rmtree(tpath, ignore_errors=True); os.makedirs(tpath)
            twin = Server(spec, not case["compress"], tpath)
            tid = json.loads(post(twin.client, "/start-instance").data)["instance_uuid"]
            twin.bptk(tid).begin_session(scenarios=["a"], scenario_managers=["smB"], settings={}, agents=[], agent_states=[], agent_properties=[],
                                         agent_property_types=[], individual_agent_properties=[], equations=["c"], starttime=spec["start"], dt=spec["dt"])
            post(twin.client, f"/{tid}/run-steps", {"settings": {"smB": {"a": {"constants": {"c": 9.0}}}}, "numberSteps": 2})
            row("second server with the other adapter mode alive in the process")
        if case.get("idle") and SAVE_STATE_SKIPS_SESSIONLESS[0]:
            post(srv.client, "/start-instance")           # an instance that never begins a session: nothing to externalise,
                                                          # and it must not keep /save-state from saving the others
        srv2 = None
        diverged = {}
        for route in ("instance", "server", "startup") if case.get("startup", True) else ("instance", "server"):
            before = [observe(srv, iid) for iid in ids]
            rs = srv                                      # the server the restored instances are read from
            if route == "instance":
                for n, iid in enumerate(ids):         # what a timeout does: the instance leaves the manager ...
                    if logs[n]:                       # (only instances that have been externalised)
                        srv.app._instance_manager._delete_instance(iid)
                # ... and is loaded from its file by the next request that names it
            else:
                r = srv.client.get("/save-state")
                if r.status_code != 200:
                    viol.append((f"save-state-http-{r.status_code}", "GET /save-state failed", {}))
                    break
                # saving works on a copy: the live sessions are as before (state, served results)
                for n, iid in enumerate(ids):
                    now = observe(srv, iid)
                    if now[0] != before[n][0] or now[2] != before[n][2]:
                        viol.append(("live-session-changed-by-save", f"{'compressed' if case['compress'] else 'plain'} mode: GET /save-state changed the "
                                     f"live session of instance {n}: fields {[k for k in (before[n][0] or {}) if (now[0] or {}).get(k) != before[n][0].get(k)]}",
                                     {"instance": n, "route": route}))
                if viol:
                    break
                if route == "server" and case.get("diverge"):
                    # the live session moves away from the stored one WITHOUT a write (end-session / begin-session / keep-alive do not
                    # save): the whole-server load must install the STORED session all the same
                    for n, iid in enumerate(ids):
                        kind = case["diverge"][n % len(case["diverge"])]
                        row("live session changed between save and load-state: " + kind)
                        if "end" in kind:
                            post(srv.client, f"/{iid}/end-session")
                        if "begin" in kind:
                            post(srv.client, f"/{iid}/begin-session", {"scenario_managers": ["smB"], "scenarios": ["a"], "equations": ["c", "g"],
                                                                       "settings": {"smB": {"a": {"constants": {"c": 4.0}}}}})
                        if kind == "keep-alive":
                            post(srv.client, f"/{iid}/keep-alive")
                        diverged[n] = kind
                if route == "server":
                    r = post(srv.client, "/load-state")
                    if r.status_code != 200:
                        viol.append((f"load-state-http-{r.status_code}", "POST /load-state failed", {}))
                        break
                else:                                     # a new server on the same directory: load at start-up
                    try:
                        srv2 = rs = Server(spec, case["compress"], path)
                    except Exception as e:
                        viol.append(("startup-load-failed", f"BptkServer.__init__ on the saved state raised {e!r}", {}))
                        break
            for n, iid in enumerate(ids):
                if not logs[n] and route == "instance":
                    continue                          # never stepped: not externalised by a step request (the whole-server save writes it)
                if not logs[n]:
                    row("session with zero steps through whole-server save / " + route)
                if route == "instance":
                    # the request that makes the server load the instance lazily (`_ensure_instance_exists` is called by every endpoint)
                    trig = ("session-results", "flat-session-results", "keep-alive")[(n + len(logs[n]) + len(case["instances"])) % 3]
                    row("lazy load triggered by " + trig)
                    if trig == "keep-alive":
                        post(rs.client, f"/{iid}/keep-alive")
                    elif trig == "flat-session-results":
                        rs.client.get(f"/{iid}/flat-session-results")
                res_r = rs.client.get(f"/{iid}/session-results")
                res_after = json.loads(res_r.data) if res_r.status_code == 200 and rs.bptk(iid) is not None else {"http": res_r.status_code}
                b = rs.bptk(iid)
                raw_after = copy.deepcopy(b.session_state) if b is not None else None
                st_before, raw_before, res_before = before[n]
                c = classify(st_before, with_clock(canon_state(raw_after), rs, iid), res_before, res_after, case["compress"])
                if c is not None:
                    viol.append((c[0], f"{'compressed' if case['compress'] else 'plain'} mode, {route} save/load: {c[1]}" +
                                 (f" (between GET /save-state and POST /load-state the live session was changed by {diverged[n]}, which writes nothing: "
                                  f"the load has to install the stored session)" if route == "server" and n in diverged else ""),
                                 {"instance": n, "route": route}))
                if route == "startup":
                    # the time of the next step: the restored session goes on exactly at the saved clock
                    r = post(rs.client, f"/{iid}/run-step", {"settings": {}})
                    one = json.loads(r.data) if r.status_code == 200 else {}
                    times = {float(t) for a in one.values() if isinstance(a, dict) for b_ in a.values() for ser in b_.values() for t in ser}
                    if c is None and "msg" not in one and times and times != {float(raw_before["step"])}:
                        viol.append(("next-step-off-grid", f"{route} load: clock saved at {raw_before['step']!r}, the next step is taken at {sorted(times)}",
                                     {"instance": n, "route": route}))
                    continue
                try:
                    q, e = model_lines(case["instances"][n], raw_before, logs[n], raw_after, res_after, case["compress"],
                                       read_file_state(path, iid), nr, ns, route, read_file_raw(path, iid), PK_STATS, priors[n],
                                       diverged.get(n) if route == "server" else None)
                except ValueError as err:
                    q, e = ["begin - 0 0 0"], [f"harness: {err}"]
                req += q; exp += e
            if viol:
                break
            if route == "instance":                   # the restored sessions go on; second save/load sees mixed key types
                for n, iid in enumerate(ids):
                    clock = before[n][1]["step"] if before[n][1] is not None else None
                    nlog = len(logs[n])
                    v = take_steps(srv, iid, case["instances"][n].get("extra", []), logs[n])
                    viol += [(k, t, {"instance": n, "after": "restore"}) for k, t in v]
                    if not v and nlog and len(logs[n]) > nlog and "msg" not in logs[n][nlog][1]:
                        times = {float(t) for a in logs[n][nlog][1].values() for b_ in a.values() for ser in b_.values() for t in ser}
                        if times and times != {float(clock)}:
                            viol.append(("next-step-off-grid", f"instance load: clock saved at {clock!r}, the next step is taken at {sorted(times)}",
                                         {"instance": n, "route": "instance"}))
                if viol:
                    break
        if twin is not None and not viol:
            tb = observe(twin, tid)
            twin.app._instance_manager._delete_instance(tid)
            res_r = twin.client.get(f"/{tid}/session-results")
            b = twin.bptk(tid)
            c = classify(tb[0], with_clock(canon_state(copy.deepcopy(b.session_state)), twin, tid) if b is not None else None, tb[2],
                         json.loads(res_r.data) if res_r.status_code == 200 else {"http": res_r.status_code}, not case["compress"])
            if c is not None:
                viol.append((c[0], f"second server ({'plain' if case['compress'] else 'compressed'} mode) alive beside this one: {c[1]}", {"twin": True}))
    finally:
        srv.close()
        if srv2 is not None:
            srv2.close()
        if twin is not None:
            twin.close()
            shutil.rmtree(path + "-twin", ignore_errors=True)
        shutil.rmtree(path, ignore_errors=True)
    return req, exp, viol


# ------------------------------------------------------------------ generation
def settings_for(rng, sms, scs, rich):
    """A settings dictionary in normal form (no empty inner dictionaries)."""
    out = {}
    for _ in range(rng.range(1, 3) if rich else 1):
        sm = rng.choice(sms)
        cand = [sc for sc in MANAGERS[sm] if sc in scs] or MANAGERS[sm][:1]
        sc = rng.choice(cand)
        if rng.chance(1, 5):
            out.setdefault(sm, {}).setdefault(sc, {}).setdefault("points", {})["tab"] = [[0.0, rng.choice(CVALS)], [1.0, 2.0]]
        else:
            out.setdefault(sm, {}).setdefault(sc, {}).setdefault("constants", {})[rng.choice(["c", "k"])] = rng.choice(CVALS)
    return out


def nonnormal(rng, sms, scs):
    """Settings with empty inner dictionaries (not in normal form): they carry no value."""
    sm = rng.choice(sms)
    sc = rng.choice([x for x in MANAGERS[sm] if x in scs] or MANAGERS[sm][:1])
    base = settings_for(rng, sms, scs, False) if rng.chance(1, 2) else {}
    r = rng.below(3)
    if r == 0:
        base.setdefault(sm, {})
    elif r == 1:
        base.setdefault(sm, {}).setdefault(sc, {})
    else:
        base.setdefault(sm, {}).setdefault(sc, {}).setdefault("constants", {})
    return base


def shared_settings(rng, sms, scs):
    r = rng.below(4)
    if r == 0:
        return {}
    if r == 1:                                            # list-valued setting: a value OBJECT shared between the steps
        sm = rng.choice(sms)
        sc = rng.choice([x for x in MANAGERS[sm] if x in scs] or MANAGERS[sm][:1])
        d = {sm: {sc: {"points": {"tab": [[0.0, rng.choice(CVALS)], [1.0, 2.0]]}}}}
        if rng.chance(1, 2):
            d[sm][sc]["constants"] = {"c": rng.choice(CVALS)}
        return d
    return settings_for(rng, sms, scs, r == 3)


def gen_step(rng, sms, scs):
    r = rng.below(14)
    if r < 4:
        return {"k": "set", "settings": settings_for(rng, sms, scs, rng.chance(1, 2))}
    if r < 5:
        return {"k": "set", "settings": nonnormal(rng, sms, scs)}
    if r < 7:
        return {"k": "empty"}
    if r < 9:
        return {"k": "nobody"}
    if r < 12:                                            # one settings object logged for numberSteps steps
        return {"k": "multi", "n": rng.range(1, 4), "settings": shared_settings(rng, sms, scs)}
    pool = [shared_settings(rng, sms, scs) for _ in range(rng.range(1, 3))]
    return {"k": "lib", "pool": pool, "pattern": [rng.below(len(pool)) for _ in range(rng.range(2, 4))]}


def gen_case(rng, quick):
    r_ = rng.below(6)
    if r_ < 2:
        start, dt = rng.choice(STARTS10), rng.choice(DTS10)
    elif r_ < 3:
        start, dt = rng.choice(STARTS3), rng.choice(DTS3)
    else:
        start, dt = rng.choice(STARTS), rng.choice(DTS)
    horizon = rng.choice([2, 4, 12, 12, 12])
    spec = {"start": start, "dt": dt, "stop": round(start + dt * horizon, 6)}
    insts = []
    for _ in range(rng.choice([1, 1, 2, 3])):
        sms = rng.choice([["smA"], ["smA", "smB"], ["smB"]])
        scs = rng.choice([["a"], ["a", "b"]])
        eqs = rng.choice([["s"], ["s", "c"], ["s", "f", "c", "g"], ["g", "c"]])
        n = rng.range(0, 4 if quick else 7)
        insts.append({"sms": sms, "scs": scs, "eqs": eqs, "steps": [gen_step(rng, sms, scs) for _ in range(n)],
                      "extra": [gen_step(rng, sms, scs) for _ in range(rng.range(0, 2))]})
    if rng.chance(1, 3):
        # several sessions on one instance: earlier sessions with other scenario managers / scenarios / equations / settings,
        # ended or not; the last session is often taken by ONE request to the clock position of the last write
        for inst in insts:
            if not rng.chance(2, 3):
                continue
            inst["prior"] = []
            for _ in range(rng.range(1, 2)):
                psms = rng.choice([["smA"], ["smA", "smB"], ["smB"]]); pscs = rng.choice([["a"], ["a", "b"]])
                inst["prior"].append({"sms": psms, "scs": pscs, "eqs": rng.choice([["s"], ["c", "g"], ["s", "f"]]),
                                      "settings": rng.choice([{}, {}, copy.deepcopy(S2)]),
                                      "steps": [gen_session_step(rng, psms, pscs) for _ in range(rng.range(1, 2))],
                                      "end": rng.chance(1, 2), "check": rng.chance(1, 3)})
            inst["settings"] = rng.choice([{}, copy.deepcopy(S2)])
            last = inst["prior"][-1]["steps"]
            total = sum(x.get("n", 1) if x["k"] != "lib" else len(x["pattern"]) for x in last)
            if last and last[-1]["k"] == "stream":
                inst["steps"] = [{"k": "stream", "settings": shared_settings(rng, inst["sms"], inst["scs"])}]
            elif rng.chance(2, 3):
                inst["steps"] = [{"k": "multi", "n": total, "settings": shared_settings(rng, inst["sms"], inst["scs"])}]
            elif not inst["steps"]:
                inst["steps"] = [{"k": "empty"}]
    for inst in insts:
        if rng.chance(1, 4):
            inst["sms"] = inst["sms"] + ["nosuch"]        # a manager named in the session that is not registered: {} in every step's results
    return {"spec": spec, "compress": rng.chance(2, 3), "instances": insts, "idle": rng.chance(1, 3), "startup": rng.chance(1, 2),
            "timeouts": rng.chance(1, 2), "twin": rng.chance(1, 6),
            "diverge": rng.choice([None, None, ["end"], ["begin"], ["end+begin", "keep-alive"], ["keep-alive", "end"]])}


def gen_session_step(rng, sms, scs):
    r = rng.below(6)
    if r < 3:
        return {"k": "multi", "n": rng.range(1, 3), "settings": shared_settings(rng, sms, scs)}
    if r < 4:
        return {"k": "stream", "settings": shared_settings(rng, sms, scs)}
    return gen_step(rng, sms, scs)


def empties_cases(quick):
    """2-3 instances on one server (and a second session on one of them), different numbers of steps, every nested form of a
    dictionary without a value ({"m": {}}, {"m": {"s": {}}}, {"m": {"s": {"constants": {}}}}) in ONE instance's settings at
    different step indices, the others without; both orders of the instances (= both save orders), both modes"""
    e1, e2, e3 = {"smA": {}}, {"smA": {"a": {}}}, {"smA": {"a": {"constants": {}}}, "smB": {}}
    c5 = {"smA": {"a": {"constants": {"c": 5.0}}}}
    rich = {"sms": ["smA", "smB"], "scs": ["a"], "eqs": ["s"],
            "steps": [{"k": "set", "settings": c5}, {"k": "set", "settings": e1}, {"k": "set", "settings": e2}, {"k": "multi", "n": 2, "settings": e3}], "extra": [{"k": "empty"}]}
    short = {"sms": ["smA"], "scs": ["a", "b"], "eqs": ["s", "c"], "steps": [{"k": "set", "settings": c5}], "extra": []}
    mid = {"sms": ["smB"], "scs": ["a"], "eqs": ["c"], "steps": [{"k": "empty"}, {"k": "set", "settings": {"smB": {"a": {}}}}], "extra": [{"k": "nobody"}],
           "prior": [{"sms": ["smA"], "scs": ["b"], "eqs": ["g"], "settings": {}, "steps": [{"k": "set", "settings": e1}, {"k": "empty"}, {"k": "empty"}],
                      "end": False, "check": False}]}
    out = []
    for compress in (True, False):
        for order in ([rich, short, mid], [short, mid, rich], [mid, rich]) if not quick or compress else ([rich, short],):
            out.append({"spec": {"start": 1.0, "dt": 0.5, "stop": 9.0}, "compress": compress, "timeouts": False,
                        "instances": copy.deepcopy(order)})
    return out


def several_sessions_cases(quick):
    """A first session and a second one with other scenario managers / scenarios / equations / session settings on the same
    instance, the second one taken to the clock position of the last write: all shapes x ended or not x both modes."""
    c5 = {"smA": {"a": {"constants": {"c": 5.0}}}}
    shapes = [[{"k": "multi", "n": 2, "settings": c5}], [{"k": "stream", "settings": {}}],
              [{"k": "set", "settings": c5}, {"k": "empty"}], [{"k": "multi", "n": 2, "settings": {}}, {"k": "nobody"}]]
    same = [[{"k": "multi", "n": 2, "settings": {}}], [{"k": "stream", "settings": c5}],
            [{"k": "multi", "n": 2, "settings": c5}], [{"k": "multi", "n": 3, "settings": {}}]]
    out = []
    for i, first in enumerate(shapes):
        for j, second in enumerate(same + ([[{"k": "empty"}, {"k": "multi", "n": 1, "settings": {}}]] if not quick else [])):
            if ("stream" in (first[0]["k"], second[0]["k"])) and first[0]["k"] != second[0]["k"]:
                continue                                  # a stream ends at the stop time; only another stream lands there
            for end in (False, True):
                for compress in ((True, False) if not quick else ((i + j + end) % 2 == 0,)):
                    for swap in ((False, True) if not quick else (False,)):
                        a = {"sms": ["smA"], "scs": ["a"], "eqs": ["s"], "settings": {}}
                        b = {"sms": ["smA", "smB"], "scs": ["a", "b"], "eqs": ["s", "g"], "settings": copy.deepcopy(S2)}
                        if swap:
                            a, b = b, a
                        out.append({"spec": {"start": 2.0, "dt": 0.5, "stop": 5.0}, "compress": compress,
                                    "instances": [dict(b, prior=[dict(a, steps=copy.deepcopy(first), end=end, check=False)],
                                                       steps=copy.deepcopy(second), extra=[{"k": "empty"}])]})
    # three sessions, restore after each
    out.append({"spec": {"start": 0.1, "dt": 0.1, "stop": 0.6}, "compress": True,
                "instances": [{"prior": [{"sms": ["smA"], "scs": ["a"], "eqs": ["s"], "settings": {}, "steps": copy.deepcopy(shapes[0]), "end": True, "check": True},
                                         {"sms": ["smB"], "scs": ["a"], "eqs": ["c", "g"], "settings": {}, "steps": copy.deepcopy(same[0]), "end": False, "check": True}],
                               "sms": ["smA"], "scs": ["a", "b"], "eqs": ["s", "f"], "settings": copy.deepcopy(S2),
                               "steps": copy.deepcopy(same[2]), "extra": []}]})
    return out


def exhaustive_cases(quick):
    """All sequences up to length L over {settings c, settings k on another scenario, {}, no body} at start 2.0 / dt 0.5,
    both modes; plus every (start, dt) of the lattice with one fixed mixed history."""
    import itertools
    L = 2 if quick else 4
    PTS = {"smA": {"a": {"points": {"tab": [[0.0, 5.0], [1.0, 2.0]]}, "constants": {"c": 7.0}}}}
    alpha = [{"k": "set", "settings": {"smA": {"a": {"constants": {"c": 5.0}}}}},
             {"k": "set", "settings": {"smA": {"b": {"constants": {"k": 3.0}}}}},
             {"k": "empty"}, {"k": "nobody"},
             # wave 2: ONE settings object logged for several steps (py/id back-references in the file)
             {"k": "multi", "n": 2, "settings": {"smA": {"a": {"constants": {"c": 5.0}}}}},
             {"k": "multi", "n": 2, "settings": {}},
             {"k": "multi", "n": 3, "settings": PTS},
             {"k": "lib", "pool": [PTS, {}], "pattern": [0, 1, 0]},
             {"k": "set", "settings": {"smA": {}}}]
    out = []
    for n in range(1, L + 1):
        letters = range(4) if n > (2 if quick else 3) else range(len(alpha))
        for seq in itertools.product(letters, repeat=n):
            for compress in ((True, False) if not quick or n == 1 else (sum(seq) % 2 == 0,)):
                out.append({"spec": {"start": 2.0, "dt": 0.5, "stop": 12.0}, "compress": compress, "startup": n == 1 or not quick,
                            "instances": [{"sms": ["smA"], "scs": ["a", "b"], "eqs": ["s", "c"],
                                           "steps": [copy.deepcopy(alpha[i]) for i in seq], "extra": [{"k": "empty"}]}]})
    mixed = [alpha[2], alpha[0], alpha[3], alpha[1], alpha[6], alpha[7]]
    # labels whose order as text differs from their order as numbers (9.0 < 10.0, -2.0 < -1.0, 99.5 < 100.0), and a session
    # that names a manager which is not registered
    for start, dt in ((9.0, 1.0), (9.0, 0.5), (-2.0, 1.0), (99.0, 0.5), (5.0, 1.0)):
        for compress in (True, False):
            out.append({"spec": {"start": start, "dt": dt, "stop": start + 20 * dt}, "compress": compress,
                        "instances": [{"sms": ["smA", "nosuch"], "scs": ["a"], "eqs": ["s", "g"],
                                       "steps": copy.deepcopy([alpha[0], alpha[2], alpha[4], alpha[3], alpha[1], alpha[2]]), "extra": [copy.deepcopy(alpha[4])]}]})
    # three and four decimals: the clock after an odd number of steps (0.375 at dt 0.125) is not a multiple of 0.01; odd and
    # even step counts at the three save points (instance: 9 or 10 steps; server / start-up: +1 or +3)
    pairs3 = [(a, d) for a in STARTS3 for d in DTS3]
    if quick:
        pairs3 = [(0.0, 0.125), (0.375, 0.125), (0.125, 0.0625), (0.0625, 0.0625), (0.001, 0.001), (0.0, 0.001)]
    for j, (start, dt) in enumerate(pairs3):
        for odd in (False, True):
            for compress in ((True, False) if not quick else ((j + odd) % 2 == 0,)):
                out.append({"spec": {"start": start, "dt": dt, "stop": round(start + 16 * dt, 6)}, "compress": compress, "timeouts": odd, "twin": odd and j % 2 == 0,
                            "diverge": [["end"], ["begin"], ["end+begin"], None][(j + odd) % 4],
                            "instances": [{"sms": ["smA", "smB"], "scs": ["a", "b"], "eqs": ["s", "g"],
                                           "steps": copy.deepcopy(mixed[1:] if odd else mixed),
                                           "extra": [copy.deepcopy(alpha[0])] if odd else [copy.deepcopy(alpha[0]), copy.deepcopy(alpha[4])]}]})
    # a session that has not been stepped yet beside a stepped one: the whole-server save writes both (empty logs)
    for compress in (True, False):
        out.append({"spec": {"start": 0.0, "dt": 0.25, "stop": 3.0}, "compress": compress, "timeouts": True,
                    "instances": [{"sms": ["smA"], "scs": ["a", "b"], "eqs": ["s", "g"], "steps": [], "extra": [copy.deepcopy(alpha[0])]},
                                  {"sms": ["smA", "smB"], "scs": ["a"], "eqs": ["c"], "steps": copy.deepcopy([alpha[0], alpha[4]]), "extra": []},
                                  {"sms": ["smB"], "scs": ["a"], "eqs": ["s"], "settings": copy.deepcopy(S2) if False else {}, "steps": [], "extra": []}]})
    for starts, dts in ((STARTS, DTS), (STARTS10, DTS10)):
        for start in starts:
            for dt in dts:
                for compress in ((True, False) if not quick or (len(out) // 2) % 2 == 0 else (len(out) % 4 == 1,)):
                    out.append({"spec": {"start": start, "dt": dt, "stop": round(start + 14 * dt, 6)}, "compress": compress,
                                "instances": [{"sms": ["smA", "smB"], "scs": ["a", "b"], "eqs": ["s", "g"],
                                               "steps": copy.deepcopy(mixed), "extra": [copy.deepcopy(alpha[0]), copy.deepcopy(alpha[4])]}]})
    return out


def shrink_case(case, key, base):
    def fails(c):
        try:
            return any(k == key for k, _, _ in run_case(c, base)[2])
        except Exception:
            return False
    cur = copy.deepcopy(case)
    changed = True
    while changed:
        changed = False
        cands = []
        for i in range(len(cur["instances"])):
            if len(cur["instances"]) > 1:
                c = copy.deepcopy(cur); del c["instances"][i]; cands.append(c)
            for j in range(len(cur["instances"][i].get("prior", []))):
                c = copy.deepcopy(cur); del c["instances"][i]["prior"][j]; cands.append(c)
            for fld in ("extra", "steps"):
                for j in range(len(cur["instances"][i][fld])):
                    c = copy.deepcopy(cur); del c["instances"][i][fld][j]; cands.append(c)
        for c in cands:
            if fails(c):
                cur, changed = c, True
                break
    return cur


# ------------------------------------------------------------------ probes and Gen
PROBE_LOG = {2.0: {"smA": {"a": {"constants": {"c": 5.0}}}}, 2.5: {}, 3.0: {"smA": {"a": {"constants": {"c": 7.0, "k": 3.0}}}}, 3.5: {}}
PROBE_RES = {k: {"smA": {"a": {"s": {k: float(i)}, "c": {k: 5.0 + i}}}} for i, k in enumerate([2.0, 2.5, 3.0, 3.5])}


S2 = {"smA": {"a": {"constants": {"c": 3.0}}}}
SECOND_SESSION_WITNESS = {"spec": {"start": 2.0, "dt": 0.5, "stop": 5.0}, "compress": False,
                          "instances": [{"prior": [{"sms": ["smA"], "scs": ["a"], "eqs": ["s"], "settings": {},
                                                    "steps": [{"k": "multi", "n": 2, "settings": {}}], "end": False}],
                                         "sms": ["smA", "smB"], "scs": ["a", "b"], "eqs": ["s", "g"], "settings": S2,
                                         "steps": [{"k": "multi", "n": 2, "settings": {}}], "extra": []}]}


LOAD_WITNESS = {"spec": {"start": 2.0, "dt": 0.5, "stop": 6.0}, "compress": False, "startup": False, "diverge": ["end"],
                "instances": [{"sms": ["smA"], "scs": ["a"], "eqs": ["s"], "steps": [{"k": "empty"}, {"k": "empty"}], "extra": []}]}
CLOCK_WITNESS = {"spec": {"start": 0.0, "dt": 0.125, "stop": 2.0}, "compress": False,
                 "instances": [{"sms": ["smA"], "scs": ["a"], "eqs": ["s"], "steps": [{"k": "empty"}, {"k": "empty"}, {"k": "empty"}],
                                "extra": [{"k": "empty"}, {"k": "empty"}]}]}


def probe(base):
    from BPTK_Py.util import statecompression as sc
    facts = {}
    try:
        cs = sc.compress_settings(copy.deepcopy(PROBE_LOG)); cr = sc.compress_results(copy.deepcopy(PROBE_RES))
        ds = sc.decompress_settings(json.loads(json.dumps(cs))); dr = sc.decompress_results(json.loads(json.dumps(cr)))
        facts["compressionKeepsSteps"] = ([tkey(k) for k in ds] == [tkey(k) for k in PROBE_LOG] and
                                          [tkey(k) for k in dr] == [tkey(k) for k in PROBE_RES])
        facts["cs"], facts["cr"] = cs, cr
    except Exception as e:
        facts["compressionKeepsSteps"] = False
        facts["probe_error"] = repr(e)
    case = {"spec": {"start": 2.0, "dt": 0.5, "stop": 8.0}, "compress": True,
            "instances": [{"sms": ["smA"], "scs": ["a"], "eqs": ["s"], "steps": [{"k": "nobody"}], "extra": []}]}
    _, _, v = run_case(case, base)
    facts["noneSettingsSaved"] = not any(k.startswith("run-step-without-body") for k, _, _ in v)
    # wave 2 -- the compressed format and inner dictionaries without a value
    try:
        nn = {2.0: {"smA": {}}, 2.5: {"smA": {"a": {"constants": {}}}}}
        back = sc.decompress_settings(json.loads(json.dumps(sc.compress_settings(copy.deepcopy(nn)))))
        facts["compressionKeepsEmptyInner"] = {tkey(k): v for k, v in back.items()} == {tkey(k): v for k, v in nn.items()}
    except Exception:
        facts["compressionKeepsEmptyInner"] = False
    KEEPS_EMPTY_INNER[0] = facts["compressionKeepsEmptyInner"]
    try:
        rl = {2.0: {"smA": {"a": {"s": {2.0: 1.0}}}, "nosuch": {}}, 2.5: {"smA": {"a": {"s": {2.5: 2.0}}}, "nosuch": {}}}
        back = sc.decompress_results(json.loads(json.dumps(sc.compress_results(copy.deepcopy(rl)))))
        facts["compressionKeepsEmptyManagers"] = [v for v in back.values()] == [{"smA": {"a": {"s": {str(k): x["smA"]["a"]["s"][k]}}}, "nosuch": {}}
                                                                                for k, x in rl.items()] or \
            [sorted(v) for v in back.values()] == [sorted(x) for x in rl.values()]
    except Exception:
        facts["compressionKeepsEmptyManagers"] = False
    KEEPS_EMPTY_MANAGERS[0] = facts["compressionKeepsEmptyManagers"]
    # wave 2 -- whole-server save while one instance has not begun a session
    idle = {"spec": {"start": 2.0, "dt": 0.5, "stop": 8.0}, "compress": False, "idle": True,
            "instances": [{"sms": ["smA"], "scs": ["a"], "eqs": ["s"], "steps": [{"k": "empty"}], "extra": []}]}
    SAVE_STATE_SKIPS_SESSIONLESS[0] = True
    _, _, v = run_case(idle, base)
    facts["saveStateSkipsSessionless"] = not any(k.startswith("save-state-http") for k, _, _ in v)
    SAVE_STATE_SKIPS_SESSIONLESS[0] = facts["saveStateSkipsSessionless"]
    # wave 3 -- a second session on the instance, taken by run-steps to the clock position written last: is it written?
    SAVES_AFTER_EVERY_STEP_REQUEST[0] = True
    _, _, v = run_case(SECOND_SESSION_WITNESS, base)
    facts["saveAfterEveryStepRequest"] = not v
    SAVES_AFTER_EVERY_STEP_REQUEST[0] = facts["saveAfterEveryStepRequest"]
    # wave 9 -- save, end-session (no write), POST /load-state: the stored session is back
    LOAD_INSTALLS_STORED[0] = True
    _, _, v = run_case(LOAD_WITNESS, base)
    facts["loadInstallsStored"] = not v
    LOAD_INSTALLS_STORED[0] = facts["loadInstallsStored"]
    # wave 6 -- the restore applies no function to the clock (dt 0.125, three steps: clock 0.375), all three load paths
    _, _, v = run_case(CLOCK_WITNESS, base)
    facts["restoreKeepsClock"] = not any(k in ("session-clock-not-restored", "next-step-off-grid", "session-fields-not-restored") for k, _, _ in v)
    # wave 2 -- the pickler: a real session state in which one settings object is logged for several steps
    facts.update(probe_pickle(base))
    # wave 8 -- compress / decompress are functions of one log (nothing of an earlier call is in a later result)
    pure, detail = probe_pure()
    facts["compressIsPure"] = pure
    if not pure:
        facts["compressIsPure_detail"] = detail
    return facts


PURE_A = {2.0: {"smA": {"a": {"constants": {"c": 5.0}}}}, 2.5: {"smA": {}}, 3.0: {"smA": {"a": {}}, "smB": {"a": {"constants": {}}}}}
PURE_B = {1.0: {"smA": {"b": {"constants": {"k": 3.0}}}}}
PURE_RA = {k: {"smA": {"a": {"s": {k: float(i)}}}, "nosuch": {}} for i, k in enumerate([2.0, 2.5, 3.0])}
PURE_RB = {1.0: {"smB": {"a": {"c": {1.0: 7.0}}}}}

PURE_SCRIPT = """
import sys, json, importlib.util
spec = importlib.util.spec_from_file_location("sc_fresh", sys.argv[1])
sc = importlib.util.module_from_spec(spec); spec.loader.exec_module(sc)
logs = json.loads(sys.stdin.read())
fl = lambda d: {float(k): v for k, v in d.items()}
out = {}
for name, (st, rs) in logs.items():
    out[name] = [sc.compress_settings(fl(st)), sc.compress_results({float(k): {m: {s_: {e: {float(t): x for t, x in ser.items()} for e, ser in b.items()}
                                                                     for s_, b in a.items()} for m, a in v.items()} for k, v in rs.items()})]
print(json.dumps(out, sort_keys=True))
"""


def probe_pure():
    """compress A, then B, then A again: the two results for A are the same bytes; B after A equals B compressed alone in a FRESH
    process (the module loaded from its file, nothing else); decompress(B) after A gives B back.  -> (pure, detail)"""
    import subprocess
    from BPTK_Py.util import statecompression as sc
    dump = lambda x: json.dumps(x, sort_keys=True)
    try:
        # (dumped at once: a result may alias process-level state that later calls mutate)
        a1 = dump([sc.compress_settings(copy.deepcopy(PURE_A)), sc.compress_results(copy.deepcopy(PURE_RA))])
        b1 = [sc.compress_settings(copy.deepcopy(PURE_B)), sc.compress_results(copy.deepcopy(PURE_RB))]
        b1 = json.loads(dump(b1))
        a2 = dump([sc.compress_settings(copy.deepcopy(PURE_A)), sc.compress_results(copy.deepcopy(PURE_RA))])
        if a1 != a2:
            return False, f"compress(A) twice in one process: first {a1[:300]} then {a2[:300]}"
        p = subprocess.run(["/venv/bin/python", "-c", PURE_SCRIPT, sc.__file__], input=json.dumps({"B": [PURE_B, PURE_RB]}),
                           capture_output=True, text=True, timeout=60)
        fresh = json.loads(p.stdout)["B"]
        if dump(fresh) != dump(json.loads(dump(b1))):
            return False, f"compress(B) after compress(A) {dump(b1)[:300]} differs from compress(B) in a fresh process {dump(fresh)[:300]}"
        back = sc.decompress_settings(json.loads(json.dumps(b1[0])))
        if {tkey(k): v for k, v in back.items()} != {tkey(k): v for k, v in PURE_B.items()}:
            return False, f"decompress(compress(B)) after compress(A) gives {back}"
        return True, ""
    except Exception as e:
        return False, f"compress(B) after compress(A) cannot be decompressed / compared: {e!r}"


def probe_pickle(base):
    """(a) decoderResolvesRefs: FileAdapter._save_instance/_load_instance on a state with a shared settings object;
    (b) the real state object graph, what jsonpickle.dumps wrote for it, for the Gen obligations."""
    import contextlib, io, jsonpickle
    from BPTK_Py.externalstateadapter import InstanceState
    from BPTK_Py import FileAdapter
    out = {"decoderResolvesRefs": False}
    path = os.path.join(base, "pk")
    shutil.rmtree(path, ignore_errors=True); os.makedirs(path)
    spec = {"start": 2.0, "dt": 0.5, "stop": 8.0}
    srv = Server(spec, False, path)
    try:
        with contextlib.redirect_stdout(io.StringIO()):
            iid = json.loads(post(srv.client, "/start-instance").data)["instance_uuid"]
            srv.bptk(iid).begin_session(scenarios=["a"], scenario_managers=["smA"], settings={}, agents=[], agent_states=[],
                                        agent_properties=[], agent_property_types=[], individual_agent_properties=[],
                                        equations=["s"], starttime=2.0, dt=0.5)
            shared = {"smA": {"a": {"points": {"tab": [[0.0, 5.0], [1.0, 2.0]]}, "constants": {"c": 7.0}}}}
            post(srv.client, f"/{iid}/run-steps", {"settings": shared, "numberSteps": 2})
            post(srv.client, f"/{iid}/run-steps", {"settings": {}, "numberSteps": 2})
            post(srv.client, f"/{iid}/run-step", {"settings": {"smA": {"a": {"constants": {"c": 5.0}}}}})
            st = srv.app._instance_manager._get_instance_state(iid)
            state = st.state
            text = jsonpickle.dumps(state)
            out["pk_state"], out["pk_text"] = state, text
            out["pk_refs"] = text.count('"py/id"')
            ad = FileAdapter(False, path)
            ad._save_instance(InstanceState(copy.deepcopy(state), "probe", "t", {"minutes": 1}, state["step"]))
            back = ad._load_instance("probe")
            want = [canon_settings(v) for v in state["settings_log"].values()]
            got = [canon_settings(v) for v in back.state["settings_log"].values()] if back is not None else None
            out["decoderResolvesRefs"] = (got == want)
    except Exception as e:
        out["pk_error"] = repr(e)
    finally:
        srv.close()
        shutil.rmtree(path, ignore_errors=True)
    return out


def canon_settings(v):
    return json.dumps(v, sort_keys=True)


def lean_str(x):
    return json.dumps(str(x))


def lean_atom(v):
    if v is None:
        return '(.atom (.str "None"))'
    if isinstance(v, bool):
        return f'(.atom (.str "{v}"))'
    if isinstance(v, int):
        return f"(.atom (.num {v}))" if v >= 0 else f"(.atom (.num ({v})))"
    if isinstance(v, float):
        return f"(.atom (.str {lean_str(repr(v))}))"
    if isinstance(v, str):
        return f"(.atom (.str {lean_str(v)}))"
    raise ValueError(f"value {type(v).__name__} outside the modelled fragment")


def lean_kids(pairs):
    out = ".nil"
    for k, v in reversed(pairs):
        out = f"(.cons {k} {v} {out})"
    return out


def py_to_pv(o, addr):
    """The Python object graph as a Lean `PV` term: identity = first-met number of id(obj)."""
    if isinstance(o, dict):
        a = addr.setdefault(id(o), len(addr))
        kids = [(f"(.str {lean_str(k if isinstance(k, str) else repr(k))})", py_to_pv(v, addr)) for k, v in o.items()]
        return f"(.obj (0, {a}) false {lean_kids(kids)})"
    if isinstance(o, list):
        a = addr.setdefault(id(o), len(addr))
        return f"(.obj (0, {a}) true {lean_kids([('(.num 0)', py_to_pv(v, addr)) for v in o])})"
    return lean_atom(o)


def json_to_j(o):
    """The written JSON text as a Lean `J` term ({"py/id": n} = ref n)."""
    if is_ref(o):
        return f"(.ref {int(o['py/id'])})"
    if isinstance(o, dict):
        if any(k.startswith("py/") for k in o):
            raise ValueError("jsonpickle tag outside the modelled fragment: " + ",".join(o))
        return f"(.obj false {lean_kids([(f'(.str {lean_str(k)})', json_to_j(v)) for k, v in o.items()])})"
    if isinstance(o, list):
        return f"(.obj true {lean_kids([('(.num 0)', json_to_j(v)) for v in o])})"
    return lean_atom(o)


def lean_row(pairs):
    return "[" + ", ".join(f"({p}, \"{v}\")" for p, v in pairs) + "]"


def gen_lean(facts):
    ns, nr = Numbering(), Numbering()
    res = bool(facts.get("decoderResolvesRefs"))
    sav = bool(facts.get("saveAfterEveryStepRequest"))
    clk = bool(facts.get("restoreKeepsClock"))
    pur = bool(facts.get("compressIsPure"))
    lds = bool(facts.get("loadInstallsStored"))
    head = ("import Bptk.Props.C19\n/-! GENERATED by harness/props/c19.py from /repo on every run — do not edit. -/\n"
            "namespace Bptk.C19.Gen\n"
            f"/-- probed: decompress(compress(log)) keeps the step times: {facts['compressionKeepsSteps']}; "
            f"run-step without body is externalised: {facts['noneSettingsSaved']}; the compressed format keeps empty inner "
            f"dictionaries: {facts.get('compressionKeepsEmptyInner')}; FileAdapter._load_instance resolves py/id: {res} -/\n"
            f"-- every step-advancing request is followed by a write of the instance (second session stepped to the clock position "
            f"written last is in the file): {sav}\n"
            f"-- the restored clock is the saved clock (dt 0.125, clock 0.375, lazy load / load-state / start-up): {clk}\n"
            f"def cfg : Cfg := {{ decoderResolvesRefs := {'true' if res else 'false'}, saveAfterEveryStepRequest := {'true' if sav else 'false'}, "
            f"restoreKeepsClock := {'true' if clk else 'false'}, compressIsPure := {'true' if pur else 'false'}, "
            f"loadInstallsStored := {'true' if lds else 'false'} }}\n"
            f"-- save, end-session, POST /load-state: the instance holds the stored session again: {lds}\n"
            f"-- compress(A), compress(B), compress(A) give the same bytes for A, and B equals B compressed alone in a fresh process: {pur}\n"
            "theorem holds_all_codecs : C19_full := C19_full_holds\n#print axioms holds_all_codecs\n"
            + ("theorem holds : C19_full_cfg cfg := C19_full_of_good cfg (by decide)\n#print axioms holds\n" if res and sav and clk and pur and lds else
               "theorem violated : ¬ C19_full_cfg cfg := C19_witness_load_skips_live cfg (by decide)\n#print axioms violated\n" if res and sav and clk and pur else
               "theorem violated : ¬ C19_full_cfg cfg := C19_witness_compress_accumulates cfg (by decide)\n#print axioms violated\n" if res and sav and clk else
               "theorem violated : ¬ C19_full_cfg cfg := C19_witness_plain_reader cfg (by decide)\n#print axioms violated\n" if not res else
               "theorem violated : ¬ C19_full_cfg cfg := C19_witness_skip_save cfg (by decide)\n#print axioms violated\n" if not sav else
               "theorem violated : ¬ C19_full_cfg cfg := C19_witness_rounding_restore cfg (by decide)\n#print axioms violated\n"))
    if "pk_state" in facts:
        try:
            pv = py_to_pv(facts["pk_state"], {})
            jt = json_to_j(json.loads(facts["pk_text"]))
            head += ("/-- the object graph of a real session state (run-steps twice: one settings object per request, logged for two "
                     "steps each) and the JSON text `jsonpickle.dumps` wrote for it -/\n"
                     f"def pkState : PV := {pv}\n"
                     f"def pkText : J := {jt}\n"
                     "theorem probe_pickle_encode : encode pkState = pkText := by decide +kernel\n"
                     "theorem probe_pickle_decode : decode true pkText = some (unfold pkState) := by decide +kernel\n"
                     + ("theorem probe_pickle_has_backrefs : noRef pkText = false := by decide +kernel\n"
                        "theorem probe_plain_reader_differs : decode false pkText ≠ some (unfold pkState) := by decide +kernel\n"
                        if facts.get("pk_refs") else "-- the written text contains no py/id back-reference\n"))
        except Exception as e:
            head += f"-- pickle probe outside the modelled fragment: {e!r}\n"
    else:
        head += f"-- pickle probe failed: {facts.get('pk_error')}\n"
    body = ""
    if facts.get("compressionKeepsSteps") and "cs" in facts:
        slog = "[" + ", ".join(f"({T(k)}, {lean_row(flat_settings(v, ns))})" for k, v in PROBE_LOG.items()) + "]"
        rlog = "[" + ", ".join(f"({T(k)}, {lean_row(flat_result(v, nr, k))})" for k, v in PROBE_RES.items()) + "]"
        try:
            cs, cr = facts["cs"], facts["cr"]
            cscols = []
            for sm, a in cs["values"].items():
                for sc_, b in a.items():
                    for vt, d in b.items():
                        for name, col in d.items():
                            cscols.append(f"({ns((sm, sc_, vt, name))}, [" + ", ".join(f"({i}, \"{hexs(v)}\")" for i, v in col) + "])")
            crcols = []
            for sm, a in cr["values"].items():
                for sc_, b in a.items():
                    for eq, col in b.items():
                        crcols.append(f"({nr((sm, sc_, eq))}, [" + ", ".join(f"\"{fbits(v)}\"" for v in col) + "])")
            body = (f"def probeSettings : Log := {slog}\n"
                    f"def probeResults : Log := {rlog}\n"
                    f"/-- what the real `compress_settings` / `compress_results` returned for these logs -/\n"
                    f"def realCS : CSettings := {{ steps := [{', '.join(str(T(k)) for k in cs['steps'])}], cols := [{', '.join(cscols)}] }}\n"
                    f"def realCR : CResults := {{ steps := [{', '.join(str(T(k)) for k in cr['steps'])}], cols := [{', '.join(crcols)}] }}\n"
                    "theorem probe_compress_settings : compressSettings probeSettings = realCS := by decide\n"
                    "theorem probe_compress_results : compressResults probeResults = realCR := by decide\n"
                    "theorem probe_decompress_settings : decompressSettings realCS = probeSettings := by decide\n"
                    "theorem probe_decompress_results : decompressResults realCR = probeResults := by decide\n")
        except Exception as e:
            body = f"-- compressed probe output not in the modelled format: {e!r}\n"
    else:
        body = "-- the compressed format of this tree does not keep the step times: no probe obligations; see the findings of the run\n"
    return head + body + "end Bptk.C19.Gen\n"


# ------------------------------------------------------------------ the check
def run(chk):
    quiet_bptk_logging()
    import logging
    logging.getLogger("werkzeug").setLevel(logging.ERROR)
    base = scratch_dir("bptkverif-c19-")
    try:
        _run(chk, base)
    finally:
        shutil.rmtree(base, ignore_errors=True)


def _run(chk, base):
    import logging
    facts = probe(base)
    chk.notes["cfg"] = {k: v for k, v in facts.items() if k not in ("cs", "cr", "pk_state", "pk_text")}
    ok, why = chk.prove(gen_lean(facts))
    chk.cov["trusted_base"] = [
        "Lean 4.33 kernel; axioms propext, Quot.sound (audited per run via #print axioms)",
        "hand-written model lean/Bptk/Core/C19.lean of run_step logging, statecompression (repaired format), ExternalStateAdapter/FileAdapter, "
        "_get_instance_state/reconstruct_instance; tied to the source by the probe obligations of Gen/C19.lean (model compress/decompress = real "
        "compress/decompress on a probe log) and by the correspondence run of this check",
        "nested settings/result dictionaries flattened to path-keyed rows; jsonpickle modelled concretely for the settings part (object graph with "
        "identities, py/id back-references, pickler/unpickler proved inverse; tied by probe_pickle_* obligations on a real state and the `pk` "
        "correspondence line on every written file), abstractly (lawful codec) for the rest of the envelope",
        "JSON stringification of float step keys treated as canonicalisation (keys compared as repr(float(key)))",
    ]
    chk.assumptions = ["a settings dictionary is its set of leaves: dictionaries without a value ({'smA': {}}) are generated; plain mode restores them "
                       "exactly, the compressed format only when probe compressionKeepsEmptyInner holds (repair C19-compressed-empty-inner), else the "
                       "comparison is up to those (named partial clause)",
                       "start time and dt on the dyadic (1/1024) or the decimal (1/10000) lattice; the session clock is snapped to the decimal grid (C05)",
                       "object sharing at the granularity of whole settings objects per step (and their list values in compressed mode)",
                       "dt > 0; every requested equation exists in every selected scenario's model; SD sessions only",
                       "instances without a begun session are not externalised (outside the statement)"]
    chk.cov["rule"] = ("a case = run spec from the lattice start x dt, 1-3 instances each with its own step history (settings / {} / no body / "
                       "run-steps with ONE settings object for numberSteps steps / library run_step(settings=s) loops over a pool of objects / non-normal settings) "
                       "and adapter mode; per case: per-instance reload, continued steps, whole-server save/load; compared: "
                       "session_state and session-results before save vs after load (reference) and model vs implementation on state, "
                       "compressed file content, restored state, served results (correspondence). exhaustive: all step-kind sequences up to "
                       "length L at start 2.0/dt 0.5 and one mixed history on every lattice point, both modes; non-trivial = at least one step "
                       "with non-empty settings and one without")
    cases = empties_cases(chk.quick) + exhaustive_cases(chk.quick) + several_sessions_cases(chk.quick)
    n_exh = len(cases)
    rng = chk.rng.fork("c19-random")
    for _ in range(32 if chk.quick else 600):
        cases.append(gen_case(rng, chk.quick))
    chk.cov["exhaustive_cases"] = n_exh
    req, exp, owners = [], [], []
    viol_by_key = {}
    dist = {"set": 0, "empty": 0, "nobody": 0, "multi": 0, "lib": 0, "stream": 0, "several_sessions": 0, "same_clock_as_last_write": 0, "compressed": 0, "plain": 0, "instances": {1: 0, 2: 0, 3: 0},
            "non_dyadic": 0, "non_normal_settings": 0, "unregistered_manager": 0, "label_text_order_differs": 0, "three_or_four_decimals": 0}
    for k in PK_STATS:
        PK_STATS[k] = 0
    ROWS.clear()
    for ci, case in enumerate(cases):
        q, e, viol = run_case(case, base)
        owners += [ci] * len(q)
        req += q; exp += e
        kinds = [s["k"] for i in case["instances"] for s in i["steps"] + i.get("extra", []) + [x for ps in i.get("prior", []) for x in ps["steps"]]]
        dist["several_sessions"] += sum(1 for i in case["instances"] if i.get("prior"))
        dist["same_clock_as_last_write"] += sum(1 for i in case["instances"] if i.get("prior") and i["steps"] and i["steps"][0]["k"] in ("multi", "stream"))
        for k in kinds:
            dist[k] += 1
        dist["compressed" if case["compress"] else "plain"] += 1
        dist["three_or_four_decimals"] += int(case["spec"]["dt"] in DTS3)
        dist["unregistered_manager"] += sum(1 for i in case["instances"] if "nosuch" in i["sms"])
        dist["label_text_order_differs"] += int(case["spec"]["start"] in (9.0, -2.0, 99.0, 5.0) and case["spec"]["dt"] in (1.0, 0.5))
        dist["non_dyadic"] += 1 if Fraction(case["spec"]["dt"]).denominator > 1024 or Fraction(case["spec"]["start"]).denominator > 1024 else 0
        dist["non_normal_settings"] += sum(1 for i in case["instances"] for s_ in i["steps"] + i.get("extra", [])
                                           if s_["k"] == "set" and prune(s_["settings"]) != s_["settings"])
        dist["instances"][len(case["instances"])] += 1
        for i_ in case["instances"]:
            for s_ in i_["steps"] + i_.get("extra", []) + [x for ps in i_.get("prior", []) for x in ps["steps"]]:
                for d_ in ([s_["settings"]] if "settings" in s_ else []) + s_.get("pool", []):
                    for _, v_ in leaves(prune(d_)):
                        if isinstance(v_, (int, float)) and not isinstance(v_, bool):
                            row("settings value: " + ("int 0" if v_ == 0 and isinstance(v_, int) else "float 0.0" if v_ == 0 else "negative" if v_ < 0 else
                                                      "large (1e10)" if v_ >= 1e9 else "many decimals" if len(repr(v_)) > 8 else "plain float"))
                        else:
                            row("settings value: list (points table)")
        chk.case(json.dumps(case, sort_keys=True), nontrivial=("set" in kinds or "multi" in kinds or "lib" in kinds) and ("empty" in kinds or "nobody" in kinds),
                 sample=case if len(kinds) >= 4 else None)
        for v in viol:
            viol_by_key.setdefault(v[0], (case, viol))
    chk.cov["input_distribution"] = dist
    chk.cov["coverage_rows"] = dict(sorted(ROWS.items()))
    chk.cov["pickle_backrefs"] = dict(PK_STATS)
    chk.notes["impl_wall_s"] = round(time.time() - chk.t0, 1)
    model = drive("C19", req) if req else []
    chk.notes["drive_done_s"] = round(time.time() - chk.t0, 1)
    chk.cov["traces_validated_against_impl"] = sum(1 for r in req if r.startswith("begin"))
    diff = next((i for i, (a, b) in enumerate(zip(model, exp)) if a != b), None)
    if diff is None and len(model) != len(exp):
        diff = min(len(model), len(exp))
    first_viol = next(iter(viol_by_key.values()), None)
    for key, (case, viol) in list(viol_by_key.items())[:6]:
        small = shrink_case(case, key, base)
        v2 = [v for v in run_case(small, base)[2] if v[0] == key] or [v for v in viol if v[0] == key]
        chk.add_finding(key, v2[0][1], {"case": small, "violations": [list(v) for v in v2], "correspondence": key if key.startswith("correspondence") else None},
                        found_input=not key.startswith("correspondence"))
    if not facts.get("compressIsPure", True):
        chk.add_finding("compress-not-pure", "the compressed form of a log depends on what was compressed before in the process: "
                        + facts.get("compressIsPure_detail", ""), {"purity": {"A": [{str(k): v for k, v in PURE_A.items()}],
                                                                              "B": [{str(k): v for k, v in PURE_B.items()}]},
                                                                   "detail": facts.get("compressIsPure_detail")})
    if not ok:
        chk.add_finding("obligation", f"proof obligations of C19 no longer check: {why}",
                        {"theorem": "Bptk.C19.Gen.* / Bptk.Props.C19", "detail": why}, found_input=False)
    if diff is not None and first_viol is None:
        ci = owners[diff] if diff < len(owners) else None
        chk.add_finding("correspondence", f"model and implementation disagree at protocol line {diff}: request {req[diff]!r}",
                        {"correspondence": "Drive/C19 vs BptkServer+FileAdapter", "line": diff, "case": cases[ci] if ci is not None else None,
                         "request_context": req[max(0, diff - 8):diff + 1], "model": model[diff] if diff < len(model) else None,
                         "impl": exp[diff] if diff < len(exp) else None}, found_input=False)


def replay(path):
    quiet_bptk_logging()
    import logging
    logging.getLogger("werkzeug").setLevel(logging.ERROR)
    r = json.load(open(path))["replay"]
    if "purity" in r:
        pure, detail = probe_pure()
        print("compress(A), compress(B), compress(A) with A =", PURE_A, "B =", PURE_B)
        print("pure on the current tree:", pure, detail)
        return 0 if pure else 1
    if "case" not in r or r["case"] is None:
        print("no concrete input stored:", r)
        return 1
    base = scratch_dir("bptkverif-c19-")
    try:
        import contextlib, io
        with contextlib.redirect_stdout(io.StringIO()):
            probe(base)                                   # the check runs its probes first (process-level state, probed facts)
        req, exp, viol = run_case(r["case"], base)
        model = drive("C19", req) if req else []
    finally:
        shutil.rmtree(base, ignore_errors=True)
    print("case:", json.dumps(r["case"]))
    print("reference violations on the current tree:", viol)
    diffs = [(i, a, b) for i, (a, b) in enumerate(zip(model, exp)) if a != b]
    print("model/implementation differences:", diffs[:3])
    return 1 if (viol or diffs) else 0
