"""C19 — externalised instance state is restored losslessly.

Probe (statecompression called directly, run-step without body) -> Gen obligations; correspondence of the
Lean model (Drive/C19) with a real BptkServer + FileAdapter on generated session histories x {plain,
compressed} x {per-instance reload, whole-server save/load}; independent reference check: the session
state and the served session results after the restore equal those before the save."""
import copy, json, os, shutil
from fractions import Fraction
from common import *

UNIT = 1024
MANAGERS = {"smA": ["a", "b"], "smB": ["a"]}          # registered scenarios per manager
EQS = ["s", "f", "c", "g"]
STARTS = [0.0, 1.0, 2.0, 0.5, 3.25]
DTS = [1.0, 0.5, 0.25, 2.0]
CVALS = [5.0, 7.0, 0.5, 3.0]


# ------------------------------------------------------------------ the system under test
def make_factory(start, stop, dt):
    import BPTK_Py
    from BPTK_Py import Model

    def factory():
        b = BPTK_Py.bptk()
        for sm, scs in MANAGERS.items():
            model = Model(starttime=start, stoptime=stop, dt=dt, name="M" + sm)
            s, f, c, k, g = model.stock("s"), model.flow("f"), model.constant("c"), model.constant("k"), model.converter("g")
            s.initial_value = 0.0
            s.equation = f
            f.equation = c
            c.equation = 1.0
            k.equation = 2.0
            g.equation = s * k
            b.register_scenario_manager({sm: {"model": model}})
            b.register_scenarios(scenario_manager=sm, scenarios={sc: {"constants": {"c": 1.0 + i}} for i, sc in enumerate(scs)})
        return b
    return factory


class Server:
    """A BptkServer on a scratch state directory; keeps track of every bptk object to destroy it."""
    def __init__(self, spec, compress, path):
        from BPTK_Py import FileAdapter
        from BPTK_Py.server import BptkServer
        self.made = []
        fac = make_factory(spec["start"], spec["stop"], spec["dt"])
        def tracked():
            b = fac(); self.made.append(b); return b
        self.adapter = FileAdapter(compress, path)
        self.app = BptkServer("c19", tracked, external_state_adapter=self.adapter)
        self.app.logger.disabled = True
        self.client = self.app.test_client()
        self.path = path
    def bptk(self, iid):
        d = self.app._instance_manager._instances.get(iid)
        return None if d is None else d["instance"]
    def close(self):
        for b in self.made:
            try: b.destroy()
            except Exception: pass


def post(client, url, body=None):
    if body is None:
        return client.post(url)
    return client.post(url, data=json.dumps(body), content_type="application/json")


# ------------------------------------------------------------------ canonical forms
def T(x):
    fr = Fraction(float(x)) * UNIT
    if fr.denominator != 1:
        raise ValueError(f"time {x!r} off the 1/{UNIT} lattice")
    return int(fr)


def tkey(k):
    return repr(float(k))


def hexs(v):
    return json.dumps(v, sort_keys=True).encode().hex()


class Numbering:
    def __init__(self): self.m = {}
    def __call__(self, tup):
        return self.m.setdefault(tuple(tup), len(self.m))


def result_paths(state, num):
    out = []
    for sm in state["scenario_managers"]:
        for sc in MANAGERS.get(sm, []):
            if sc in state["scenarios"]:
                for eq in state["equations"]:
                    out.append(num((sm, sc, eq)))
    return out


def flat_settings(settings, num):
    """{sm:{sc:{vt:{name:v}}}} -> [(path, hex)]; None (no body) is kept as None"""
    out = []
    for sm, a in (settings or {}).items():
        for sc, b in a.items():
            for vt, c in b.items():
                for name, v in c.items():
                    out.append((num((sm, sc, vt, name)), hexs(v)))
    return out


def flat_result(res, num, key=None):
    """{sm:{sc:{eq:{step:v}}}} -> [(path, fbits)] (the inner dictionary has exactly one entry: the step)"""
    out = []
    for sm, a in res.items():
        for sc, b in a.items():
            for eq, c in b.items():
                vals = list(c.values())
                if len(vals) != 1 or (key is not None and [tkey(x) for x in c] != [tkey(key)]):
                    out.append((num((sm, sc, eq)), "BADINNER"))
                else:
                    out.append((num((sm, sc, eq)), fbits(vals[0])))
    return out


def fmt_row(pairs):
    return ",".join(f"{p}={v}" for p, v in sorted(pairs))


def fmt_session(state, nr, ns):
    S = "".join(f"{T(k)}{{{fmt_row(flat_settings(v, ns)) if v is not None else 'NONE'}}}" for k, v in state["settings_log"].items())
    R = "".join(f"{T(k)}{{{fmt_row(flat_result(v, nr, k))}}}" for k, v in state["results_log"].items())
    ps = ",".join(map(str, result_paths(state, nr)))
    return (f"paths={ps};start={T(state['starttime'])};dt={T(state['dt'])};stop={T(state['stoptime'])};"
            f"step={T(state['step'])};S={S};R={R}")


def fmt_cs(c, ns):
    try:
        cols = []
        for sm, a in c["values"].items():
            for sc, b in a.items():
                for vt, d in b.items():
                    for name, col in d.items():
                        cols.append((ns((sm, sc, vt, name)), ",".join(f"{i}={hexs(v)}" for i, v in col)))
        return "steps=" + ",".join(str(T(k)) for k in c["steps"]) + ";cols=" + "".join(f"{p}[{col}]" for p, col in sorted(cols))
    except Exception as e:
        return f"unparseable-format({type(e).__name__})"


def fmt_cr(c, nr):
    try:
        cols = []
        for sm, a in c["values"].items():
            for sc, b in a.items():
                for eq, col in b.items():
                    cols.append((nr((sm, sc, eq)), ",".join(fbits(v) for v in col)))
        return "steps=" + ",".join(str(T(k)) for k in c["steps"]) + ";cols=" + "".join(f"{p}[{col}]" for p, col in sorted(cols))
    except Exception as e:
        return f"unparseable-format({type(e).__name__})"


def fmt_res(res, nr):
    cols = []
    for sm, a in res.items():
        for sc, b in a.items():
            for eq, ser in b.get("equations", {}).items():
                cols.append((nr((sm, sc, eq)), ",".join(f"{T(k)}={fbits(v)}" for k, v in ser.items())))
    return "".join(f"{p}[{col}]" for p, col in sorted(cols))


def canon_state(st):
    """session_state with time keys canonicalised (JSON turns float keys into strings)."""
    if st is None:
        return None
    d = {k: copy.deepcopy(v) for k, v in st.items() if k not in ("lock", "settings_log", "results_log")}
    d["settings_log"] = {tkey(k): v for k, v in st["settings_log"].items()}
    d["results_log"] = {tkey(k): {sm: {sc: {eq: {tkey(k2): v for k2, v in ser.items()} for eq, ser in b.items()}
                                       for sc, b in a.items()} for sm, a in res.items()}
                        for k, res in st["results_log"].items()}
    return d


def classify(before, after, res_before, res_after):
    """The property's right-hand side, checked directly on the real code. None = restored losslessly."""
    if after is None:
        return ("restore-failed", "the instance could not be restored")
    kb, ka = list(before["results_log"]), list(after["results_log"])
    if kb != ka:
        return ("step-keys-not-restored", f"results_log steps before {kb} after {ka}")
    kb, ka = list(before["settings_log"]), list(after["settings_log"])
    if kb != ka:
        return ("settings-steps-not-restored", f"settings_log steps before {kb} after {ka}")
    if before["step"] != after["step"]:
        return ("session-clock-not-restored", f"step before {before['step']} after {after['step']}")
    if before["settings_log"] != after["settings_log"]:
        return ("settings-log-not-restored", f"settings_log before {before['settings_log']} after {after['settings_log']}")
    if before["results_log"] != after["results_log"]:
        return ("results-log-not-restored", f"results_log before {before['results_log']} after {after['results_log']}")
    if before != after:
        diff = [k for k in before if before.get(k) != after.get(k)]
        return ("session-fields-not-restored", f"fields {diff} differ")
    if res_before != res_after:
        return ("session-results-differ", f"session-results before {res_before} after {res_after}")
    return None


# ------------------------------------------------------------------ one case on the real code
def step_body(st):
    if st["k"] == "nobody":
        return None
    return {"settings": st.get("settings", {})}


def take_steps(srv, iid, steps, log):
    """log: list of (settings-or-None, response dict) per single step taken; returns reference violations."""
    viol = []
    for st in steps:
        if st["k"] == "multi":
            r = post(srv.client, f"/{iid}/run-steps", {"settings": st["settings"], "numberSteps": st["n"]})
            if r.status_code != 200:
                viol.append(("run-steps-http-%d" % r.status_code, f"run-steps {st} -> HTTP {r.status_code}"))
                break
            for one in json.loads(r.data):
                log.append((st["settings"], one))
        else:
            r = post(srv.client, f"/{iid}/run-step", step_body(st))
            if r.status_code != 200:
                key = "run-step-without-body-http-%d" % r.status_code if st["k"] == "nobody" else "run-step-http-%d" % r.status_code
                viol.append((key, f"run-step ({st['k']}) with a state adapter configured -> HTTP {r.status_code}"))
                break
            log.append((None if st["k"] == "nobody" else st.get("settings", {}), json.loads(r.data)))
    return viol


def observe(srv, iid):
    b = srv.bptk(iid)
    st = canon_state(b.session_state) if b is not None else None
    raw = copy.deepcopy(b.session_state) if b is not None else None
    r = srv.client.get(f"/{iid}/session-results")
    res = json.loads(r.data) if r.status_code == 200 else {"http": r.status_code}
    return st, raw, res


def model_lines(inst, raw_before, log, raw_after, res_after, compress, filestate, nr, ns, tag):
    """Protocol lines (request, expected reply) for one instance at one save/load point."""
    req, exp = [], []
    spec_paths = result_paths(raw_before, nr)
    req.append(f"begin {','.join(map(str, spec_paths)) or '-'} {T(raw_before['starttime'])} {T(raw_before['dt'])} {T(raw_before['stoptime'])}")
    exp.append("ok")
    for settings, resp in log:
        sline = "none" if settings is None else (fmt_row(flat_settings(settings, ns)) or "-")
        vline = "-" if "msg" in resp else (fmt_row(flat_result(resp, nr)) or "-")
        req.append(f"step {sline} {vline}"); exp.append("ok")
    req.append("state"); exp.append(fmt_session(raw_before, nr, ns))
    b = "1" if compress else "0"
    req.append(f"rt {b}"); exp.append("RESTORE-FAILED" if raw_after is None else fmt_session(raw_after, nr, ns))
    if compress and filestate is not None:
        req.append("cs"); exp.append(fmt_cs(filestate["settings_log"], ns))
        req.append("cr"); exp.append(fmt_cr(filestate["results_log"], nr))
    req.append(f"res {b}"); exp.append(fmt_res(res_after, nr) if "http" not in res_after else "HTTP-ERROR")
    return req, exp


def read_file_state(path, iid):
    try:
        import jsonpickle                           # shared sub-objects are written as py/id references
        env = jsonpickle.loads(open(os.path.join(path, iid + ".json")).read())
        return jsonpickle.loads(env["data"]["state"])
    except Exception:
        return None


def run_case(case, base):
    """Returns (request lines, expected replies, reference violations [(key, text, where)])."""
    import contextlib, io
    with contextlib.redirect_stdout(io.StringIO()):      # the adapter print()s its load errors
        return _run_case(case, base)


def _run_case(case, base):
    path = os.path.join(base, "state")
    shutil.rmtree(path, ignore_errors=True)
    os.makedirs(path)
    spec = case["spec"]
    srv = Server(spec, case["compress"], path)
    req, exp, viol = [], [], []
    nr, ns = Numbering(), Numbering()
    try:
        ids, logs = [], []
        for inst in case["instances"]:
            iid = json.loads(post(srv.client, "/start-instance").data)["instance_uuid"]
            sms = inst["sms"]
            srv.bptk(iid).begin_session(scenarios=inst["scs"], scenario_managers=sms, settings={}, agents=[], agent_states=[],
                                        agent_properties=[], agent_property_types=[], individual_agent_properties=[],
                                        equations=inst["eqs"], starttime=spec["start"], dt=spec["dt"])
            log = []
            v = take_steps(srv, iid, inst["steps"], log)
            viol += [(k, t, {"instance": len(ids)}) for k, t in v]
            ids.append(iid); logs.append(log)
        if viol:
            return req, exp, viol
        for route in ("instance", "server"):
            before = [observe(srv, iid) for iid in ids]
            if route == "instance":
                for n, iid in enumerate(ids):         # what a timeout does: the instance leaves the manager ...
                    if logs[n]:                       # (only instances that have been externalised)
                        srv.app._instance_manager._delete_instance(iid)
                # ... and is loaded from its file by the next request that names it
            else:
                r = srv.client.get("/save-state")
                if r.status_code != 200:
                    viol.append((f"save-state-http-{r.status_code}", "GET /save-state failed", {}))
                    break
                r = post(srv.client, "/load-state")
                if r.status_code != 200:
                    viol.append((f"load-state-http-{r.status_code}", "POST /load-state failed", {}))
                    break
            for n, iid in enumerate(ids):
                if not logs[n]:
                    continue                          # never stepped: never externalised (outside the statement)
                res_r = srv.client.get(f"/{iid}/session-results")
                res_after = json.loads(res_r.data) if res_r.status_code == 200 and srv.bptk(iid) is not None else {"http": res_r.status_code}
                b = srv.bptk(iid)
                raw_after = copy.deepcopy(b.session_state) if b is not None else None
                st_before, raw_before, res_before = before[n]
                c = classify(st_before, canon_state(raw_after), res_before, res_after)
                if c is not None:
                    viol.append((c[0], f"{'compressed' if case['compress'] else 'plain'} mode, {route} save/load: {c[1]}",
                                 {"instance": n, "route": route}))
                try:
                    q, e = model_lines(case["instances"][n], raw_before, logs[n], raw_after, res_after, case["compress"],
                                       read_file_state(path, iid), nr, ns, route)
                except ValueError as err:
                    q, e = ["begin - 0 0 0"], [f"harness: {err}"]
                req += q; exp += e
            if viol:
                break
            if route == "instance":                   # the restored sessions go on; second save/load sees mixed key types
                for n, iid in enumerate(ids):
                    v = take_steps(srv, iid, case["instances"][n].get("extra", []), logs[n])
                    viol += [(k, t, {"instance": n, "after": "restore"}) for k, t in v]
                if viol:
                    break
    finally:
        srv.close()
        shutil.rmtree(path, ignore_errors=True)
    return req, exp, viol


# ------------------------------------------------------------------ generation
def settings_for(rng, sms, scs, rich):
    """A settings dictionary in normal form (no empty inner dictionaries)."""
    out = {}
    for _ in range(rng.range(1, 3) if rich else 1):
        sm = rng.choice(sms)
        cand = [sc for sc in MANAGERS[sm] if sc in scs] or MANAGERS[sm][:1]
        sc = rng.choice(cand)
        if rng.chance(1, 5):
            out.setdefault(sm, {}).setdefault(sc, {}).setdefault("points", {})["tab"] = [[0.0, rng.choice(CVALS)], [1.0, 2.0]]
        else:
            out.setdefault(sm, {}).setdefault(sc, {}).setdefault("constants", {})[rng.choice(["c", "k"])] = rng.choice(CVALS)
    return out


def gen_step(rng, sms, scs):
    r = rng.below(10)
    if r < 4:
        return {"k": "set", "settings": settings_for(rng, sms, scs, rng.chance(1, 2))}
    if r < 6:
        return {"k": "empty"}
    if r < 8:
        return {"k": "nobody"}
    return {"k": "multi", "n": rng.range(1, 3), "settings": settings_for(rng, sms, scs, False) if rng.chance(1, 2) else {}}


def gen_case(rng, quick):
    start, dt = rng.choice(STARTS), rng.choice(DTS)
    horizon = rng.choice([2, 4, 12, 12, 12])
    spec = {"start": start, "dt": dt, "stop": start + dt * horizon}
    insts = []
    for _ in range(rng.choice([1, 1, 2, 3])):
        sms = rng.choice([["smA"], ["smA", "smB"], ["smB"]])
        scs = rng.choice([["a"], ["a", "b"]])
        eqs = rng.choice([["s"], ["s", "c"], ["s", "f", "c", "g"], ["g", "c"]])
        n = rng.range(0, 4 if quick else 7)
        insts.append({"sms": sms, "scs": scs, "eqs": eqs, "steps": [gen_step(rng, sms, scs) for _ in range(n)],
                      "extra": [gen_step(rng, sms, scs) for _ in range(rng.range(0, 2))]})
    return {"spec": spec, "compress": rng.chance(2, 3), "instances": insts}


def exhaustive_cases(quick):
    """All sequences up to length L over {settings c, settings k on another scenario, {}, no body} at start 2.0 / dt 0.5,
    both modes; plus every (start, dt) of the lattice with one fixed mixed history."""
    import itertools
    L = 2 if quick else 4
    alpha = [{"k": "set", "settings": {"smA": {"a": {"constants": {"c": 5.0}}}}},
             {"k": "set", "settings": {"smA": {"b": {"constants": {"k": 3.0}}}}},
             {"k": "empty"}, {"k": "nobody"}]
    out = []
    for n in range(1, L + 1):
        for seq in itertools.product(range(4), repeat=n):
            for compress in (True, False):
                out.append({"spec": {"start": 2.0, "dt": 0.5, "stop": 8.0}, "compress": compress,
                            "instances": [{"sms": ["smA"], "scs": ["a", "b"], "eqs": ["s", "c"],
                                           "steps": [copy.deepcopy(alpha[i]) for i in seq], "extra": [{"k": "empty"}]}]})
    mixed = [alpha[2], alpha[0], alpha[3], alpha[1]]
    for start in STARTS:
        for dt in DTS:
            for compress in (True, False):
                out.append({"spec": {"start": start, "dt": dt, "stop": start + 10 * dt}, "compress": compress,
                            "instances": [{"sms": ["smA", "smB"], "scs": ["a", "b"], "eqs": ["s", "g"],
                                           "steps": copy.deepcopy(mixed), "extra": [copy.deepcopy(alpha[0])]}]})
    return out


def shrink_case(case, key, base):
    def fails(c):
        try:
            return any(k == key for k, _, _ in run_case(c, base)[2])
        except Exception:
            return False
    cur = copy.deepcopy(case)
    changed = True
    while changed:
        changed = False
        cands = []
        for i in range(len(cur["instances"])):
            if len(cur["instances"]) > 1:
                c = copy.deepcopy(cur); del c["instances"][i]; cands.append(c)
            for fld in ("extra", "steps"):
                for j in range(len(cur["instances"][i][fld])):
                    c = copy.deepcopy(cur); del c["instances"][i][fld][j]; cands.append(c)
        for c in cands:
            if fails(c):
                cur, changed = c, True
                break
    return cur


# ------------------------------------------------------------------ probes and Gen
PROBE_LOG = {2.0: {"smA": {"a": {"constants": {"c": 5.0}}}}, 2.5: {}, 3.0: {"smA": {"a": {"constants": {"c": 7.0, "k": 3.0}}}}, 3.5: {}}
PROBE_RES = {k: {"smA": {"a": {"s": {k: float(i)}, "c": {k: 5.0 + i}}}} for i, k in enumerate([2.0, 2.5, 3.0, 3.5])}


def probe(base):
    from BPTK_Py.util import statecompression as sc
    facts = {}
    try:
        cs = sc.compress_settings(copy.deepcopy(PROBE_LOG)); cr = sc.compress_results(copy.deepcopy(PROBE_RES))
        ds = sc.decompress_settings(json.loads(json.dumps(cs))); dr = sc.decompress_results(json.loads(json.dumps(cr)))
        facts["compressionKeepsSteps"] = ([tkey(k) for k in ds] == [tkey(k) for k in PROBE_LOG] and
                                          [tkey(k) for k in dr] == [tkey(k) for k in PROBE_RES])
        facts["cs"], facts["cr"] = cs, cr
    except Exception as e:
        facts["compressionKeepsSteps"] = False
        facts["probe_error"] = repr(e)
    case = {"spec": {"start": 2.0, "dt": 0.5, "stop": 8.0}, "compress": True,
            "instances": [{"sms": ["smA"], "scs": ["a"], "eqs": ["s"], "steps": [{"k": "nobody"}], "extra": []}]}
    _, _, v = run_case(case, base)
    facts["noneSettingsSaved"] = not any(k.startswith("run-step-without-body") for k, _, _ in v)
    return facts


def lean_row(pairs):
    return "[" + ", ".join(f"({p}, \"{v}\")" for p, v in pairs) + "]"


def gen_lean(facts):
    ns, nr = Numbering(), Numbering()
    head = ("import Bptk.Props.C19\n/-! GENERATED by harness/props/c19.py from /repo on every run — do not edit. -/\n"
            "namespace Bptk.C19.Gen\n"
            f"/-- probed: decompress(compress(log)) keeps the step times: {facts['compressionKeepsSteps']}; "
            f"run-step without body is externalised: {facts['noneSettingsSaved']} -/\n"
            "theorem holds : C19_full := C19_full_holds\n#print axioms holds\n")
    body = ""
    if facts.get("compressionKeepsSteps") and "cs" in facts:
        slog = "[" + ", ".join(f"({T(k)}, {lean_row(flat_settings(v, ns))})" for k, v in PROBE_LOG.items()) + "]"
        rlog = "[" + ", ".join(f"({T(k)}, {lean_row(flat_result(v, nr, k))})" for k, v in PROBE_RES.items()) + "]"
        try:
            cs, cr = facts["cs"], facts["cr"]
            cscols = []
            for sm, a in cs["values"].items():
                for sc_, b in a.items():
                    for vt, d in b.items():
                        for name, col in d.items():
                            cscols.append(f"({ns((sm, sc_, vt, name))}, [" + ", ".join(f"({i}, \"{hexs(v)}\")" for i, v in col) + "])")
            crcols = []
            for sm, a in cr["values"].items():
                for sc_, b in a.items():
                    for eq, col in b.items():
                        crcols.append(f"({nr((sm, sc_, eq))}, [" + ", ".join(f"\"{fbits(v)}\"" for v in col) + "])")
            body = (f"def probeSettings : Log := {slog}\n"
                    f"def probeResults : Log := {rlog}\n"
                    f"/-- what the real `compress_settings` / `compress_results` returned for these logs -/\n"
                    f"def realCS : CSettings := {{ steps := [{', '.join(str(T(k)) for k in cs['steps'])}], cols := [{', '.join(cscols)}] }}\n"
                    f"def realCR : CResults := {{ steps := [{', '.join(str(T(k)) for k in cr['steps'])}], cols := [{', '.join(crcols)}] }}\n"
                    "theorem probe_compress_settings : compressSettings probeSettings = realCS := by decide\n"
                    "theorem probe_compress_results : compressResults probeResults = realCR := by decide\n"
                    "theorem probe_decompress_settings : decompressSettings realCS = probeSettings := by decide\n"
                    "theorem probe_decompress_results : decompressResults realCR = probeResults := by decide\n")
        except Exception as e:
            body = f"-- compressed probe output not in the modelled format: {e!r}\n"
    else:
        body = "-- the compressed format of this tree does not keep the step times: no probe obligations; see the findings of the run\n"
    return head + body + "end Bptk.C19.Gen\n"


# ------------------------------------------------------------------ the check
def run(chk):
    quiet_bptk_logging()
    import logging
    logging.getLogger("werkzeug").setLevel(logging.ERROR)
    base = scratch_dir("bptkverif-c19-")
    try:
        _run(chk, base)
    finally:
        shutil.rmtree(base, ignore_errors=True)


def _run(chk, base):
    import logging
    facts = probe(base)
    chk.notes["cfg"] = {k: v for k, v in facts.items() if k not in ("cs", "cr")}
    ok, why = chk.prove(gen_lean(facts))
    chk.cov["trusted_base"] = [
        "Lean 4.33 kernel; axioms propext, Quot.sound (audited per run via #print axioms)",
        "hand-written model lean/Bptk/Core/C19.lean of run_step logging, statecompression (repaired format), ExternalStateAdapter/FileAdapter, "
        "_get_instance_state/reconstruct_instance; tied to the source by the probe obligations of Gen/C19.lean (model compress/decompress = real "
        "compress/decompress on a probe log) and by the correspondence run of this check",
        "nested settings/result dictionaries flattened to path-keyed rows; jsonpickle/json modelled as an abstract lawful codec "
        "(dec (enc e) = some e), validated by the correspondence through real files",
        "JSON stringification of float step keys treated as canonicalisation (keys compared as repr(float(key)))",
    ]
    chk.assumptions = ["settings dictionaries are in normal form (no empty inner dictionary such as {'smA': {}})",
                       "start time and dt on the dyadic lattice (float step arithmetic exact; drift is C05's subject)",
                       "dt > 0; every requested equation exists in every selected scenario's model; SD sessions only",
                       "instances without a begun session are not externalised (outside the statement)"]
    chk.cov["rule"] = ("a case = run spec from the lattice start x dt, 1-3 instances each with its own step history (settings / {} / no body / "
                       "run-steps) and adapter mode; per case: per-instance reload, continued steps, whole-server save/load; compared: "
                       "session_state and session-results before save vs after load (reference) and model vs implementation on state, "
                       "compressed file content, restored state, served results (correspondence). exhaustive: all step-kind sequences up to "
                       "length L at start 2.0/dt 0.5 and one mixed history on every lattice point, both modes; non-trivial = at least one step "
                       "with non-empty settings and one without")
    cases = exhaustive_cases(chk.quick)
    n_exh = len(cases)
    rng = chk.rng.fork("c19-random")
    for _ in range(40 if chk.quick else 600):
        cases.append(gen_case(rng, chk.quick))
    chk.cov["exhaustive_cases"] = n_exh
    req, exp, owners = [], [], []
    viol_by_key = {}
    dist = {"set": 0, "empty": 0, "nobody": 0, "multi": 0, "compressed": 0, "plain": 0, "instances": {1: 0, 2: 0, 3: 0}, "stoptime_reached": 0}
    for ci, case in enumerate(cases):
        q, e, viol = run_case(case, base)
        owners += [ci] * len(q)
        req += q; exp += e
        kinds = [s["k"] for i in case["instances"] for s in i["steps"] + i["extra"]]
        for k in kinds:
            dist[k] += 1
        dist["compressed" if case["compress"] else "plain"] += 1
        dist["instances"][len(case["instances"])] += 1
        chk.case(json.dumps(case, sort_keys=True), nontrivial=("set" in kinds or "multi" in kinds) and ("empty" in kinds or "nobody" in kinds),
                 sample=case if len(kinds) >= 4 else None)
        for v in viol:
            viol_by_key.setdefault(v[0], (case, viol))
    chk.cov["input_distribution"] = dist
    chk.notes["impl_wall_s"] = round(time.time() - chk.t0, 1)
    model = drive("C19", req) if req else []
    chk.notes["drive_done_s"] = round(time.time() - chk.t0, 1)
    chk.cov["traces_validated_against_impl"] = sum(1 for r in req if r.startswith("begin"))
    diff = next((i for i, (a, b) in enumerate(zip(model, exp)) if a != b), None)
    if diff is None and len(model) != len(exp):
        diff = min(len(model), len(exp))
    first_viol = next(iter(viol_by_key.values()), None)
    for key, (case, viol) in list(viol_by_key.items())[:6]:
        small = shrink_case(case, key, base)
        v2 = [v for v in run_case(small, base)[2] if v[0] == key] or [v for v in viol if v[0] == key]
        chk.add_finding(key, v2[0][1], {"case": small, "violations": [list(v) for v in v2]})
    if not ok:
        chk.add_finding("obligation", f"proof obligations of C19 no longer check: {why}",
                        {"theorem": "Bptk.C19.Gen.* / Bptk.Props.C19", "detail": why}, found_input=False)
    if diff is not None and first_viol is None:
        ci = owners[diff] if diff < len(owners) else None
        chk.add_finding("correspondence", f"model and implementation disagree at protocol line {diff}: request {req[diff]!r}",
                        {"correspondence": "Drive/C19 vs BptkServer+FileAdapter", "line": diff, "case": cases[ci] if ci is not None else None,
                         "request_context": req[max(0, diff - 8):diff + 1], "model": model[diff] if diff < len(model) else None,
                         "impl": exp[diff] if diff < len(exp) else None}, found_input=False)


def replay(path):
    quiet_bptk_logging()
    import logging
    logging.getLogger("werkzeug").setLevel(logging.ERROR)
    r = json.load(open(path))["replay"]
    if "case" not in r or r["case"] is None:
        print("no concrete input stored:", r)
        return 1
    base = scratch_dir("bptkverif-c19-")
    try:
        req, exp, viol = run_case(r["case"], base)
        model = drive("C19", req) if req else []
    finally:
        shutil.rmtree(base, ignore_errors=True)
    print("case:", json.dumps(r["case"]))
    print("reference violations on the current tree:", viol)
    diffs = [(i, a, b) for i, (a, b) in enumerate(zip(model, exp)) if a != b]
    print("model/implementation differences:", diffs[:3])
    return 1 if (viol or diffs) else 0
